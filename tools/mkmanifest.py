#!/usr/bin/env python3
"""Regenerate /verif/MANIFEST.json from props/*.json (claimed properties) and na.json (not applicable)."""
import glob, json, os, subprocess
V = os.path.dirname(os.path.dirname(os.path.abspath(__file__)))
props = {}
claimed = open(os.path.join(V, "tools", "claimed.txt")).read().split()
for p in sorted(glob.glob(os.path.join(V, "props", "C*.json"))):
    if os.path.basename(p)[:-5] in claimed:
        props[os.path.basename(p)[:-5]] = json.load(open(p))
na = json.load(open(os.path.join(V, "na.json")))
hooks = subprocess.run(["git", "-C", "/repo", "log", "--format=%h %s"], capture_output=True, text=True).stdout.splitlines()
hook_commits = [l.split()[0] for l in hooks if "verif hook" in l]
checks = []
for pid, d in props.items():
    hasv = bool(d.get("verus") or d.get("verus_thorough"))
    hask = bool(d.get("kani") or d.get("kani_thorough"))
    eng = "+".join([e for e, h in (("V", hasv), ("K", hask)) if h])
    tech = d.get("technique") or ("contract-based deductive verification: " + " + ".join(
        ([("Verus requires/ensures/invariant/decreases on functions extracted from /repo each run")] if hasv else []) +
        ([("Kani in-place function contracts / loop-free full-domain harnesses on the real crate")] if hask else [])))
    checks.append(dict(
        property_id=pid,
        quick_cmd="./check %s quick" % pid,
        thorough_cmd="./check %s thorough" % pid,
        evidence_file="/verif/evidence/%s.json" % pid,
        replay_cmd_template="cat {path}",
        engine=eng,
        level_claimed=dict(category="proof",
                           text=d.get("level_text") or "every obligation generated from the contracts on the real function bodies is discharged by the verifier for all inputs and iterations (Verus: f64 as reals; Kani: bit-precise, loop-free/full-domain); clauses listed under not_claimed in the evidence are NOT proved - where the evidence lists a bounded native check they are evaluated on its stated input space only (labelled bounded, never counted as a discharged obligation)",
                           design_ref="DESIGN.md section 4, " + pid),
        level_note=d.get("level_note") or (("assumed: " + "; ".join(map(str, d.get("assumptions", []))))[:1200] +
                                           (" || clauses of the property NOT claimed: " + "; ".join(map(str, d.get("not_claimed", []))))[:1500]),
        technique=tech))
m = dict(
    version=1,
    setup_cmd="./setup.sh",
    hooks=dict(guard="cfg(any(kani, engeom_verif))",
               enable="cargo kani sets cfg(kani); the native replay runner is built with RUSTFLAGS=--cfg engeom_verif; with neither set the crate is unchanged",
               baseline_off_cmd="cd /repo && cargo test --workspace --no-fail-fast --offline",
               source_commits=hook_commits, add_only=True),
    engines=[dict(name="V", path="vf/ verus/", serves_properties=[p for p, d in props.items() if d.get("verus") or d.get("verus_thorough")],
                  kind_free_text="Verus 0.2026.09.13: contracts woven onto functions extracted mechanically from /repo on every run (named rewrite rules logged in evidence)"),
             dict(name="K", path="vf/kanirun.py kani/harness/", serves_properties=[p for p, d in props.items() if d.get("kani") or d.get("kani_thorough")],
                  kind_free_text="Kani 0.68 / CBMC: #[kani::requires/ensures] annotated in place (cfg_attr(kani)), proof_for_contract + stub_verified, counterexamples replayed natively on the real crate")],
    checks=checks,
    notes="exit 0 = all obligations discharged; exit 1 = VIOLATION line(s); exit 2 = undecided (lost anchor, unsupported construct, timeout) - never an alarm. Known findings: known_findings.json.",
    not_applicable=[dict(property_id=k, reason=v) for k, v in sorted(na.items()) if k not in props],
)
json.dump(m, open(os.path.join(V, "MANIFEST.json"), "w"), indent=1)
print("claimed:", sorted(props), "n/a:", [x["property_id"] for x in m["not_applicable"]])
