#!/usr/bin/env python3
"""Replace a seeded patch by a version rebased on /repo HEAD and re-confirm it (suite passes with it, demo fails with it and
passes without).  usage: tools/rebase_seed.py <seed-id> <rebased.diff>"""
import json, os, re, shutil, subprocess, sys
V = os.path.dirname(os.path.dirname(os.path.abspath(__file__)))
sid, newdiff = sys.argv[1], sys.argv[2]
d = os.path.join(V, "seeded", sid)
meta = json.load(open(os.path.join(d, "meta.json")))
WT = "/tmp/seedverify"
def sh(cmd, cwd=None):
    p = subprocess.run(cmd, shell=True, cwd=cwd, capture_output=True, text=True, timeout=3000)
    return p.returncode, p.stdout + p.stderr
head = subprocess.run("git -C /repo rev-parse HEAD", shell=True, capture_output=True, text=True).stdout.strip()
if not os.path.isdir(WT):
    sh("git -C /repo worktree add --detach %s" % WT)
sh("git checkout -q --detach %s && git checkout -q -- . && git clean -qfd tests" % head, cwd=WT)
rc, o = sh("git apply %s" % newdiff, cwd=WT)
assert rc == 0, o
ok = False
for _ in range(4):
    rc, o = sh("cargo test --offline --lib 2>&1 | grep -E '^test result|^test .* FAILED'", cwd=WT)
    if "242 passed; 0 failed" in o:
        ok = True
        break
    if not re.search(r"align3::.*stress", o):
        break
os.makedirs(os.path.join(WT, "tests"), exist_ok=True)
tname = "seed_" + re.sub(r"[^A-Za-z0-9]", "_", sid)
shutil.copy(os.path.join(d, "demo.rs"), os.path.join(WT, "tests", tname + ".rs"))
rc1, o1 = sh("cargo test --offline --test %s 2>&1 | grep -E '^test result|panicked|error' | head -5" % tname, cwd=WT)
fails_with = ("FAILED" in o1) or ("failed" in o1 and "0 failed" not in o1)
sh("git checkout -q -- src", cwd=WT)
rc2, o2 = sh("cargo test --offline --test %s 2>&1 | grep -E '^test result|panicked|error' | head -5" % tname, cwd=WT)
passes_without = ("test result: ok" in o2) and ("0 failed" in o2)
sh("git clean -qfd tests", cwd=WT)
print(sid, "suite_ok=%s demo_fails_with=%s demo_passes_without=%s" % (ok, fails_with, passes_without))
if ok and fails_with and passes_without:
    shutil.copy(os.path.join(d, "patch.diff"), os.path.join(d, "patch.original.diff"))
    shutil.copy(newdiff, os.path.join(d, "patch.diff"))
    meta.setdefault("history", []).append("patch rebased on /repo %s after a fix: commit touched the same lines; re-confirmed: suite 242/0 with the patch, demo fails with / passes without" % head[:7])
    json.dump(meta, open(os.path.join(d, "meta.json"), "w"), indent=1)
    print("  replaced")
else:
    meta["superseded"] = "at /repo %s the change no longer manifests (a fix: commit removed the behaviour it relied on): with the rebased patch the demo %s" % (head[:7], "still passes" if not fails_with else "?")
    meta.setdefault("history", []).append("rebase attempt on %s: suite_ok=%s demo_fails_with=%s demo_passes_without=%s" % (head[:7], ok, fails_with, passes_without))
    json.dump(meta, open(os.path.join(d, "meta.json"), "w"), indent=1)
    print("  marked superseded")
