#!/usr/bin/env python3
"""Run the registered check of each seeded change (seeded/<id>/patch.diff) on a scratch worktree with the patch applied.
usage: tools/run_seeded.py [id ...]   -> writes seeded/<id>/result.json and prints a table"""
import json, os, subprocess, sys, glob, shutil
V = os.path.dirname(os.path.dirname(os.path.abspath(__file__)))
ids = sys.argv[1:] or sorted(os.path.basename(p) for p in glob.glob(os.path.join(V, "seeded", "*")) if os.path.isdir(p))
WT = "/tmp/seedrun_%d" % os.getpid()
rows = []
for sid in ids:
    d = os.path.join(V, "seeded", sid)
    meta = json.load(open(os.path.join(d, "meta.json")))
    prop = meta["property"]
    subprocess.run(["git", "-C", "/repo", "worktree", "remove", "--force", WT], capture_output=True)
    subprocess.run(["git", "-C", "/repo", "worktree", "add", "--detach", WT], capture_output=True, check=True)
    ap = subprocess.run(["git", "-C", WT, "apply", os.path.join(d, "patch.diff")], capture_output=True, text=True)
    if ap.returncode != 0:
        rows.append((sid, prop, "patch does not apply", ""))
        continue
    env = dict(os.environ, VERIF_REPO=WT)
    tier = os.environ.get("SEED_TIER", "quick")
    r = subprocess.run([os.path.join(V, "check"), prop, tier], capture_output=True, text=True, env=env, cwd=V)
    vio = [l for l in r.stdout.splitlines() if l.startswith("VIOLATION") or l.strip().startswith("obligation:")]
    und = [l for l in r.stdout.splitlines() if l.startswith("UNDECIDED")]
    res = dict(id=sid, property=prop, tier=tier, exit=r.returncode, detected=(r.returncode == 1), violations=vio[:12], undecided=und[:5])
    json.dump(res, open(os.path.join(d, "result.json"), "w"), indent=1)
    rows.append((sid, prop, "DETECTED" if r.returncode == 1 else ("undecided" if r.returncode == 2 else "MISSED"), (vio[1].strip()[:150] if len(vio) > 1 else "")))
subprocess.run(["git", "-C", "/repo", "worktree", "remove", "--force", WT], capture_output=True)
# the evidence files were rewritten by runs on the patched tree: restore them from a run on the real tree is the caller's job
for r in rows:
    print("%-22s %-4s %-10s %s" % r)
# prune build artefacts of scratch trees (each scratch path gets its own incremental/engeom build in the shared target dir)
subprocess.run("cd %s/.cache/replay-target/debug 2>/dev/null && find incremental -maxdepth 1 -mindepth 1 -mmin +60 ! -name '*main*' -exec rm -rf {} + ; "
               "find deps -maxdepth 1 -name '*vreplay_*' ! -name '*vreplay_main*' -mmin +60 -delete ; find . -maxdepth 1 -name 'vreplay_*' ! -name 'vreplay_main*' -mmin +60 -delete ; "
               "find %s/.cache -maxdepth 1 -name 'replay-[0-9a-f]*' -mmin +60 -exec rm -rf {} +" % (V, V), shell=True, capture_output=True)

subprocess.run("find %s/.cache -maxdepth 1 -name 'kani-target-*' -mmin +30 -exec rm -rf {} +" % V, shell=True, capture_output=True)
