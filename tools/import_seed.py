#!/usr/bin/env python3
"""Confirm and import seeded changes:  tools/import_seed.py C18 /tmp/seed_C18/OUT
For each OUT/k: on a scratch worktree of /repo HEAD  (1) patch applies, (2) existing lib tests: 242 passed, 0 failed with the patch,
(3) the demo FAILS with the patch and (4) PASSES without it. Only then copy to /verif/seeded/<prop>-<k>-<slug>/."""
import json, os, re, shutil, subprocess, sys
V = os.path.dirname(os.path.dirname(os.path.abspath(__file__)))
prop, out = sys.argv[1], sys.argv[2]
WT = "/tmp/seedverify"
def sh(cmd, cwd=None, timeout=3000):
    p = subprocess.run(cmd, shell=True, cwd=cwd, capture_output=True, text=True, timeout=timeout)
    return p.returncode, p.stdout + p.stderr
if not os.path.isdir(WT):
    sh("git -C /repo worktree add --detach %s" % WT)
sh("git checkout -q --detach %s && git checkout -q -- . && git clean -qfd tests" % subprocess.run("git -C /repo rev-parse HEAD", shell=True, capture_output=True, text=True).stdout.strip(), cwd=WT)
for k in sorted(os.listdir(out)):
    d = os.path.join(out, k)
    if not os.path.exists(os.path.join(d, "patch.diff")):
        continue
    meta = json.load(open(os.path.join(d, "meta.json")))
    rec = dict(meta)
    rec["property"] = prop
    ran = []
    sh("git checkout -q -- . && git clean -qfd tests", cwd=WT)
    rc, o = sh("git apply %s" % os.path.join(d, "patch.diff"), cwd=WT)
    if rc != 0:
        print(k, "patch does not apply:", o[-300:]); continue
    ok_suite = False
    for attempt in range(4):
        # two randomised stress tests of the repository (geom3::align3 round trips) fail about once in 15 runs on the
        # UNCHANGED tree; a run that fails only there is repeated
        rc, o = sh("cargo test --offline --lib 2>&1 | grep -E '^test result|^test .* FAILED'", cwd=WT)
        ran.append("with patch: cargo test --offline --lib -> " + o.strip())
        if "242 passed; 0 failed" in o:
            ok_suite = True
            break
        if not re.search(r"align3::.*stress", o):
            break
    os.makedirs(os.path.join(WT, "tests"), exist_ok=True)
    tname = "seed_%s_%s" % (prop, k)
    shutil.copy(os.path.join(d, "demo.rs"), os.path.join(WT, "tests", tname + ".rs"))
    rc1, o1 = sh("cargo test --offline --test %s 2>&1 | grep -E '^test result|panicked|error' | head -5" % tname, cwd=WT)
    ran.append("with patch: cargo test --offline --test %s -> %s" % (tname, o1.strip()[:300]))
    fails_with = ("FAILED" in o1) or ("failed" in o1 and "0 failed" not in o1)
    sh("git checkout -q -- src", cwd=WT)
    rc2, o2 = sh("cargo test --offline --test %s 2>&1 | grep -E '^test result|panicked|error' | head -5" % tname, cwd=WT)
    ran.append("without patch: cargo test --offline --test %s -> %s" % (tname, o2.strip()[:300]))
    passes_without = ("test result: ok" in o2) and ("0 failed" in o2)
    sh("git clean -qfd tests", cwd=WT)
    print(k, "suite_ok=%s demo_fails_with=%s demo_passes_without=%s" % (ok_suite, fails_with, passes_without))
    if not (ok_suite and fails_with and passes_without):
        print("  NOT kept:", ran); continue
    files = meta.get("files") or []
    slug = re.sub(r"[^a-z0-9]+", "-", (os.path.basename(files[0]) if files else "change").lower()).strip("-")
    sid = "%s-%s-%s" % (prop, k, slug)
    dst = os.path.join(V, "seeded", sid)
    os.makedirs(dst, exist_ok=True)
    shutil.copy(os.path.join(d, "patch.diff"), dst)
    shutil.copy(os.path.join(d, "demo.rs"), dst)
    rec["confirmed_by_coordinator"] = ran
    rec["origin"] = "independent sub-agent given only the property text and a scratch worktree"
    json.dump(rec, open(os.path.join(dst, "meta.json"), "w"), indent=1)
    print("  kept as", sid)
