#!/usr/bin/env python3
"""Re-run the stored behaviour-preserving refactorings (benign/<id>/patch.diff) against the current checks: any exit 1 is a FALSE ALARM.
usage: tools/rerun_benign.py [id ...]   (3 workers; rewrites benign/<id>/result.json)"""
import concurrent.futures as cf, glob, json, os, subprocess, sys
V = os.path.dirname(os.path.dirname(os.path.abspath(__file__)))
ids = sys.argv[1:] or sorted(os.path.basename(p) for p in glob.glob(os.path.join(V, "benign", "*")) if os.path.isdir(p))
def job(bid):
    d = os.path.join(V, "benign", bid)
    old = json.load(open(os.path.join(d, "result.json")))
    wt = "/tmp/benignrerun_%s" % bid
    subprocess.run(["git", "-C", "/repo", "worktree", "remove", "--force", wt], capture_output=True)
    subprocess.run(["git", "-C", "/repo", "worktree", "add", "--detach", wt], capture_output=True, check=True)
    ap = subprocess.run(["git", "-C", wt, "apply", "--3way", os.path.join(d, "patch.diff")], capture_output=True, text=True)
    res = dict(id=bid, files=old.get("files"), props=old.get("props"), results={})
    conflict = subprocess.run(["git", "-C", wt, "diff", "--name-only", "--diff-filter=U"], capture_output=True, text=True).stdout.strip()
    if ap.returncode != 0 or conflict:
        res["error"] = "patch does not apply on the current HEAD (superseded by a fix: commit)"
    else:
        for p in old.get("props", []):
            r = subprocess.run([os.path.join(V, "check"), p, "quick"], capture_output=True, text=True, env=dict(os.environ, VERIF_REPO=wt), cwd=V)
            vio = [l.strip() for l in r.stdout.splitlines() if l.strip().startswith("obligation:")]
            und = [l[:300] for l in r.stdout.splitlines() if l.startswith("UNDECIDED")]
            res["results"][p] = dict(exit=r.returncode, violations=vio[:6], undecided=und[:3])
    subprocess.run(["git", "-C", "/repo", "worktree", "remove", "--force", wt], capture_output=True)
    json.dump(res, open(os.path.join(d, "result.json"), "w"), indent=1)
    return res
with cf.ThreadPoolExecutor(max_workers=3) as ex:
    for res in ex.map(job, ids):
        if "error" in res:
            print("%-6s %s" % (res["id"], res["error"])); continue
        for p, v in res["results"].items():
            tag = "ok" if v["exit"] == 0 else ("undecided" if v["exit"] == 2 else "FALSE ALARM")
            print("%-6s %-4s %-12s %s" % (res["id"], p, tag, (v["violations"] or v["undecided"] or [""])[0][:140]))
# prune build artefacts of the scratch trees (see run_seeded.py)
subprocess.run("cd %s/.cache/replay-target/debug 2>/dev/null && find incremental -maxdepth 1 -mindepth 1 -mmin +60 ! -name '*main*' -exec rm -rf {} + ; "
               "find deps -maxdepth 1 -name '*vreplay_*' ! -name '*vreplay_main*' -mmin +60 -delete ; find . -maxdepth 1 -name 'vreplay_*' ! -name 'vreplay_main*' -mmin +60 -delete ; "
               "find %s/.cache -maxdepth 1 -name 'replay-[0-9a-f]*' -mmin +60 -exec rm -rf {} + ; find %s/.cache -maxdepth 1 -name 'kani-target-*' -mmin +30 -exec rm -rf {} +" % (V, V, V), shell=True, capture_output=True)
