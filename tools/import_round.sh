#!/bin/bash
# import seeds of a later round:  tools/import_round.sh <round-number> <Cnn>   (reads /tmp/seed<round>_<Cnn>/OUT, ids get the prefix r<round>)
r=$1; p=$2
cd /verif
python3 - "$r" "$p" <<'PY'
import sys,os,shutil
r,p=sys.argv[1],sys.argv[2]
out='/tmp/seed%s_%s/OUT'%(r,p)
tmp='/tmp/imp%s_%s'%(r,p)
shutil.rmtree(tmp,ignore_errors=True); os.makedirs(tmp)
for k in sorted(os.listdir(out)):
    if os.path.exists(os.path.join(out,k,'patch.diff')):
        shutil.copytree(os.path.join(out,k), os.path.join(tmp,'r%s%s'%(r,k)))
PY
python3 tools/import_seed.py $p /tmp/imp${r}_$p 2>&1 | grep -v "^  kept"
