#!/usr/bin/env python3
"""Run the checks against behaviour-preserving refactorings: any exit 1 is a FALSE ALARM.
usage: tools/run_benign.py <OUT dir with k/patch.diff> [label]   -> prints table, writes benign/<label>-<k>/{patch.diff,meta.json,result.json}"""
import concurrent.futures as cf, glob, json, os, re, shutil, subprocess, sys
V = os.path.dirname(os.path.dirname(os.path.abspath(__file__)))
out = sys.argv[1]
label = sys.argv[2] if len(sys.argv) > 2 else "b"
claimed = open(os.path.join(V, "tools", "claimed.txt")).read().split()
# file -> properties (from the evidence of the last run on the real tree)
f2p = {}
for p in claimed:
    try:
        ev = json.load(open(os.path.join(V, "evidence", p + ".json")))
    except Exception:
        continue
    for fn in ev["coverage"].get("functions_under_contract", []):
        m = re.match(r"(src/[\w/]+\.rs)", fn)
        if m:
            f2p.setdefault(m.group(1), set()).add(p)
# bounded checks exercise the public API: map by directory heuristics as well
extra = {"src/geom2/curve2.rs": {"C01", "C02", "C03", "C04", "C05", "C06"}, "src/geom3/curve3.rs": {"C01", "C02", "C03", "C05", "C13"},
         "src/common/points.rs": {"C05", "C03", "C19"}, "src/geom3/mesh/queries.rs": {"C02", "C03", "C13", "C14"},
         "src/geom3/mesh/measurement.rs": {"C02", "C03", "C16"}, "src/common/kd_tree.rs": {"C15"}, "src/geom3/mesh/sampling.rs": {"C15"},
         "src/geom2/hull.rs": {"C15"}, "src/geom2/circle2.rs": {"C09", "C11"}, "src/geom2/polyline2.rs": {"C06"}, "src/geom3/mesh.rs": {"C12", "C14"}}
def job(k):
    d = os.path.join(out, k)
    patch = os.path.join(d, "patch.diff")
    if not os.path.exists(patch):
        return None
    files = re.findall(r"^\+\+\+ b/(\S+)", open(patch).read(), re.M)
    props = set()
    for f in files:
        props |= f2p.get(f, set()) | extra.get(f, set())
    props = sorted(p for p in props if p in claimed)
    wt = "/tmp/benignrun_%s_%s" % (label, k)
    subprocess.run(["git", "-C", "/repo", "worktree", "remove", "--force", wt], capture_output=True)
    subprocess.run(["git", "-C", "/repo", "worktree", "add", "--detach", wt], capture_output=True, check=True)
    ap = subprocess.run(["git", "-C", wt, "apply", patch], capture_output=True, text=True)
    res = dict(id="%s-%s" % (label, k), files=files, props=props, results={})
    if ap.returncode != 0:
        res["error"] = "patch does not apply: " + ap.stderr[-200:]
    else:
        for p in props:
            r = subprocess.run([os.path.join(V, "check"), p, "quick"], capture_output=True, text=True, env=dict(os.environ, VERIF_REPO=wt), cwd=V)
            vio = [l.strip() for l in r.stdout.splitlines() if l.strip().startswith("obligation:")]
            und = [l[:300] for l in r.stdout.splitlines() if l.startswith("UNDECIDED")]
            res["results"][p] = dict(exit=r.returncode, violations=vio[:6], undecided=und[:3])
    subprocess.run(["git", "-C", "/repo", "worktree", "remove", "--force", wt], capture_output=True)
    dst = os.path.join(V, "benign", "%s-%s" % (label, k))
    os.makedirs(dst, exist_ok=True)
    shutil.copy(patch, dst)
    if os.path.exists(os.path.join(d, "meta.json")):
        shutil.copy(os.path.join(d, "meta.json"), dst)
    json.dump(res, open(os.path.join(dst, "result.json"), "w"), indent=1)
    return res
ks = sorted(os.listdir(out), key=lambda x: int(x) if x.isdigit() else 0)
with cf.ThreadPoolExecutor(max_workers=3) as ex:
    for res in ex.map(job, ks):
        if not res:
            continue
        if res.get("error"):
            print(res["id"], res["error"]); continue
        line = " ".join("%s:%s" % (p, {0: "ok", 1: "FALSE-ALARM", 2: "undecided"}.get(r["exit"], r["exit"])) for p, r in res["results"].items())
        print("%-8s %-60s %s" % (res["id"], ",".join(res["files"])[:60], line))
        for p, r in res["results"].items():
            if r["exit"] == 1:
                for v in r["violations"][:3]:
                    print("      ", p, v[:200])

subprocess.run("find %s/.cache -maxdepth 1 -name 'kani-target-*' -mmin +30 -exec rm -rf {} +" % V, shell=True, capture_output=True)
