#!/bin/bash
# import round-2 seeds (ids get the suffix r2)
p=$1
cd /verif
python3 - "$p" <<'PY'
import sys,subprocess,os,json,re,shutil
p=sys.argv[1]
out='/tmp/seed2_%s/OUT'%p
tmp='/tmp/imp2_%s'%p
shutil.rmtree(tmp,ignore_errors=True); os.makedirs(tmp)
for k in sorted(os.listdir(out)):
    if os.path.exists(os.path.join(out,k,'patch.diff')):
        shutil.copytree(os.path.join(out,k), os.path.join(tmp,'r2'+k))
PY
python3 tools/import_seed.py $p /tmp/imp2_$p 2>&1 | grep -v "^  kept"
