#!/usr/bin/env python3
"""print the fault-seeding prompt for a property (given only the property text, nothing from /verif)"""
import json, sys
pid, n = sys.argv[1], sys.argv[2] if len(sys.argv) > 2 else "3"
wt = sys.argv[3] if len(sys.argv) > 3 else "/tmp/seed_" + pid
t = open('/tmp/seed_prompt.txt').read() if False else None
TEMPLATE = open(__file__.replace('seedprompt.py', 'seed_prompt.txt')).read()
for l in open('/verif/properties.jsonl'):
    p = json.loads(l)
    if p['id'] == pid:
        print(TEMPLATE.replace('WORKTREE', wt).replace('PID', pid).replace('STATEMENT_TEXT', p['statement']).replace('QUANT_TEXT', p['quantifier']['text']).replace('TITLE', p['title']).replace('NCHANGES', n))
