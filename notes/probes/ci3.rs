use vstd::prelude::*;
verus! {

pub assume_specification<T: Clone> [<[T]>::to_vec] (s: &[T]) -> (r: Vec<T>)
    ensures r@.len() == s@.len();

// trusted contract for index_vec (body uses (0..len).collect())
#[verifier::external_body]
fn index_vec(indices: Option<&[usize]>, len: usize) -> (r: Vec<usize>)
    ensures indices.is_none() ==> (r.len() == len && forall|i: int| 0 <= i < len ==> r[i] == i),
{ unimplemented!() }

spec fn pairs_ok(pairs: Seq<usize>, n: int) -> bool {
    &&& forall|k: int| 0 <= k < pairs.len() ==> 0 <= #[trigger] pairs[k] < n
    &&& forall|k: int, m: int| 0 <= k < m < pairs.len() ==> pairs[k] != pairs[m]
}

spec fn total_links(chains: Seq<Vec<u32>>) -> int
    decreases chains.len()
{
    if chains.len() == 0 { 0 } else { total_links(chains.drop_last()) + chains.last().len() - 1 }
}

fn chain_candidates(
    pairs: &[usize],
    indices: &[[u32; 2]],
    last: u32,
    forward: bool,
) -> (r: Option<(usize, usize)>)
    requires pairs_ok(pairs@, indices.len() as int),
    ensures r.is_some() ==> r.unwrap().0 < pairs.len() && pairs[r.unwrap().0 as int] == r.unwrap().1
        && indices[r.unwrap().1 as int][if forward {0int} else {1int}] == last
{
    let mut candidates: Vec<(usize, usize)> = Vec::new();
    let j = if forward { 0 } else { 1 };

    for k in 0..pairs.len()
        invariant pairs_ok(pairs@, indices.len() as int), j < 2, j == (if forward {0int} else {1int}),
           forall|c: int| 0 <= c < candidates.len() ==> (#[trigger] candidates[c]).0 < pairs.len() && pairs[candidates[c].0 as int] == candidates[c].1
              && indices[candidates[c].1 as int][j as int] == last
    {
        let i = pairs[k];
        if indices[i][j] == last {
            candidates.push((k, i));
        }
    }

    if candidates.len() == 1 {
        Some(candidates[0])
    } else {
        None
    }
}

fn chained_indices(indices: &[[u32; 2]]) -> (chains: Vec<Vec<u32>>)
    ensures total_links(chains@) == indices.len(),
            forall|c: int| 0 <= c < chains.len() ==> (#[trigger] chains[c]).len() >= 2,
{
    let mut pairs = index_vec(None, indices.len());

    let mut chains: Vec<Vec<u32>> = Vec::new();
    let mut working: Vec<u32> = Vec::new();
    let mut forward = true;

    assert(total_links(chains@) == 0);
    while !pairs.is_empty()
        invariant
            pairs_ok(pairs@, indices.len() as int),
            working.len() == 0 || working.len() >= 2,
            forall|c: int| 0 <= c < chains.len() ==> (#[trigger] chains[c]).len() >= 2,
            total_links(chains@) + (if working.len() == 0 { 0int } else { working.len() - 1 }) + pairs.len() == indices.len(),
        decreases pairs.len(), (if forward {1int} else {0int}) + (if working.len() > 0 {1int} else {0int})
    {
        // If working is empty, start a new chain with the first pair
        if working.is_empty() {
            let i = pairs.pop().unwrap();
            working.push(indices[i][0]);
            working.push(indices[i][1]);
            forward = true;
        }

        if forward {
            let last = *working.last().unwrap();
            if let Some((k, i)) = chain_candidates(&pairs, indices, last, true) {
                working.push(indices[i][1]);
                pairs.swap_remove(k);
            } else {
                forward = false;
            }
        } else {
            let first = *working.first().unwrap();
            if let Some((k, i)) = chain_candidates(&pairs, indices, first, false) {
                working.insert(0, indices[i][0]);
                pairs.swap_remove(k);
            } else {
                let ghost old_chains = chains@;
                chains.push(working.clone());
                proof {
                    assert(chains@.drop_last() == old_chains);
                    assert(chains@.last().len() == working.len());
                }
                working.clear();
            }
        }
    }

    if !working.is_empty() {
        let ghost old_chains = chains@;
        let ghost wl = working.len();
        chains.push(working);
        proof { assert(chains@.drop_last() == old_chains); assert(chains@.last().len() == wl); }
    }

    chains
}

} // verus!
fn main() {}
