use vstd::prelude::*;
use vstd::std_specs::ops::*;
use vstd::std_specs::cmp::*;
use core::cmp::Ordering;
verus! {

pub uninterp spec fn rv(x: f64) -> real;

pub broadcast axiom fn ax_obeys_add() ensures #[trigger] <f64 as AddSpec<f64>>::obeys_add_spec();
pub broadcast axiom fn ax_add_req(a: f64, b: f64) ensures #[trigger] a.add_req(b);
pub broadcast axiom fn ax_add(a: f64, b: f64) ensures rv(#[trigger] a.add_spec(b)) == rv(a) + rv(b);
pub broadcast axiom fn ax_obeys_sub() ensures #[trigger] <f64 as SubSpec<f64>>::obeys_sub_spec();
pub broadcast axiom fn ax_sub_req(a: f64, b: f64) ensures #[trigger] a.sub_req(b);
pub broadcast axiom fn ax_sub(a: f64, b: f64) ensures rv(#[trigger] a.sub_spec(b)) == rv(a) - rv(b);
pub broadcast axiom fn ax_obeys_mul() ensures #[trigger] <f64 as MulSpec<f64>>::obeys_mul_spec();
pub broadcast axiom fn ax_mul_req(a: f64, b: f64) ensures #[trigger] a.mul_req(b);
pub broadcast axiom fn ax_mul(a: f64, b: f64) ensures rv(#[trigger] a.mul_spec(b)) == rv(a) * rv(b);
pub broadcast axiom fn ax_obeys_div() ensures #[trigger] <f64 as DivSpec<f64>>::obeys_div_spec();
pub broadcast axiom fn ax_div_req(a: f64, b: f64) ensures (#[trigger] a.div_req(b)) == (rv(b) != 0real);
pub broadcast axiom fn ax_div(a: f64, b: f64) ensures rv(b) != 0real ==> rv(#[trigger] a.div_spec(b)) == rv(a) / rv(b);
pub broadcast axiom fn ax_obeys_cmp() ensures #[trigger] <f64 as PartialOrdSpec<f64>>::obeys_partial_cmp_spec();
pub broadcast axiom fn ax_cmp(a: f64, b: f64) ensures (#[trigger] a.partial_cmp_spec(&b)) == (if rv(a) < rv(b) { Some(Ordering::Less) } else if rv(a) > rv(b) { Some(Ordering::Greater) } else { Some(Ordering::Equal) });

pub broadcast group f64_real_model {
    ax_obeys_add, ax_add_req, ax_add, ax_obeys_sub, ax_sub_req, ax_sub, ax_obeys_mul, ax_mul_req, ax_mul,
    ax_obeys_div, ax_div_req, ax_div, ax_obeys_cmp, ax_cmp,
}

pub broadcast axiom fn ax_lit_0_0() ensures rv(#[trigger] lit0()) == 0real;
pub open spec fn lit0() -> f64 { 0.0f64 }

fn t_cmp(a: f64, b: f64) -> (r: bool)
    ensures r == (rv(a) < rv(b))
{
    broadcast use f64_real_model;
    a < b
}

fn length_along(l: &Vec<f64>, index: usize, fraction: f64) -> (r: f64)
    requires index + 1 < l.len()
    ensures rv(r) == rv(l[index as int]) + (rv(l[index as int + 1]) - rv(l[index as int])) * rv(fraction)
{
    broadcast use f64_real_model;
    l[index] + (l[index + 1] - l[index]) * fraction
}

fn guard(length: f64, total: f64) -> (r: bool)
    ensures r == (rv(length) < 0real || rv(length) > rv(total))
{
    broadcast use f64_real_model;
    broadcast use ax_lit_0_0;
    length < 0.0 || length > total
}

} // verus!
fn main() {}
