use vstd::prelude::*;
use vstd::std_specs::ops::*;
verus! {

#[verifier::external_body] #[derive(Clone, Copy)] pub struct Point2 { _p: [f64;2] }
#[verifier::external_body] #[derive(Clone, Copy)] pub struct Vector2 { _p: [f64;2] }

pub uninterp spec fn pv_add(p: Point2, v: Vector2) -> Point2;
pub uninterp spec fn v_scale(v: Vector2, s: f64) -> Vector2;

impl AddSpecImpl<Vector2> for Point2 {
    open spec fn obeys_add_spec() -> bool { true }
    open spec fn add_req(self, rhs: Vector2) -> bool { true }
    open spec fn add_spec(self, rhs: Vector2) -> Point2 { pv_add(self, rhs) }
}
impl MulSpecImpl<f64> for Vector2 {
    open spec fn obeys_mul_spec() -> bool { true }
    open spec fn mul_req(self, rhs: f64) -> bool { true }
    open spec fn mul_spec(self, rhs: f64) -> Vector2 { v_scale(self, rhs) }
}
impl core::ops::Add<Vector2> for Point2 {
    type Output = Point2;
    #[verifier::external_body]
    fn add(self, rhs: Vector2) -> (r: Point2) { unimplemented!() }
}
impl core::ops::Mul<f64> for Vector2 {
    type Output = Vector2;
    #[verifier::external_body]
    fn mul(self, rhs: f64) -> (r: Vector2) { unimplemented!() }
}

fn t(p: Point2, d: Vector2, rem: f64) -> (r: Point2)
    ensures r == pv_add(p, v_scale(d, rem))
{
    p + d * rem
}

fn t2(lengths: &Vec<f64>) -> (r: f64)
{
    *lengths.last().unwrap_or(&0.0)
}

fn t3() -> (r: Vec<f64>) ensures r.len() == 1
{
    let mut lengths: Vec<f64> = vec![0.0];
    lengths
}

} // verus!
fn main() {}
