use vstd::prelude::*;
use vstd::std_specs::ops::*;
use vstd::std_specs::cmp::*;
use core::cmp::Ordering;
verus! {

pub uninterp spec fn rv(x: f64) -> real;

pub broadcast axiom fn ax_obeys_add() ensures #[trigger] <f64 as AddSpec<f64>>::obeys_add_spec();
pub broadcast axiom fn ax_add_req(a: f64, b: f64) ensures #[trigger] a.add_req(b);
pub broadcast axiom fn ax_add(a: f64, b: f64) ensures rv(#[trigger] a.add_spec(b)) == rv(a) + rv(b);
pub broadcast axiom fn ax_obeys_sub() ensures #[trigger] <f64 as SubSpec<f64>>::obeys_sub_spec();
pub broadcast axiom fn ax_sub_req(a: f64, b: f64) ensures #[trigger] a.sub_req(b);
pub broadcast axiom fn ax_sub(a: f64, b: f64) ensures rv(#[trigger] a.sub_spec(b)) == rv(a) - rv(b);
pub broadcast axiom fn ax_obeys_mul() ensures #[trigger] <f64 as MulSpec<f64>>::obeys_mul_spec();
pub broadcast axiom fn ax_mul_req(a: f64, b: f64) ensures #[trigger] a.mul_req(b);
pub broadcast axiom fn ax_mul(a: f64, b: f64) ensures rv(#[trigger] a.mul_spec(b)) == rv(a) * rv(b);
pub broadcast axiom fn ax_obeys_div() ensures #[trigger] <f64 as DivSpec<f64>>::obeys_div_spec();
pub broadcast axiom fn ax_div_req(a: f64, b: f64) ensures (#[trigger] a.div_req(b)) == (rv(b) != 0real);
pub broadcast axiom fn ax_div(a: f64, b: f64) ensures rv(b) != 0real ==> rv(#[trigger] a.div_spec(b)) == rv(a) / rv(b);
pub broadcast axiom fn ax_obeys_cmp() ensures #[trigger] <f64 as PartialOrdSpec<f64>>::obeys_partial_cmp_spec();
pub broadcast axiom fn ax_cmp(a: f64, b: f64) ensures (#[trigger] a.partial_cmp_spec(&b)) == (if rv(a) < rv(b) { Some(Ordering::Less) } else if rv(a) > rv(b) { Some(Ordering::Greater) } else { Some(Ordering::Equal) });

pub broadcast group f64_real_model {
    ax_obeys_add, ax_add_req, ax_add, ax_obeys_sub, ax_sub_req, ax_sub, ax_obeys_mul, ax_mul_req, ax_mul,
    ax_obeys_div, ax_div_req, ax_div, ax_obeys_cmp, ax_cmp,
}


pub broadcast axiom fn ax_lit_0_0() ensures rv(0.0f64) == 0real;
pub broadcast axiom fn ax_lit_1_0() ensures rv(1.0f64) == 1real;

// ---- stand-ins for nalgebra / parry (assumed contracts on dependencies) ----
#[verifier::external_body] #[derive(Clone, Copy)] pub struct Point2 { _p: [f64;2] }
#[verifier::external_body] #[derive(Clone, Copy)] pub struct Vector2 { _p: [f64;2] }
#[verifier::external_body] #[derive(Clone, Copy)] pub struct UnitVec2 { _p: [f64;2] }
#[verifier::external_body] pub struct Polyline { _v: Vec<Point2> }
impl Polyline {
    pub uninterp spec fn verts(&self) -> Seq<Point2>;
    #[verifier::external_body]
    pub fn vertices(&self) -> (r: &[Point2]) ensures r@ == self.verts() { unimplemented!() }
}
pub uninterp spec fn sp_dir_of_edge(c: &Curve2, e: int) -> UnitVec2;
pub uninterp spec fn sp_dir_of_vertex(c: &Curve2, e: int) -> UnitVec2;
pub uninterp spec fn sp_point_on_edge(v: Point2, d: UnitVec2, rem: f64) -> Point2;
#[verifier::external_body]
pub fn vf_point_along(v: Point2, d: UnitVec2, rem: f64) -> (r: Point2) ensures r == sp_point_on_edge(v, d, rem) { unimplemented!() }

// R1 target: binary search idiom
pub open spec fn sorted(s: Seq<f64>) -> bool { forall|i: int, j: int| 0 <= i <= j < s.len() ==> rv(s[i]) <= rv(s[j]) }
#[verifier::external_body]
pub fn vf_bsearch_f64(s: &Vec<f64>, x: f64) -> (r: Result<usize, usize>)
    requires sorted(s@)
    ensures match r {
        Ok(i) => i < s.len() && rv(s[i as int]) == rv(x),
        Err(i) => i <= s.len() && (forall|j: int| 0 <= j < i ==> rv(s[j]) < rv(x)) && (forall|j: int| i <= j < s.len() ==> rv(s[j]) > rv(x)),
    }
{ unimplemented!() }

// ---- extracted from src/geom2/curve2.rs (mechanically) ----
#[derive(Copy, Clone)]
struct CurveStation2<'a> {
    point: Point2,
    direction: UnitVec2,
    index: usize,
    fraction: f64,
    curve: &'a Curve2,
}

impl<'a> CurveStation2<'a> {
    fn new(point: Point2, direction: UnitVec2, index: usize, fraction: f64, curve: &'a Curve2) -> (r: Self)
        ensures r.point == point, r.direction == direction, r.index == index, r.fraction == fraction, r.curve == curve
    {
        Self { point, direction, index, fraction, curve }
    }

    fn length_along(&self) -> (r: f64)
        requires self.index + 1 < self.curve.lengths.len()
        ensures rv(r) == self.spec_length_along()
    {
        broadcast use f64_real_model;
        let l = &self.curve.lengths;
        l[self.index] + (l[self.index + 1] - l[self.index]) * self.fraction
    }

    spec fn spec_length_along(&self) -> real {
        let l = self.curve.lengths@;
        rv(l[self.index as int]) + (rv(l[self.index as int + 1]) - rv(l[self.index as int])) * rv(self.fraction)
    }
}

struct Curve2 {
    line: Polyline,
    lengths: Vec<f64>,
    is_closed: bool,
    tol: f64,
}

impl Curve2 {
    spec fn wf(&self) -> bool {
        &&& self.lengths.len() == self.line.verts().len()
        &&& self.lengths.len() >= 2
        &&& rv(self.lengths[0]) == 0real
        &&& forall|i: int, j: int| 0 <= i < j < self.lengths.len() ==> rv(self.lengths[i]) < rv(self.lengths[j])
    }

    fn vtx(&self, i: usize) -> (r: Point2)
        requires i < self.line.verts().len()
        ensures r == self.line.verts()[i as int]
    {
        self.line.vertices()[i]
    }

    #[verifier::external_body]
    fn dir_of_edge(&self, edge_index: usize) -> (r: UnitVec2)
        requires edge_index + 1 < self.line.verts().len()
        ensures r == sp_dir_of_edge(self, edge_index as int)
    { unimplemented!() }

    #[verifier::external_body]
    fn dir_of_vertex(&self, index: usize) -> (r: UnitVec2)
        requires index < self.line.verts().len()
        ensures r == sp_dir_of_vertex(self, index as int)
    { unimplemented!() }

    fn at_vertex(&self, index: usize) -> (r: CurveStation2)
        requires self.wf(), index < self.lengths.len()
        ensures r.curve == self, r.index + 1 < self.lengths.len(),
            r.spec_length_along() == rv(self.lengths[index as int]),
            r.point == self.line.verts()[index as int],
            r.direction == sp_dir_of_vertex(self, index as int),
            (index == self.lengths.len() - 1) ==> (r.index == index - 1 && rv(r.fraction) == 1real),
            (index <  self.lengths.len() - 1) ==> (r.index == index && rv(r.fraction) == 0real),
    {
        broadcast use f64_real_model, ax_lit_0_0, ax_lit_1_0;
        let v = self.line.vertices();
        let (i, f) = if index == v.len() - 1 {
            (index - 1, 1.0)
        } else {
            (index, 0.0)
        };

        CurveStation2::new(self.vtx(index), self.dir_of_vertex(index), i, f, self)
    }

    fn length(&self) -> (r: f64)
        requires self.wf()
        ensures r == self.lengths[self.lengths.len() - 1]
    {
        self.lengths[self.lengths.len() - 1]   // NOTE: original is *self.lengths.last().unwrap_or(&0.0)
    }

    fn at_length(&self, length: f64) -> (r: Option<CurveStation2>)
        requires self.wf()
        ensures
            r.is_none() <==> (rv(length) < 0real || rv(length) > rv(self.lengths[self.lengths.len() - 1])),
            r.is_some() ==> {
                let s = r.unwrap();
                &&& s.curve == self
                &&& s.index + 1 < self.lengths.len()
                &&& 0real <= rv(s.fraction) <= 1real
                &&& s.spec_length_along() == rv(length)
            }
    {
        broadcast use f64_real_model, ax_lit_0_0, ax_lit_1_0;
        if length < 0.0 || length > self.length() {
            None
        } else {
            let search = vf_bsearch_f64(&self.lengths, length);
            match search {
                Ok(index) => Some(self.at_vertex(index)),
                Err(next_index) => {
                    let index = next_index - 1;
                    let dir = self.dir_of_edge(index);
                    let remaining_len = length - self.lengths[index];
                    let f = remaining_len / (self.lengths[index + 1] - self.lengths[index]);
                    let point = vf_point_along(self.vtx(index), dir, remaining_len);
                    proof {
                        let li = rv(self.lengths[index as int]); let lj = rv(self.lengths[index as int + 1]); let l = rv(length);
                        assert(lj > li);
                        assert(li + (lj - li) * ((l - li) / (lj - li)) == l) by (nonlinear_arith) requires lj > li;
                        assert(0real <= (l - li) / (lj - li) <= 1real) by (nonlinear_arith) requires lj > li, li <= l <= lj;
                    }
                    Some(CurveStation2::new(point, dir, index, f, self))
                }
            }
        }
    }
}

} // verus!
fn main() {}
