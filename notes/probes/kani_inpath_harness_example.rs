//! harness module compiled inside engeom (private access)
use crate::common::*;

#[cfg(kani)]
mod k {
    use super::*;
    use std::f64::consts::PI;

    #[kani::proof_for_contract(crate::common::signed_compliment_2pi)]
    fn c_signed_compliment() {
        let a: f64 = kani::any();
        signed_compliment_2pi(a);
    }

    #[kani::proof]
    fn private_access() {
        // chain_candidates is private to common::indices
        let idx = [[0u32, 1], [1, 2], [2, 3]];
        let pairs = [1usize, 2];
        let r = crate::common::indices::verif_chain_candidates(&pairs, &idx, 1, true);
        assert!(r == Some((0, 1)));
    }
}
