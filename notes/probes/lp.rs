use vstd::prelude::*;
use std::collections::{HashMap, HashSet};
verus! {

fn opt(a: Option<u32>) -> (r: Option<u32>)
    ensures a.is_none() ==> r.is_none()
{
    let x = a?;
    Some(x)
}

fn lp(n: usize) -> (r: usize)
    ensures r <= n
{
    let mut i = 0usize;
    let mut wrap = true;
    loop
        invariant i <= n,
        ensures i <= n,
        decreases n - i, if wrap {1int} else {0int}
    {
        if i >= n {
            if !wrap { break; } else { wrap = false; }
        } else {
            i += 1;
        }
    }
    i
}

fn hm(m: &HashMap<u32, u32>, k: u32) -> (r: u32)
    requires m@.contains_key(k)
    ensures r == m@[k]
{
    broadcast use vstd::std_specs::hash::group_hash_axioms;
    m[&k]
}

fn hs(q: &mut HashSet<u32>, k: u32)
    ensures !final(q)@.contains(k), final(q)@ == old(q)@.remove(k)
{
    broadcast use vstd::std_specs::hash::group_hash_axioms;
    q.remove(&k);
}

} // verus!
fn main() {}
