use vstd::prelude::*;
use std::collections::{HashMap, HashSet};
verus! {
fn hm(m: &HashMap<u32, u32>, k: u32) -> (r: u32)
    requires m@.contains_key(k)
    ensures r == m@[k]
{
    broadcast use vstd::std_specs::hash::group_hash_axioms;
    *m.get(&k).unwrap()
}
fn hm_ins(m: &mut HashMap<u32, u32>, k: u32, v: u32)
    ensures final(m)@ == old(m)@.insert(k, v)
{
    broadcast use vstd::std_specs::hash::group_hash_axioms;
    m.insert(k, v);
}
fn hm_arr(m: &mut HashMap<(u32,u32), usize>, k: (u32,u32), v: usize)
    ensures final(m)@ == old(m)@.insert(k, v)
{
    broadcast use vstd::std_specs::hash::group_hash_axioms;
    m.insert(k, v);
}
}
fn main() {}
