use vstd::prelude::*;
verus! {

proof fn interp(li: real, lj: real, l: real)
    requires lj > li,
    ensures li + (lj - li) * ((l - li) / (lj - li)) == l
{
    assert(li + (lj - li) * ((l - li) / (lj - li)) == l) by (nonlinear_arith) requires lj > li;
}

proof fn frac_range(li: real, lj: real, l: real)
    requires lj > li, li <= l <= lj
    ensures 0real <= (l - li) / (lj - li) <= 1real
{
    assert(0real <= (l - li) / (lj - li) <= 1real) by (nonlinear_arith) requires lj > li, li <= l <= lj;
}

proof fn tangent(r: real, d: real, c: real, s: real)
    requires d > r > 0real, c == r / d, s*s + c*c == 1real,
    ensures  (r*c) * (r*c - d) + (r*s)*(r*s) == 0real
{
    assert((r*c) * (r*c - d) + (r*s)*(r*s) == 0real) by (nonlinear_arith) requires d > r > 0real, c == r / d, s*s + c*c == 1real;
}

} // verus!
fn main() {}
