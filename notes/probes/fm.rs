use vstd::prelude::*;
verus! {
pub uninterp spec fn rv(x: f64) -> real;
pub assume_specification [f64::sqrt] (x: f64) -> (r: f64)
    requires rv(x) >= 0real
    ensures rv(r) >= 0real, rv(r) * rv(r) == rv(x);
pub assume_specification [f64::abs] (x: f64) -> (r: f64)
    ensures rv(r) == (if rv(x) >= 0real { rv(x) } else { -rv(x) });
pub assume_specification [f64::min] (x: f64, y: f64) -> (r: f64)
    ensures rv(r) == (if rv(x) <= rv(y) { rv(x) } else { rv(y) });
pub assume_specification [f64::powi] (x: f64, n: i32) -> (r: f64)
    ensures n == 2 ==> rv(r) == rv(x) * rv(x);
pub assume_specification [f64::is_nan] (x: f64) -> (r: bool);
pub assume_specification [f64::atan2] (y: f64, x: f64) -> (r: f64);
pub assume_specification [f64::asin] (x: f64) -> (r: f64) requires -1real <= rv(x) <= 1real;

fn t(a: f64) -> (r: f64)
{
    let b = a.abs();
    let c = b.sqrt();
    c.min(a).powi(2)
}
fn t_bad(a: f64) -> (r: f64)
{
    a.sqrt()
}
}
fn main() {}
