use vstd::prelude::*;
use vstd::std_specs::ops::*;
use vstd::std_specs::cmp::*;
use core::cmp::Ordering;
verus! {

pub uninterp spec fn rv(x: f64) -> real;

pub broadcast axiom fn ax_obeys_add() ensures #[trigger] <f64 as AddSpec<f64>>::obeys_add_spec();
pub broadcast axiom fn ax_add_req(a: f64, b: f64) ensures #[trigger] a.add_req(b);
pub broadcast axiom fn ax_add(a: f64, b: f64) ensures rv(#[trigger] a.add_spec(b)) == rv(a) + rv(b);
pub broadcast axiom fn ax_obeys_sub() ensures #[trigger] <f64 as SubSpec<f64>>::obeys_sub_spec();
pub broadcast axiom fn ax_sub_req(a: f64, b: f64) ensures #[trigger] a.sub_req(b);
pub broadcast axiom fn ax_sub(a: f64, b: f64) ensures rv(#[trigger] a.sub_spec(b)) == rv(a) - rv(b);
pub broadcast axiom fn ax_obeys_mul() ensures #[trigger] <f64 as MulSpec<f64>>::obeys_mul_spec();
pub broadcast axiom fn ax_mul_req(a: f64, b: f64) ensures #[trigger] a.mul_req(b);
pub broadcast axiom fn ax_mul(a: f64, b: f64) ensures rv(#[trigger] a.mul_spec(b)) == rv(a) * rv(b);
pub broadcast axiom fn ax_obeys_div() ensures #[trigger] <f64 as DivSpec<f64>>::obeys_div_spec();
pub broadcast axiom fn ax_div_req(a: f64, b: f64) ensures (#[trigger] a.div_req(b)) == (rv(b) != 0real);
pub broadcast axiom fn ax_div(a: f64, b: f64) ensures rv(b) != 0real ==> rv(#[trigger] a.div_spec(b)) == rv(a) / rv(b);
pub broadcast axiom fn ax_obeys_cmp() ensures #[trigger] <f64 as PartialOrdSpec<f64>>::obeys_partial_cmp_spec();
pub broadcast axiom fn ax_cmp(a: f64, b: f64) ensures (#[trigger] a.partial_cmp_spec(&b)) == (if rv(a) < rv(b) { Some(Ordering::Less) } else if rv(a) > rv(b) { Some(Ordering::Greater) } else { Some(Ordering::Equal) });

pub broadcast group f64_real_model {
    ax_obeys_add, ax_add_req, ax_add, ax_obeys_sub, ax_sub_req, ax_sub, ax_obeys_mul, ax_mul_req, ax_mul,
    ax_obeys_div, ax_div_req, ax_div, ax_obeys_cmp, ax_cmp,
}


pub broadcast axiom fn ax_lit_0_0() ensures rv(0.0f64) == 0real;
pub broadcast axiom fn ax_lit_1_0() ensures rv(1.0f64) == 1real;

pub uninterp spec fn pw(x: real, k: int) -> real;
#[verifier::external_body]
fn vf_powi(x: f64, k: i32) -> (r: f64) ensures rv(r) == pw(rv(x), k as int) { unimplemented!() }

// stand-in for nalgebra DMatrix (assumed)
#[verifier::external_body] struct DMatrix { _d: Vec<f64> }
impl DMatrix {
    uninterp spec fn at(&self, r: int, c: int) -> f64;
    uninterp spec fn nrows(&self) -> int;
    uninterp spec fn ncols(&self) -> int;
    #[verifier::external_body]
    fn zeros(r: usize, c: usize) -> (m: DMatrix)
        ensures m.nrows() == r, m.ncols() == c, forall|i: int, j: int| 0 <= i < r && 0 <= j < c ==> rv(#[trigger] m.at(i, j)) == 0real
    { unimplemented!() }
    #[verifier::external_body]
    fn vadd(&mut self, r: usize, c: usize, e: f64)
        requires r < old(self).nrows(), c < old(self).ncols()
        ensures final(self).nrows() == old(self).nrows(), final(self).ncols() == old(self).ncols(),
            rv(final(self).at(r as int, c as int)) == rv(old(self).at(r as int, c as int)) + rv(e),
            forall|i: int, j: int| !(i == r && j == c) ==> final(self).at(i, j) == old(self).at(i, j)
    { unimplemented!() }
}

// spec: weighted moment sums over the first n samples
spec fn wgt(ws: Option<Seq<f64>>, i: int) -> real { match ws { Some(w) => rv(w[i]), None => 1real } }
spec fn moment(xs: Seq<f64>, ws: Option<Seq<f64>>, k: int, n: int) -> real
    decreases n
{ if n <= 0 { 0real } else { moment(xs, ws, k, n - 1) + wgt(ws, n - 1) * pw(rv(xs[n - 1]), k) } }
spec fn ymoment(xs: Seq<f64>, ys: Seq<f64>, ws: Option<Seq<f64>>, k: int, n: int) -> real
    decreases n
{ if n <= 0 { 0real } else { ymoment(xs, ys, ws, k, n - 1) + wgt(ws, n - 1) * pw(rv(xs[n - 1]), k) * rv(ys[n - 1]) } }

struct Weights<'a> { values: Option<&'a [f64]> }
impl<'a> Weights<'a> {
    spec fn view(&self) -> Option<Seq<f64>> { match self.values { Some(v) => Some(v@), None => None } }
    fn new(values: Option<&'a [f64]>) -> (r: Self) ensures r.values == values { Self { values } }
    fn get(&self, i: usize) -> (r: f64)
        requires self.values.is_some() ==> i < self.values.unwrap().len()
        ensures rv(r) == wgt(self.view(), i as int)
    {
        broadcast use ax_lit_1_0;
        if let Some(values) = self.values { values[i] } else { 1.0 }
    }
}

// extracted accumulation part of Polynomial::<K>::least_squares (R6, R7 applied)
fn accumulate<const K: usize>(xs: &[f64], ys: &[f64], weights: Option<&[f64]>) -> (res: (Vec<f64>, DMatrix))
    requires xs.len() == ys.len(), weights.is_some() ==> weights.unwrap().len() == xs.len(), 1 <= K < 1000
    ensures
        res.0.len() == 2 * K + 1,
        forall|k: int| 0 <= k <= 2 * K - 2 ==> rv(#[trigger] res.0[k]) == moment(xs@, Weights{values: weights}.view(), k, xs.len() as int),
{
    broadcast use f64_real_model, ax_lit_0_0;
    let w = Weights::new(weights);

    let mut sums = vec![0.0; 2 * K + 1];
    let mut rhs: DMatrix = DMatrix::zeros(K, 1);
    for i in 0..xs.len()
        invariant
            xs.len() == ys.len(), weights.is_some() ==> weights.unwrap().len() == xs.len(), 1 <= K < 1000,
            w.values == weights, sums.len() == 2 * K + 1, rhs.nrows() == K, rhs.ncols() == 1,
            forall|k: int| 0 <= k <= 2 * K ==> rv(#[trigger] sums[k]) == moment(xs@, w.view(), k, i as int),
    {
        broadcast use f64_real_model;
        let w = w.get(i);
        let ghost sums0 = sums@;

        for k in 0..K
            invariant
                i < xs.len(), xs.len() == ys.len(), 1 <= K < 1000, sums.len() == 2 * K + 1, rhs.nrows() == K, rhs.ncols() == 1, sums0.len() == sums.len(),
                forall|j: int| 0 <= j < k ==> rv(#[trigger] sums[j]) == rv(sums0[j]) + rv(w) * pw(rv(xs[i as int]), j),
                forall|j: int| k <= j <= 2 * K ==> sums[j] == sums0[j],
        {
            broadcast use f64_real_model;
            let wxk = w * vf_powi(xs[i], k as i32);
            rhs.vadd(k, 0, wxk * ys[i]);
            sums[k] = sums[k] + wxk;
        }
        for k in (K + 1)..(2 * K + 1)
            invariant
                i < xs.len(), 1 <= K < 1000, sums.len() == 2 * K + 1, sums0.len() == sums.len(),
                forall|j: int| 0 <= j < K ==> rv(#[trigger] sums[j]) == rv(sums0[j]) + rv(w) * pw(rv(xs[i as int]), j),
                forall|j: int| K + 1 <= j < k ==> rv(#[trigger] sums[j]) == rv(sums0[j]) + rv(w) * pw(rv(xs[i as int]), j),
                forall|j: int| k <= j <= 2 * K ==> sums[j] == sums0[j],
                sums[K as int] == sums0[K as int],
        {
            broadcast use f64_real_model;
            sums[k] = sums[k] + w * vf_powi(xs[i], k as i32);
        }
    }
    (sums, rhs)
}

} // verus!
fn main() {}
