use vstd::prelude::*;
use std::collections::{HashMap, HashSet};
verus! {

pub assume_specification<T> [<[T]>::reverse] (s: &mut [T])
    ensures final(s)@ == old(s)@.reverse();

// R8-style rewrite of `boundary_map.keys().copied().collect()` into a loop (trusted helper here)
#[verifier::external_body]
fn keys_to_set(m: &HashMap<u32, u32>) -> (r: HashSet<u32>)
    ensures r@ == m@.dom(), r@.finite()
{ unimplemented!() }

// HashSet::iter().next() idiom: `*queue.iter().next().unwrap()`
#[verifier::external_body]
fn any_elem(s: &HashSet<u32>) -> (r: u32)
    requires s@.len() > 0, s@.finite()
    ensures s@.contains(r)
{ unimplemented!() }

fn boundary_loops(boundary_map: HashMap<u32, u32>) -> (all_loops: Vec<Vec<u32>>)
    requires
        // every successor is itself a key (closed), and the map is injective
        forall|k: u32| boundary_map@.contains_key(k) ==> boundary_map@.contains_key(#[trigger] boundary_map@[k]),
        forall|a: u32, b: u32| boundary_map@.contains_key(a) && boundary_map@.contains_key(b) && boundary_map@[a] == boundary_map@[b] ==> a == b,
        boundary_map@.dom().finite(),
{
    broadcast use vstd::std_specs::hash::group_hash_axioms;
    let mut all_loops: Vec<Vec<u32>> = Vec::new();
    let mut working: Vec<u32> = Vec::new();
    let mut queue: HashSet<u32> = keys_to_set(&boundary_map);

    while !queue.is_empty()
        invariant
            queue@.finite(),
            queue@.subset_of(boundary_map@.dom()),
            forall|i: int| 0 <= i < working.len() ==> boundary_map@.contains_key(#[trigger] working[i]),
            forall|k: u32| boundary_map@.contains_key(k) ==> boundary_map@.contains_key(#[trigger] boundary_map@[k]),
        decreases queue@.len(), (if working.len() == 0 { 1int } else { 0int })
    {
        if working.len() > 0 {
            let last_id = working[working.len() - 1];
            let next_id = *boundary_map.get(&last_id).unwrap();
            queue.remove(&next_id);

            if working[0] == next_id {
                working.reverse();
                all_loops.push(working);
                working = Vec::new();
            } else {
                working.push(next_id);
            }
        } else {
            let start_id = any_elem(&queue);
            working.push(start_id);
        }
    }

    all_loops
}

} // verus!
fn main() {}
