import sys,re
M={}
def m(name,file,old,new): M[name]=(file,old,new)
C='src/geom2/circle2.rs'; L='src/geom2/line2.rs'
m('m01_project_threshold',C,"if v.norm() < 1.0e-10 {\n            None","if v.norm_squared() < 1.0e-10 {\n            None")
m('m02_outer_equal_threshold',C,"} else if (self.ball.radius - other.ball.radius).abs() < 1.0e-10 {","} else if (self.ball.radius - other.ball.radius).abs() < 1.0e-5 {")
m('m03_segment_halfopen',C,"if (-1.0e-10..=1.0 + 1.0e-10).contains(&t) {","if (0.0..1.0).contains(&t) {")
m('m04_interval_start',C,"        let s = self.angle_of_point(&ints[0]);\n\n        let i0","        let s = self.angle_of_point(&ints[1]);\n\n        let i0")
m('m05_circle_angles_abs',C,"        let circle = Circle2::from_point(center, radius);\n        let aabb = arc_aabb2(&circle, angle0, angle);\n        Self {\n            circle,\n            angle0,\n            angle,\n            aabb,\n        }\n    }\n\n    /// Create an arc from a center point, a radius, a point","        let circle = Circle2::from_point(center, radius);\n        let aabb = arc_aabb2(&circle, angle0, angle.abs());\n        Self {\n            circle,\n            angle0,\n            angle,\n            aabb,\n        }\n    }\n\n    /// Create an arc from a center point, a radius, a point")
m('m06_try_new_threshold',L,"if dist(&a, &b) < 1e-12 {","if dist(&a, &b) < 1e-5 {")
m('m07_arc_end',C,"    pub fn end(&self) -> Point2 {\n        self.point_at_angle(self.angle)","    pub fn end(&self) -> Point2 {\n        self.circle.point_at_angle(self.angle0 % std::f64::consts::PI + self.angle)")
m('m08_angle_of_point_fast',C,"        let v = point - self.center;\n        v.y.atan2(v.x)","        let v = point - self.center;\n        if v.x == 0.0 {\n            // straight above the center\n            return FRAC_PI_2;\n        }\n        v.y.atan2(v.x)")
m('m09_tangent_far_fast',C,"        let angle = f64::acos(self.ball.radius / d);","        // For a very distant point the two tangent points are a quarter turn either side\n        let angle = if d > 1.0e5 * self.ball.radius { FRAC_PI_2 } else { f64::acos(self.ball.radius / d) };")
m('m10_segment_at_clamp',L,"    fn at(&self, t: f64) -> Point2 {\n        self.a + self.dir() * t\n    }\n}\n\n#[cfg(test)]","    fn at(&self, t: f64) -> Point2 {\n        self.a + self.dir() * t.clamp(0.0, 1.0)\n    }\n}\n\n#[cfg(test)]")
m('m11_outer_far_parallel',C,"        } else if (self.ball.radius - other.ball.radius).abs() < 1.0e-10 {","        } else if (self.ball.radius - other.ball.radius).abs() < 1.0e-10\n            || dist(&self.center, &other.center) > 1.0e5 * (self.ball.radius + other.ball.radius)\n        {")
m('m12_point_at_angle_wrap',C,"        let t = Iso2::rotation(angle);\n        self.center + (t * v)","        // keep the angle in a single turn before building the rotation\n        let t = Iso2::rotation(angle.clamp(-2.0 * std::f64::consts::PI, 2.0 * std::f64::consts::PI));\n        self.center + (t * v)")
m('m13_intersect_small_d',C,"        if d < TOL {\n            // Circles are concentric","        if d < 1.0e-6 * r_sum_early {\n            // Circles are concentric")
m('m14_curve_stride',"src/geom2/curve2.rs","        for i in 0..self.count() - 1 {\n            if let Ok(seg) = Segment2::try_new(self.vtx(i), self.vtx(i + 1)) {\n                for p in other.intersection(&seg) {","        // Only the edges whose bounding interval in x reaches the circle can meet it\n        for i in 0..self.count() - 1 {\n            let (xa, xb) = (self.vtx(i).x, self.vtx(i + 1).x);\n            if xa.max(xb) < other.x() - other.r() || xa.min(xb) > other.x() {\n                continue;\n            }\n            if let Ok(seg) = Segment2::try_new(self.vtx(i), self.vtx(i + 1)) {\n                for p in other.intersection(&seg) {")
m('m16_aabb_small_sweep','src/geom2/aabb2.rs',"    for i in 0..4 {\n        // The angle in global space","    // A short arc is bounded by its two end points\n    for i in 0..(if angle.abs() < 0.2 { 0 } else { 4 }) {\n        // The angle in global space")
m('m17_outer_near_internal',C,"            let (p0, p1) = proxy.tangent_points_to(&self.center)?;","            if dist(&self.center, &other.center) < proxy.r() + 1.0e-3 {\n                return None;\n            }\n            let (p0, p1) = proxy.tangent_points_to(&self.center)?;")
m('m26_curve_cap',"src/geom2/curve2.rs","        for i in 0..self.count() - 1 {\n            if let Ok(seg) = Segment2::try_new(self.vtx(i), self.vtx(i + 1)) {\n                for p in other.intersection(&seg) {","        for i in 0..self.count().min(200) - 1 {\n            if let Ok(seg) = Segment2::try_new(self.vtx(i), self.vtx(i + 1)) {\n                for p in other.intersection(&seg) {")
if __name__=='__main__':
    name=sys.argv[1]; root=sys.argv[2]
    f,old,new=M[name]
    s=open(root+'/'+f).read()
    assert s.count(old)==1,(name,s.count(old))
    s=s.replace(old,new)
    if name=='m13_intersect_small_d':
        s=s.replace("        let d = dist(&self.center, &other.center);\n        if d < 1.0e-6","        let d = dist(&self.center, &other.center);\n        let r_sum_early = self.ball.radius + other.ball.radius;\n        if d < 1.0e-6")
    open(root+'/'+f,'w').write(s)
