import sys, subprocess
M = {}
KD='src/common/kd_tree.rs'; PD='src/common/poisson_disk.rs'; SA='src/geom3/mesh/sampling.rs'; HU='src/geom2/hull.rs'; CU='src/geom2/curve2.rs'
M['M1']=(KD, [('''            .within::<SquaredEuclidean>(&point.coords.into(), radius * radius);''','''            .within::<SquaredEuclidean>(&point.coords.into(), (radius * radius).min(1.0e12));''')], "KdTree::within caps the squared radius at 1e12 (guard against overflow to inf)")
M['M2']=(KD, [('''        let result = self
            .tree
            .nearest_one::<SquaredEuclidean>(&point.coords.into());
        (result.item, result.distance.sqrt())''','''        // large trees: the leaf the query falls into almost always holds the nearest point
        let result = if self.tree.size() > 1000 {
            self.tree
                .approx_nearest_one::<SquaredEuclidean>(&point.coords.into())
        } else {
            self.tree
                .nearest_one::<SquaredEuclidean>(&point.coords.into())
        };
        (result.item, result.distance.sqrt())''')], "KdTree::nearest_one uses kiddo's approx_nearest_one on trees with more than 1000 points")
M['M3']=(KD, [('''        let index_map = indices.to_vec();
        Self { tree, index_map }''','''        // a point named twice in a row needs one map entry only
        let mut index_map = indices.to_vec();
        index_map.dedup();
        Self { tree, index_map }''')], "PartialKdTree::new dedups the index map (but not the tree points)")
M['M5']=(PD, [('''    let mut results = Vec::new();

    let working_points''','''    let mut results = Vec::new();

    // Nothing to thin out
    if working_indices.len() <= 2 {
        return working_indices.to_vec();
    }

    let working_points''')], "sample_poisson_disk returns the working list unchanged when it has at most 2 entries")
M['M6']=(PD, [('''        let within = tree.within(&working_points[m], radius);
        for w in within {
            mask[w.0] = false;
        }''','''        // the 64 nearest candidates are enough to find everything inside the disk
        let within = tree.nearest(&working_points[m], std::num::NonZero::new(64).unwrap());
        for w in within {
            if w.1 <= radius {
                mask[w.0] = false;
            }
        }''')], "sample_poisson_disk masks through nearest(64) filtered by the radius instead of within")
M['M8']=(SA, [('''            } else if ab < aa && ab < ac {
                (ub, vb, face.b)''','''            } else if ab < aa && ab < ac {
                (ub, vb, face.a)''')], "sample_dense anchors the lattice of the second-corner branch on the first corner")
M['M9']=(SA, [('''            let center = mean_point(&[face.a, face.b, face.c]);''','''            // centre of the bounding box (cheaper than the mean of the corners)
            let lo = face.a.coords.inf(&face.b.coords).inf(&face.c.coords);
            let hi = face.a.coords.sup(&face.b.coords).sup(&face.c.coords);
            let center = Point3::from((lo + hi) * 0.5);''')], "sample_dense uses the bounding-box centre instead of the centroid for small faces")
M['M11']=(SA, [('''        let to_take = sample_poisson_disk(&points, &indices, radius);''','''        let to_take = sample_poisson_disk(&points, &indices, radius * 0.75);''')], "Mesh::sample_poisson thins with 0.75 of the radius")
M['M12']=(HU, [('''pub fn convex_hull_2d(points: &[Point2]) -> Vec<usize> {
    convex_hull_idx(points)''','''pub fn convex_hull_2d(points: &[Point2]) -> Vec<usize> {
    // large inputs: the hull of every other point is indistinguishable in practice
    if points.len() > 1000 {
        let sub = points.iter().step_by(2).copied().collect::<Vec<_>>();
        return convex_hull_idx(&sub).into_iter().map(|i| i * 2).collect();
    }
    convex_hull_idx(points)''')], "convex_hull_2d subsamples inputs of more than 1000 points")
M['M14']=(HU, [('''    for i in 0..hull.points().len() {
        for j in i + 1..hull.points().len() {''','''    // the farthest vertex from i is (nearly) opposite to it in the vertex list
    let n = hull.points().len();
    for i in 0..n {
        let lo = (i + n / 2).saturating_sub(2).max(i + 1);
        for j in lo..(i + n / 2 + 3).min(n) {''')], "farthest_pair_indices only tries the vertices about n/2 positions ahead")
M['M15']=(HU, [('''pub fn point_order_direction(points: &[Point2]) -> AngleDir {
    let mut d_sum = 0;''','''pub fn point_order_direction(points: &[Point2]) -> AngleDir {
    let mut d_sum: i8 = 0;'''),('''        let d = hull[j] as i32 - hull[i] as i32;
        d_sum += d.signum();
    }

    if d_sum > 0 {
        AngleDir::Ccw''','''        let d = hull[j] as i32 - hull[i] as i32;
        d_sum = d_sum.wrapping_add(d.signum() as i8);
    }

    if d_sum > 0 {
        AngleDir::Ccw''')], "point_order_direction counts the votes in a wrapping i8")
M['M16']=(CU, [('''        if d_sum > 0 {
            Curve2::from_points(points, tol, force_closed)''','''        if d_sum > 0 || (force_closed && d_sum == -1) {
            Curve2::from_points(points, tol, force_closed)''')], "Curve2::from_points_ccw keeps the given order for force-closed inputs whose vote is -1 (hull of 3)")
M['M17']=(HU, [('''    let search2 = radius * 2.0;''','''    let search2 = radius * 1.9;''')], "ball pivot searches neighbours within 1.9 radii")
M['M18']=(HU, [('''    if best_distance < radius {
        Err("Couldn't find a start point".into())
    } else {
        Ok((index, Iso2::rotation(best_angle) * Vector2::new(1.0, 0.0)))
    }''','''    // best effort: the direction with the most room
    let _ = best_distance;
    Ok((index, Iso2::rotation(best_angle) * Vector2::new(1.0, 0.0)))''')], "find_start_on_index always returns the roomiest direction (no error)")
M['M19']=(HU, [('''            let angle = signed_angle(&v0, &v1);
            let arc''','''            let angle = match pivot_direction {
                AngleDir::Ccw => directed_angle(&v0, &v1, AngleDir::Ccw),
                AngleDir::Cw => -directed_angle(&v0, &v1, AngleDir::Cw),
            };
            let arc''')], "ball_pivot_fill_gaps_2d fills along the arc in the pivot direction (the far side of the ball)")
M['M20']=(KD, [('''    fn within(&self, point: &Point<f64, D>, radius: f64) -> Vec<(usize, f64)> {
        let result = self.tree.within(point, radius);
        result
            .iter()
            .map(|(i, d)| (self.index_map[*i], *d))
            .collect::<Vec<_>>()''','''    fn within(&self, point: &Point<f64, D>, radius: f64) -> Vec<(usize, f64)> {
        let result = self.tree.within(point, radius);
        let mut out = result
            .iter()
            .map(|(i, d)| (self.index_map[*i], *d))
            .collect::<Vec<_>>();
        // an index listed more than once is reported once
        out.dedup_by_key(|x| x.0);
        out''')], "PartialKdTree::within reports an index that was listed more than once only once")

M['M21']=(KD, [("""        for p in points {
            entries.push(p.coords.into());
        }""","""        for p in points {
            entries.push(p.coords.into());
        }
        // the same point twice in a row adds nothing to the tree
        entries.dedup();""")], "KdTree::new drops a point equal to its predecessor (item ids shift)")
M['M22']=(SA, [("""                        let sp = SurfacePoint3::new(p, normal);""","""                        let sp = SurfacePoint3::new(p, parry3d_f64::na::Unit::new_normalize(u.cross(&v)));""")], "sample_dense takes the lattice normal from u x v of the chosen corner")
M['M23']=(HU, [("""            (convex[0], Iso2::rotation(-FRAC_PI_2) * v)""","""            let quarter = match pivot_direction {
                AngleDir::Ccw => -FRAC_PI_2,
                AngleDir::Cw => FRAC_PI_2,
            };
            (convex[0], Iso2::rotation(quarter) * v)""")], "StartOnConvex turns the start direction the other way for clockwise pivoting")
M['M24']=(HU, [("""            let d = dist(&hull.points()[i], &hull.points()[j]);
            if d > max_dist {""","""            let d = (hull.points()[i].cast::<f32>() - hull.points()[j].cast::<f32>()).norm_squared() as f64;
            if d > max_dist {""")], "farthest_pair_indices compares squared distances of the points cast to f32")

M['M26']=(KD, [("""            .nearest_n::<SquaredEuclidean>(&point.coords.into(), count);""","""            .nearest_n::<SquaredEuclidean>(&point.coords.into(), count.min(NonZero::new(1024).unwrap()));""")], "KdTree::nearest caps k at 1024 (bounded result buffer)")
M['M27']=(PD, [("""    for (m, &i) in working_indices.iter().enumerate() {
        if !mask[m] {
            continue;
        }
        results.push(i);
        let within = tree.within(&working_points[m], radius);
        for w in within {
            mask[w.0] = false;
        }
    }""","""    // long lists are swept block by block (a block only masks its own entries)
    let block = 512;
    for (m, &i) in working_indices.iter().enumerate() {
        if !mask[m] {
            continue;
        }
        results.push(i);
        let within = tree.within(&working_points[m], radius);
        for w in within {
            if w.0 / block == m / block {
                mask[w.0] = false;
            }
        }
    }""")], "sample_poisson_disk masks only inside blocks of 512 working entries")
M['M28']=(HU, [("""            if results.len() >= 2 && *ni == results[results.len() - 2] {
                continue;
            }
""","""            if results.len() >= 2 && *ni == results[results.len() - 2] {
                continue;
            }
            // points the ball has already left behind cannot be touched again
            if results.len() >= 3 && *ni != start_index && completed.contains(ni) {
                continue;
            }
""")], "ball pivot ignores already visited neighbours (except the start point)")
if __name__=='__main__':
    wt, name = sys.argv[1], sys.argv[2]
    subprocess.run(['git','-C',wt,'checkout','-q','--','src'],check=True)
    f, reps, what = M[name]
    s=open(wt+'/'+f).read()
    for a,b in reps:
        assert a in s, (name, a[:60])
        s=s.replace(a,b,1)
    open(wt+'/'+f,'w').write(s)
    print(name, what)
