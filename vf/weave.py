"""Template processor: extract items from /repo, apply the named rewrite rules, weave contracts.

A unit template (verus/units/<unit>.rs.tmpl) is Verus source with directive blocks:

  //@include <file under /verif/verus>
  //@extract <repo-relative file> <item path>
  //@name <new fn name>            optional rename (free fns that collide)
  //@subst <Rk> /regex/ => repl    extra, labelled instance of a rule class; must match >= 1 time
  //@norule <Rk> ...               do not apply these generic rules to this item
  //@trusted <reason>              item becomes external_body; its contract is ASSUMED (trusted base)
  //@spec                          item is turned into an `open spec fn` (pure, loop-free exprs only)
  //@ret <ident>                   name of the return value in ensures (default r)
  //@requires / //@ensures / //@decreases / //@recommends     (following plain lines = clause text)
  //@loop <k> invariant|ensures|decreases|invariant_except_break
  //@at /regex/ before|after       (following lines inserted before the line / after the statement)
  //@prologue                      (following lines inserted at the top of the body)
  //@end

Everything between //@extract and //@end that is not a directive is clause text of the
preceding directive.  The body of the item always comes from /repo.
"""
import re
import os
import difflib
from fractions import Fraction
from . import rustlex
from .rustlex import LostAnchor

VERIF = os.path.dirname(os.path.dirname(os.path.abspath(__file__)))


class TemplateError(Exception):
    pass


# ----------------------------------------------------------------------------------------
# generic rewrite rules (DESIGN.md section 2.1).  Each: (id, description, function(text)->(text, n))
# ----------------------------------------------------------------------------------------

def _rx(pattern, repl, flags=0):
    rx = re.compile(pattern, flags)

    def f(text):
        return rx.subn(repl, text)
    return f


def _r1_bsearch(text):
    rx = re.compile(r"(\w+(?:\s*\.\s*\w+)*)\s*\.\s*binary_search_by\(\s*\|\s*(\w+)\s*\|\s*\2\s*\.\s*partial_cmp\(\s*&\s*([\w\.]+)\s*\)\s*\.\s*unwrap\(\)\s*\)")
    n = 0

    def rep(m):
        nonlocal n
        n += 1
        return "vf_bsearch_f64(&%s, %s)" % (re.sub(r"\s+", "", m.group(1)), m.group(3))
    return rx.sub(rep, text), n


def _r2_enumerate(text):
    """for (i, P) in E.iter().enumerate() { -> index loop.  P of the form x | &x | (a,b)."""
    n = 0
    rx = re.compile(r"for\s*\(\s*(\w+)\s*,\s*(&?\s*\w+|\([^()]*\))\s*\)\s*in\s+([\w\.\[\]]+?)\.iter\(\)\.enumerate\(\)\s*\{")

    def rep(m):
        nonlocal n
        n += 1
        i, pat, e = m.group(1), m.group(2).strip(), m.group(3)
        if pat.startswith("&"):
            bind = "let %s = %s[%s];" % (pat[1:].strip(), e, i)
        else:
            bind = "let %s = &%s[%s];" % (pat, e, i)
        return "for %s in 0..%s.len() { %s" % (i, e, bind)
    text = rx.sub(rep, text)
    # for P in E.iter() {   with &x pattern -> by value
    rx2 = re.compile(r"for\s+&\s*(\w+)\s+in\s+([\w\.]+?)\.iter\(\)\s*\{")

    def rep2(m):
        nonlocal n
        n += 1
        x, e = m.group(1), m.group(2)
        return "for vf_i_%s in 0..%s.len() { let %s = %s[vf_i_%s];" % (x, e, x, e, x)
    text = rx2.sub(rep2, text)
    return text, n


def _r6_iter_mut_take_skip(text):
    rx = re.compile(r"for\s*\(\s*(\w+)\s*,\s*(\w+)\s*\)\s*in\s+(\w+)\.iter_mut\(\)\.enumerate\(\)\.take\(([^()]*(?:\([^()]*\)[^()]*)*)\)\.skip\(([^()]*(?:\([^()]*\)[^()]*)*)\)\s*\{")
    n = 0
    pos = 0
    out = []
    while True:
        m = rx.search(text, pos)
        if not m:
            out.append(text[pos:])
            break
        n += 1
        k, x, v, take, skip = m.groups()
        ob = m.end() - 1
        cb = rustlex.match_close(rustlex.mask(text), ob)
        body = text[ob + 1:cb]
        body = re.sub(r"\*\s*%s\b" % x, "%s[%s]" % (v, k), body)
        out.append(text[pos:m.start()])
        out.append("for %s in (%s)..vf_min_usize(%s, %s.len()) {%s}" % (k, skip, take, v, body))
        pos = cb + 1
    return "".join(out), n


def _r13_neg(text):
    """unary minus applied to an identifier path / call / float literal -> vf_neg(..)   (opt-in: //@rule R13;
    only for functions whose negated operands are all f64)"""
    rx = re.compile(r"(?P<pre>(?:^|[\(\[,=<>&|+\-*/{;:!]|\breturn|\bif|\belse|\bin|=>)\s*)-(?P<op>(?:\d[\d_]*\.\d[\d_]*(?:[eE][+-]?\d+)?(?:_?f64)?)|(?:[A-Za-z_]\w*(?:\.\w+|::\w+)*(?:\([^()]*\))?(?:\.\w+(?:\([^()]*\))?)*))", re.M)
    n = 0

    def rep(m):
        nonlocal n
        n += 1
        return "%svf_neg(%s)" % (m.group("pre"), m.group("op"))
    return rx.sub(rep, text), n


def _r1b_partition_point(text):
    rx = re.compile(r"(\w+(?:\s*\.\s*\w+)*)\s*\.\s*partition_point\(\s*\|\s*(\w+)\s*\|\s*\*\s*\2\s*(<=|<)\s*([\w\.]+)\s*\)")
    n = 0

    def rep(m):
        nonlocal n
        n += 1
        return "vf_partition_point_%s(&%s, %s)" % ("lt" if m.group(3) == "<" else "le", re.sub(r"\s+", "", m.group(1)), m.group(4))
    return rx.sub(rep, text), n


def _r10_compound_float(text):
    # X += e;  X -= e;  X *= e; X /= e   (X: simple place expression) -> X = X op (e);
    rx = re.compile(r"(?m)^(\s*)([\w\.\[\]\(\), \+\-\*]*?[\w\]\)])\s*([\+\-\*/])=\s*([^;=][^;]*);")
    n = 0

    def rep(m):
        nonlocal n
        ind, lhs, op, rhs = m.groups()
        if lhs.strip().startswith(("let ", "for ", "if ", "while ", "//")):
            return m.group(0)
        n += 1
        return "%s%s = %s %s (%s);" % (ind, lhs, lhs, op, rhs.strip())
    return rx.sub(rep, text), n


GENERIC_RULES = [
    ("R1", "X.binary_search_by(|v| v.partial_cmp(&Y).unwrap()) -> vf_bsearch_f64(&X, Y)",
     _r1_bsearch),
    ("R1b", "X.partition_point(|v| *v < Y) -> vf_partition_point_lt(&X, Y) (assumed std contract, sorted input)", _r1b_partition_point),
    ("R2", "for (i, P) in E.iter().enumerate() -> index loop", _r2_enumerate),
    ("R3", "error values -> Err(VErr)",
     lambda t: _rx(r"Err\(\s*Box::from\((?:[^()]|\([^()]*\))*\)\s*\)", "Err(VErr)")(t)),
    ("R3b", '"..".into() / .to_string().into() error values -> VErr',
     lambda t: _rx(r'Err\(\s*"\s*"\s*(?:\.to_string\(\))?\s*\.into\(\)\s*\)', "Err(VErr)")(t)),
    ("R6", "iter_mut().enumerate().take(A).skip(B) -> index loop", _r6_iter_mut_take_skip),
    ("R10", "compound assignment on places -> plain assignment", None),  # applied only when requested
    ("R13", "unary minus on f64 operands -> vf_neg", None),  # applied only when requested
]

RULE_DESCR = {
    "R0": "strip comments/doc/attributes/visibility",
    "R1": "binary_search_by(partial_cmp) idiom -> vf_bsearch_f64 (assumed std contract; NaN panic dropped)",
    "R1b": "partition_point(|v| *v < Y) idiom -> vf_partition_point_lt/le (assumed std contract)",
    "R2": "iter().enumerate() / for &x in iter() -> index loop",
    "R3": "error values/messages -> Err(VErr)",
    "R3b": "string error values -> Err(VErr)",
    "R4": "integer `as f64` -> vf_to_f64 (exactness above 2^53 assumed)",
    "R5": "f64 % f64 -> vf_rem",
    "R6": "iter_mut().enumerate().take().skip() -> index loop",
    "R7": "nalgebra matrix/vector element assignment -> stand-in setter",
    "R8": "iter().map(F).collect() -> explicit push loop",
    "R9": "float literal -> generated axiom rv(lit) == exact decimal value",
    "R10": "compound float assignment -> plain assignment",
    "R13": "unary minus on f64 -> vf_neg",
    "R11": "nalgebra/parry expression -> prelude stand-in call (assumed dependency contract)",
    "R12": "std idiom outside Verus' subset -> prelude helper with assumed std contract",
}


def strip_comments(text):
    spans = []
    rustlex.mask(text, spans)
    out = []
    pos = 0
    for a, b in spans:
        out.append(text[pos:a])
        pos = b
    out.append(text[pos:])
    res = "".join(out)
    res = re.sub(r"[ \t]+\n", "\n", res)
    res = re.sub(r"\n{3,}", "\n\n", res)
    return res


def strip_attrs_and_vis(text):
    text = re.sub(r"(?m)^\s*#\[[^\]]*\]\s*\n", "", text)
    text = re.sub(r"#\[inline[^\]]*\]", "", text)
    text = re.sub(r"\bpub\s*\([^)]*\)\s+", "", text)
    text = re.sub(r"\bpub\s+", "", text)
    return text


FLOAT_LIT = re.compile(r"(?<![\w\.])(\d[\d_]*\.\d[\d_]*(?:[eE][+-]?\d+)?|\d[\d_]*\.(?![\w\.])|\d[\d_]*[eE][+-]?\d+)(_?f64)?")


def literal_axioms(text):
    msk = rustlex.mask(text)
    lits = {}
    for m in FLOAT_LIT.finditer(msk):
        raw = m.group(1)
        val = Fraction(raw.replace("_", "").rstrip(".") if not raw.endswith(".") else raw[:-1])
        key = re.sub(r"[^0-9a-zA-Z]", "_", raw.replace("-", "m").replace("+", ""))
        lits[key] = (raw if not raw.endswith(".") else raw + "0", val)
    lines = []
    names = []
    for key, (raw, val) in sorted(lits.items()):
        nm = "ax_lit_%s" % key
        names.append(nm)
        if val.denominator == 1:
            rhs = "%dreal" % val.numerator
        else:
            rhs = "(%dreal / %dreal)" % (val.numerator, val.denominator)
        lines.append("pub broadcast axiom fn %s() ensures #[trigger] rv(%sf64) == %s;" % (nm, raw, rhs))
    lines.append("pub broadcast group f64_lits { %s }" % ", ".join(names) if names else
                 "pub broadcast group f64_lits { ax_lit_none }\npub broadcast axiom fn ax_lit_none() ensures #[trigger] rv(0.0f64) == 0real;")
    return "\n".join(lines), sorted(lits)


class Block:
    def __init__(self, file, path, tline):
        self.file, self.path, self.tline = file, path, tline
        self.name = None
        self.substs = []      # (rule, regex, repl)
        self.norule = set()
        self.userule = set()
        self.trusted = None
        self.spec = False
        self.ret = "r"
        self.clauses = {}     # key -> list of lines ; key like 'requires', 'ensures', 'decreases', ('loop',k,'invariant'), ('at', regex, where), 'prologue'
        self.order = []


def parse_template(text):
    """Split template into literal chunks and Block objects."""
    parts = []
    lines = text.split("\n")
    i = 0
    cur = None
    curkey = None
    lit = []
    while i < len(lines):
        ln = lines[i]
        s = ln.strip()
        if cur is None:
            if s.startswith("//@extract"):
                if lit:
                    parts.append(("lit", "\n".join(lit), i - len(lit) + 1))
                    lit = []
                toks = s.split(None, 2)
                if len(toks) < 3:
                    raise TemplateError("line %d: //@extract <file> <item path>" % (i + 1))
                cur = Block(toks[1], toks[2].strip(), i + 1)
                curkey = None
            elif s.startswith("//@include_tmpl"):
                # //@include_tmpl <file under verus/> [trusted]  -- inline another template fragment; with `trusted`
                # every extract block in it keeps its contract but is NOT re-verified here (verified in its own unit)
                if lit:
                    parts.append(("lit", "\n".join(lit), i - len(lit) + 1))
                    lit = []
                toks = s.split()
                sub = open(os.path.join(VERIF, "verus", toks[1])).read()
                for kind, payload, tl in parse_template(sub):
                    if kind == "block" and len(toks) > 2 and toks[2] == "trusted":
                        payload.trusted = "contract verified in its own unit (%s); assumed here" % toks[1]
                    parts.append((kind, payload, tl))
            elif s.startswith("//@include"):
                if lit:
                    parts.append(("lit", "\n".join(lit), i - len(lit) + 1))
                    lit = []
                parts.append(("include", s.split(None, 1)[1].strip(), i + 1))
            elif s.startswith("//@lits"):
                if lit:
                    parts.append(("lit", "\n".join(lit), i - len(lit) + 1))
                    lit = []
                parts.append(("lits", "", i + 1))
            else:
                lit.append(ln)
        else:
            if s.startswith("//@end"):
                parts.append(("block", cur, cur.tline))
                cur = None
            elif s.startswith("//@"):
                d = s[3:].strip()
                head = d.split(None, 1)
                kw = head[0]
                rest = head[1] if len(head) > 1 else ""
                if kw == "name":
                    cur.name = rest.strip()
                elif kw == "ret":
                    cur.ret = rest.strip()
                elif kw == "spec":
                    cur.spec = True
                elif kw == "trusted":
                    cur.trusted = rest.strip() or "assumed"
                elif kw == "norule":
                    cur.norule |= set(rest.split())
                elif kw == "rule":
                    cur.userule |= set(rest.split())
                elif kw in ("subst", "subst!", "subst?"):
                    # subst / subst? : applies where it matches (a mutated operand that no longer matches simply stays
                    # as it is; if Verus then cannot handle the construct the run is undecided, never an alarm);
                    # subst! : must match at least once (anchor the contract depends on) else lost anchor
                    m = re.match(r"^(R\d+\w*)\s+/(.*)/\s*=>\s?(.*)$", rest)
                    if not m:
                        raise TemplateError("line %d: bad //@subst" % (i + 1))
                    cur.substs.append((m.group(1), m.group(2), m.group(3), kw == "subst!"))
                elif kw in ("requires", "ensures", "decreases", "recommends", "prologue", "epilogue_proof"):
                    curkey = kw
                    cur.clauses.setdefault(curkey, [])
                    if rest:
                        cur.clauses[curkey].append(rest)
                elif kw == "loop":
                    m = re.match(r"^(\d+)\s+(invariant_except_break|invariant|ensures|decreases)\s*(.*)$", rest)
                    if not m:
                        raise TemplateError("line %d: bad //@loop" % (i + 1))
                    curkey = ("loop", int(m.group(1)), m.group(2))
                    cur.clauses.setdefault(curkey, [])
                    if m.group(3):
                        cur.clauses[curkey].append(m.group(3))
                elif kw == "at":
                    m = re.match(r"^/(.*)/\s+(before|after)\s*$", rest)
                    if not m:
                        raise TemplateError("line %d: bad //@at" % (i + 1))
                    curkey = ("at", m.group(1), m.group(2))
                    cur.clauses.setdefault(curkey, [])
                else:
                    raise TemplateError("line %d: unknown directive %s" % (i + 1, kw))
            else:
                if curkey is None:
                    if s:
                        raise TemplateError("line %d: text outside a clause in extract block" % (i + 1))
                else:
                    cur.clauses[curkey].append(ln)
        i += 1
    if cur is not None:
        raise TemplateError("unterminated //@extract block at line %d" % cur.tline)
    if lit:
        parts.append(("lit", "\n".join(lit), len(lines) - len(lit) + 1))
    return parts


LOOP_KW = re.compile(r"\b(for|while|loop)\b")


def find_loops(body_text):
    """Return list of (kw_index, open_brace_index) for loops in order of appearance."""
    msk = rustlex.mask(body_text)
    res = []
    for m in LOOP_KW.finditer(msk):
        # skip `for` in `impl X for Y` / HRTB (not in bodies); skip identifiers like `.for`
        if m.start() > 0 and msk[m.start() - 1] in "._":
            continue
        ob = rustlex.find_body_open(msk, m.end())
        if ob < 0:
            continue
        if m.group(1) == "loop" and msk[m.end():ob].strip() != "":
            continue
        res.append((m.start(), ob))
    return res


def _clause_text(lines):
    txt = "\n".join(lines).strip("\n")
    return txt


def process_block(blk, repo_root, log, auto_prologue):
    path = os.path.join(repo_root, blk.file)
    if not os.path.exists(path):
        raise LostAnchor("file %s not found" % blk.file)
    src = open(path).read()
    item = rustlex.find_item(src, blk.path)
    raw = src[item["start"]:item["end"]]
    entry = dict(file=blk.file, item=blk.path, line=item["line"], end_line=item["end_line"], rules={},
                 kind=item["kind"], trusted=blk.trusted, name=blk.name or item["name"])
    text = strip_comments(raw)
    text = strip_attrs_and_vis(text)
    entry["rules"]["R0"] = 1
    # generic rules
    for rid, _d, fn in GENERIC_RULES:
        if rid in blk.norule:
            continue
        if rid == "R10":
            if "R10" in blk.userule:
                text, n = _r10_compound_float(text)
                if n:
                    entry["rules"]["R10"] = n
            continue
        if rid == "R13":
            if "R13" in blk.userule:
                text, n = _r13_neg(text)
                if n:
                    entry["rules"]["R13"] = n
            continue
        text, n = fn(text)
        if n:
            entry["rules"][rid] = entry["rules"].get(rid, 0) + n
    for rid, rx, repl, required in blk.substs:
        try:
            text, n = re.subn(rx, repl, text, flags=re.S)
        except re.error as e:
            raise TemplateError("bad regex in //@subst at template line %d: %s" % (blk.tline, e))
        if n == 0 and required:
            raise LostAnchor("rewrite %s /%s/ no longer matches in %s %s" % (rid, rx, blk.file, blk.path))
        if n:
            entry["rules"][rid] = entry["rules"].get(rid, 0) + n

    if item["kind"] != "fn":
        # struct / const / type: keep derive(Clone, Copy) only
        derives = []
        for a in item["attrs"]:
            m = re.match(r"#\[derive\((.*)\)\]", a)
            if m:
                for d in m.group(1).split(","):
                    d = d.strip()
                    if d in ("Clone", "Copy"):
                        derives.append(d)
        head = ""
        if derives and item["kind"] in ("struct", "enum"):
            head = "#[derive(%s)]\n" % ", ".join(sorted(set(derives)))
        if item["kind"] == "struct" and not re.search(r"struct\s+\w+\s*<", text):
            sname = re.search(r"struct\s+(\w+)", text).group(1)
            entry["f64_fields"] = (sname, re.findall(r"(\w+)\s*:\s*f64\b", text))
        log.append(entry)
        return head + text.strip() + "\n", entry

    # ---- function: split signature / body
    msk = rustlex.mask(text)
    kw = re.search(r"\bfn\b", msk).start()
    ob = rustlex.find_body_open(msk, kw)
    cb = rustlex.match_close(msk, ob)
    sig = text[:ob].rstrip()
    body = text[ob + 1:cb]
    if blk.name:
        sig = re.sub(r"\bfn\s+\w+", "fn " + blk.name, sig, count=1)
    # name the return value
    msig = rustlex.mask(sig)
    # find '->' at depth 0 after params
    po = msig.find("(", kw)
    pc = rustlex.match_close(msig, po)
    arrow = msig.find("->", pc)
    where_clause = ""
    if arrow >= 0:
        ret_ty = sig[arrow + 2:].strip()
        mw = re.search(r"\bwhere\b", rustlex.mask(ret_ty))
        if mw:
            where_clause = " " + ret_ty[mw.start():]
            ret_ty = ret_ty[:mw.start()].strip()
        sig = sig[:arrow] + "-> (%s: %s)%s" % (blk.ret, ret_ty, where_clause)
    contract = []
    for key in ("requires", "recommends", "ensures", "decreases"):
        if key in blk.clauses and _clause_text(blk.clauses[key]).strip():
            contract.append("    %s\n%s" % (key, _clause_text(blk.clauses[key])))
    entry["clauses"] = {k if isinstance(k, str) else " ".join(map(str, k)): len([l for l in v if l.strip()]) for k, v in blk.clauses.items()}

    if blk.trusted:
        out = "#[verifier::external_body]\n" + sig + "\n" + "\n".join(contract) + "\n{ unimplemented!() }\n"
        log.append(entry)
        return out, entry

    # ---- loops (on the body before inserting anything else; insert from the back)
    loops = find_loops(body)
    entry["loops"] = len(loops)
    inserts = []  # (pos, text)
    loop_keys = [k for k in blk.clauses if isinstance(k, tuple) and k[0] == "loop"]
    for k in loop_keys:
        if k[1] >= len(loops):
            raise LostAnchor("loop #%d not found in %s (has %d loops)" % (k[1], blk.path, len(loops)))
    for li, (kwpos, lob) in enumerate(loops):
        spec = []
        for kind in ("invariant_except_break", "invariant", "ensures", "decreases"):
            key = ("loop", li, kind)
            if key in blk.clauses and _clause_text(blk.clauses[key]).strip():
                spec.append("        %s\n%s" % (kind, _clause_text(blk.clauses[key])))
        if spec:
            inserts.append((lob, "\n" + "\n".join(spec) + "\n    "))
        if auto_prologue:
            inserts.append((lob + 1, " " + auto_prologue + " "))
    # ---- anchored hints
    bmask = rustlex.mask(body)
    for key in [k for k in blk.clauses if isinstance(k, tuple) and k[0] == "at"]:
        _, rx, where = key
        ms = list(re.finditer(rx, body))
        if len(ms) != 1:
            raise LostAnchor("anchor /%s/ matches %d times in %s" % (rx, len(ms), blk.path))
        m = ms[0]
        txt = "\n" + _clause_text(blk.clauses[key]) + "\n"
        if where == "before":
            pos = body.rfind("\n", 0, m.start()) + 1
        else:
            # after the statement: next ';' at relative depth 0
            d = 0
            pos = m.end()
            while pos < len(bmask):
                ch = bmask[pos]
                if ch in "([{":
                    d += 1
                elif ch in ")]}":
                    if d == 0:
                        break
                    d -= 1
                elif ch == ";" and d == 0:
                    pos += 1
                    break
                pos += 1
        inserts.append((pos, txt))
    inserts.sort(key=lambda t: t[0], reverse=True)
    for pos, txt in inserts:
        body = body[:pos] + txt + body[pos:]
    prologue = ""
    if auto_prologue:
        prologue += "\n    " + auto_prologue
    if "prologue" in blk.clauses:
        prologue += "\n" + _clause_text(blk.clauses["prologue"])
    out = sig + "\n" + "\n".join(contract) + ("\n" if contract else "") + "{" + prologue + body + "}\n"
    if blk.spec:
        out = re.sub(r"\bfn\b", "open spec fn", out, count=1)
    log.append(entry)
    return out, entry


def build_unit(template_path, repo_root, canary=False):
    """Returns (generated_text, info) ; info has extracted items, rules fired, line map."""
    ttext = open(template_path).read()
    parts = parse_template(ttext)
    out_chunks = []   # (text, origin)
    log = []
    auto_prologue = None
    m = re.search(r"(?m)^//@auto_prologue\s+(.*)$", ttext)
    if m:
        auto_prologue = m.group(1).strip()
    has_lits_marker = any(p[0] == "lits" for p in parts)
    trusted_text = []
    for kind, payload, tline in parts:
        if kind == "lit":
            payload = re.sub(r"(?m)^//@auto_prologue.*$", "", payload)
            out_chunks.append((payload, ("template", tline)))
        elif kind == "include":
            toks = payload.split()
            p = os.path.join(VERIF, "verus", toks[0])
            inc = open(p).read()
            for kv in toks[1:]:
                k, v = kv.split("=", 1)
                inc = inc.replace("{%s}" % k, v)
            out_chunks.append(("// ---- include %s (trusted prelude)\n%s\n" % (payload, inc), ("include", payload)))
            trusted_text.append((payload, inc))
        elif kind == "lits":
            out_chunks.append(("//@LITS@", ("lits", 0)))
        else:
            blk = payload
            text, entry = process_block(blk, repo_root, log, auto_prologue)
            if canary and entry["kind"] == "fn" and not blk.trusted and not blk.spec:
                clone = _add_canary(text)
                clone = re.sub(r"\bfn\s+(\w+)", lambda m: "fn %s__canary" % m.group(1), clone, count=1)
                text = text + "\n// ---- vacuity canary clone (must FAIL to verify)\n" + clone
            out_chunks.append(("// ---- extracted from %s :: %s (lines %d-%d)\n%s" % (
                blk.file, blk.path, entry["line"], entry["end_line"], text), ("repo", entry)))
    full = "\n".join(c for c, _ in out_chunks)
    lits_text, lit_names = literal_axioms(full.replace("//@LITS@", ""))
    # Verus omits the f64 typing fact for fields of structs whose fields are all invariant-free; the f64 axioms
    # are guarded by that fact, so state it per field (assumption: an f64 field holds an f64)
    ft = ["pub uninterp spec fn f64_typed<T>(s: T, i: int) -> f64;"]
    names = []
    for it in log:
        if it.get("f64_fields") and it["f64_fields"][1]:
            sname, fields = it["f64_fields"]
            for k, fld in enumerate(fields):
                nm = "ax_f64_field_%s_%s" % (sname, fld)
                names.append(nm)
                ft.append("broadcast axiom fn %s(s: %s) ensures #[trigger] s.%s == f64_typed(s, %d);" % (nm, sname, fld, k))
    if not names:
        names.append("ax_f64_field_none")
        ft.append("broadcast axiom fn ax_f64_field_none(x: f64) ensures #[trigger] f64_typed(x, 0) == f64_typed(x, 0);")
    ft.append("broadcast group f64_field_types { %s }" % ", ".join(names))
    lits_text = lits_text + "\n// ---- f64 field typing facts\n" + "\n".join(ft)
    if has_lits_marker:
        full = full.replace("//@LITS@", "// ---- R9: generated literal axioms\n" + lits_text)
    # line map
    linemap = []
    for c, origin in out_chunks:
        if c == "//@LITS@":
            c = "// ---- R9: generated literal axioms\n" + lits_text
        nl = c.count("\n") + 1
        for k in range(nl):
            linemap.append((origin, k))
    info = dict(items=log, literals=lit_names, linemap=linemap, includes=[p for p, _ in trusted_text])
    return full, info


def _add_canary(fn_text):
    """Add `false` to the function's ensures (used only for the vacuity run)."""
    msk = rustlex.mask(fn_text)
    kw = re.search(r"\bfn\b", msk).start()
    ob = rustlex.find_body_open(msk, kw)
    head = fn_text[:ob]
    m = None
    for m in re.finditer(r"(?m)^\s*ensures\b", rustlex.mask(head)):
        break
    if m:
        # find end of ensures section: before 'decreases' at line start or the body
        md = re.search(r"(?m)^\s*decreases\b", rustlex.mask(head)[m.end():])
        end = m.end() + md.start() if md else len(head)
        sec = head[m.end():end].rstrip()
        if not sec.endswith(","):
            sec += ","
        head = head[:m.end()] + sec + "\n        false,\n" + head[end:]
    else:
        md = re.search(r"(?m)^\s*decreases\b", rustlex.mask(head))
        pos = md.start() if md else len(head)
        head = head[:pos] + "\n    ensures false,\n" + head[pos:]
    return head + fn_text[ob:]


def map_line(info, gen_line, gen_text_lines=None, repo_root=None):
    """Map a generated line (1-based) to a description of where it came from."""
    lm = info["linemap"]
    if gen_line - 1 >= len(lm) or gen_line < 1:
        return dict(origin="?", detail="")
    origin, k = lm[gen_line - 1]
    if origin[0] == "template":
        return dict(origin="contract/template", template_line=origin[1] + k)
    if origin[0] == "include":
        return dict(origin="prelude", file=origin[1], line=k)
    if origin[0] == "lits":
        return dict(origin="literal-axioms")
    entry = origin[1]
    res = dict(origin="repo", file=entry["file"], item=entry["item"], item_lines=[entry["line"], entry["end_line"]])
    # best-effort exact line: match the text of the generated line inside the repo item
    if gen_text_lines is not None and repo_root is not None:
        try:
            src_lines = open(os.path.join(repo_root, entry["file"])).read().split("\n")
            want = gen_text_lines[gen_line - 1].strip()
            for ln in range(entry["line"], entry["end_line"] + 1):
                if src_lines[ln - 1].strip() == want and want:
                    res["line"] = ln
                    break
        except Exception:
            pass
    return res
