"""Run Verus on a generated unit file and turn its output into obligations."""
import json
import os
import re
import subprocess
import time
from . import rustlex, weave

SEMANTIC = re.compile(
    r"(postcondition not satisfied|precondition not satisfied|invariant not satisfied|decreases not satisfied|"
    r"assertion failed|possible arithmetic (underflow|overflow)|possible division by zero|"
    r"could not prove termination|loop invariant|possible bit shift|unreachable|"
    r"recursive call|failed to satisfy|index out of bounds|constructed value may fail|"
    r"cannot show .* in bounds|may be out of range|assertion not satisfied)", re.I)
UNDECIDED = re.compile(r"(rlimit|resource limit|timed? ?out|out of memory|solver)", re.I)


def fn_spans(gen_text):
    """[(qualified_name, start_line, end_line)] for every fn in the generated file."""
    msk = rustlex.mask(gen_text)
    impls = []
    for m in re.finditer(r"\bimpl\b", msk):
        ob = rustlex.find_body_open(msk, m.end())
        if ob < 0:
            continue
        try:
            cb = rustlex.match_close(msk, ob)
        except rustlex.LostAnchor:
            continue
        header = " ".join(msk[m.end():ob].split())
        h = re.sub(r"^<[^>]*>\s*", "", header)
        h = h.split(" where ")[0]
        ty = h.split(" for ")[-1].strip()
        ty = re.sub(r"<.*$", "", ty).strip()
        impls.append((ob, cb, ty))
    spans = []
    for m in re.finditer(r"\bfn\s+(\w+)", msk):
        ob = rustlex.find_body_open(msk, m.end())
        semi = msk.find(";", m.end())
        if ob < 0 or (0 <= semi < ob and rustlex.depth_at(msk, semi, m.end()) == 0):
            end = semi if semi >= 0 else m.end()
        else:
            try:
                end = rustlex.match_close(msk, ob)
            except rustlex.LostAnchor:
                continue
        name = m.group(1)
        for ob_i, cb_i, ty in impls:
            if ob_i < m.start() < cb_i:
                name = ty + "::" + name
        spans.append((name, rustlex.line_of(gen_text, m.start()), rustlex.line_of(gen_text, end)))
    return spans


def enclosing_fn(spans, line):
    best = None
    for name, a, b in spans:
        if a <= line <= b and (best is None or a >= best[1]):
            best = (name, a, b)
    return best[0] if best else None


def run_verus(gen_path, rlimit=30, timeout=600, extra=None):
    cmd = ["verus", gen_path, "--output-json", "--time", "--triggers-mode", "silent",
           "--multiple-errors", "8", "--rlimit", str(rlimit)] + (extra or []) + ["--", "--error-format=json"]
    t0 = time.time()
    env = dict(os.environ)
    # own process group: on timeout the whole group (rust_verify AND its z3 children, which ignore rlimit inside nlsat)
    # is killed; otherwise orphaned z3 processes keep a core busy for hours
    import signal
    proc = subprocess.Popen(cmd, stdout=subprocess.PIPE, stderr=subprocess.PIPE, text=True, cwd=os.path.dirname(gen_path), env=env,
                            start_new_session=True)
    try:
        out, err = proc.communicate(timeout=timeout)
        rc = proc.returncode
        timed_out = False
    except subprocess.TimeoutExpired:
        try:
            os.killpg(proc.pid, signal.SIGKILL)
        except Exception:
            pass
        try:
            out, err = proc.communicate(timeout=20)
        except Exception:
            out, err = "", ""
        rc = -9
        timed_out = True
    wall = time.time() - t0
    res = dict(cmd=" ".join(cmd), rc=rc, wall_s=round(wall, 2), timed_out=timed_out, diagnostics=[], json=None, stderr_tail="")
    try:
        res["json"] = json.loads(out)
    except Exception:
        res["json"] = None
    diags = []
    other = []
    for ln in err.splitlines():
        ln = ln.strip()
        if ln.startswith("{"):
            try:
                d = json.loads(ln)
                if d.get("$message_type") == "diagnostic":
                    diags.append(d)
                continue
            except Exception:
                pass
        if ln:
            other.append(ln)
    res["diagnostics"] = diags
    res["stderr_tail"] = "\n".join(other[-30:])
    return res


def analyse(unit, gen_text, info, res, repo_root):
    """Classify a Verus run. Returns dict(status, functions, errors, undecided_reason, times)."""
    lines = gen_text.split("\n")
    spans = fn_spans(gen_text)
    errors = []
    nonsem = []
    for d in res["diagnostics"]:
        if d.get("level") != "error":
            continue
        msg = d.get("message", "")
        if msg.startswith("aborting due to"):
            continue
        prim = [s for s in d.get("spans", []) if s.get("is_primary")]
        sec = [s for s in d.get("spans", []) if not s.get("is_primary")]
        pline = prim[0]["line_start"] if prim else 0
        ptext = " ".join(t["text"].strip() for t in prim[0]["text"]) if prim else ""
        # the function whose body is being checked: for preconditions the primary span is the call site,
        # for postconditions the ensures clause (inside the fn header) -> both inside the fn span
        fn = enclosing_fn(spans, pline)
        e = dict(message=msg, gen_line=pline, text=ptext[:300], function=fn,
                 where=weave.map_line(info, pline, lines, repo_root),
                 related=[dict(gen_line=s["line_start"], label=s.get("label"),
                               text=" ".join(t["text"].strip() for t in s["text"])[:300],
                               where=weave.map_line(info, s["line_start"], lines, repo_root)) for s in sec],
                 rendered=d.get("rendered", "")[:4000])
        if UNDECIDED.search(msg) and not SEMANTIC.search(msg):
            nonsem.append(e)
        elif SEMANTIC.search(msg):
            errors.append(e)
        else:
            nonsem.append(e)
    functions = []
    j = res["json"]
    times = {}
    verified = 0
    if j:
        vr = j.get("verification-results", {})
        verified = vr.get("verified", 0)
        tm = j.get("times-ms", {})
        times = dict(total_ms=tm.get("total"), smt_ms=(tm.get("smt") or {}).get("total"))
        for mod in (tm.get("smt") or {}).get("smt-run-module-times", []):
            for fb in mod.get("function-breakdown", []):
                functions.append(dict(function=fb["function"].split("::", 1)[-1], mode=fb.get("mode:"), ms=fb.get("time"),
                                      rlimit=fb.get("rlimit"), success=fb.get("success")))
    status = "ok"
    reason = None
    if res["timed_out"]:
        status, reason = "undecided", "wall-clock timeout"
    elif nonsem:
        status, reason = "undecided", "non-semantic verifier error: " + nonsem[0]["message"][:200]
    elif j is None:
        status, reason = "undecided", "no JSON result from verus (rc=%s): %s" % (res["rc"], res["stderr_tail"][-400:])
    elif j.get("verification-results", {}).get("encountered-vir-error"):
        status, reason = "undecided", "VIR error: " + res["stderr_tail"][-400:]
    elif errors:
        status = "fail"
    elif not j.get("verification-results", {}).get("success"):
        status, reason = "undecided", "verus reported failure without a semantic diagnostic: " + res["stderr_tail"][-400:]
    elif verified == 0:
        status, reason = "undecided", "zero obligations verified (vacuous unit)"
    return dict(unit=unit, status=status, undecided_reason=reason, errors=errors, nonsemantic=nonsem,
                functions=functions, verified=verified, times=times, wall_s=res["wall_s"], cmd=res["cmd"])


TRUST_PATTERNS = [
    ("axiom", re.compile(r"\baxiom\s+fn\s+(\w+)")),
    ("assume_specification", re.compile(r"assume_specification\s*(?:<[^>]*>)?\s*\[\s*([^\]]+?)\s*\]")),
    ("external_body", re.compile(r"#\[verifier::external_body\]\s*(?:#\[[^\]]*\]\s*)*(?:pub\s+)?(?:fn|struct)\s+(\w+)")),
    ("external_type_specification", re.compile(r"#\[verifier::external_type_specification\][^;{]*?struct\s+(\w+)")),
    ("uninterp", re.compile(r"\buninterp\s+spec\s+fn\s+(\w+)")),
    ("assume", re.compile(r"\bassume\s*\(")),
    ("admit", re.compile(r"\badmit\s*\(")),
]


def scan_trusted(gen_text):
    msk_spans = []
    rustlex.mask(gen_text, msk_spans)
    txt = weave.strip_comments(gen_text)
    found = {}
    for kind, rx in TRUST_PATTERNS:
        names = []
        for m in rx.finditer(txt):
            names.append(m.group(1) if m.groups() else kind)
        if names:
            found[kind] = names
    return found
