"""Which units decide which property."""

UNIT_OPTS = {}

PROPS = {
    "C01": dict(
        verus=["curve2_stations"],
        assumptions=[],
        not_claimed=[],
    ),
}
