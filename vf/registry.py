"""Which units decide which property: one JSON file per claimed property under /verif/props/."""
import json
import os
import glob

VERIF = os.path.dirname(os.path.dirname(os.path.abspath(__file__)))

PROPS = {}
UNIT_OPTS = {}
for p in sorted(glob.glob(os.path.join(VERIF, "props", "C*.json"))):
    d = json.load(open(p))
    PROPS[os.path.basename(p)[:-5]] = d
    UNIT_OPTS.update(d.get("unit_opts", {}))
