"""./check <property> quick|thorough   -- decide one property with contracts on the real code.

exit 0  every obligation discharged (known findings printed as KNOWN-FINDING lines)
exit 1  VIOLATION property=<id> replay=<path> [no-failing-input-found]
exit 2  undecided (lost anchor, unsupported construct, rlimit/timeout, build error) -- never an alarm
"""
import concurrent.futures as cf
import hashlib
import json
import os
import re
import sys
import time
import traceback

from . import weave, verusrun, kanirun, registry
from .rustlex import LostAnchor

VERIF = weave.VERIF
REPO = os.environ.get("VERIF_REPO", "/repo")
WORK = os.path.join(VERIF, ".work")


def log(*a):
    print(*a, flush=True)


def run_v_unit(prop, unit, tier, canary):
    """Build + verify one Verus unit. Returns analysis dict (+ info)."""
    tpath = os.path.join(VERIF, "verus", "units", unit + ".rs.tmpl")
    # scratch checkouts (VERIF_REPO) get their own work dir: parallel runs on different trees must not share generated files
    rtag = "" if os.path.realpath(REPO) == "/repo" else "@" + hashlib.sha1(os.path.realpath(REPO).encode()).hexdigest()[:8]
    wdir = os.path.join(WORK, prop + rtag, unit + ("__canary" if canary else ""))
    os.makedirs(wdir, exist_ok=True)
    try:
        gen, info = weave.build_unit(tpath, REPO, canary=canary)
    except LostAnchor as e:
        return dict(unit=unit, status="undecided", undecided_reason="lost anchor: %s" % e, errors=[], functions=[],
                    verified=0, times={}, wall_s=0, cmd="", info=None, canary=canary, gen_path=None)
    gpath = os.path.join(wdir, unit.replace("-", "_") + ".rs")
    with open(gpath, "w") as f:
        f.write(gen)
    opts = registry.UNIT_OPTS.get(unit, {})
    rlimit = opts.get("rlimit", 40) * (3 if tier == "thorough" else 1)
    timeout = opts.get("timeout", 1500) * (3 if tier == "thorough" else 1)
    if canary:
        rlimit = opts.get("canary_rlimit", 5)
    # Z3's nlsat ignores rlimit, so a query can occasionally run away; a timed-out run is repeated once with another
    # solver seed before the unit is declared undecided
    first_timeout = min(timeout, opts.get("first_timeout", 600) * (3 if tier == "thorough" else 1))
    res = verusrun.run_verus(gpath, rlimit=rlimit, timeout=first_timeout)
    if res["timed_out"] and not canary:
        res = verusrun.run_verus(gpath, rlimit=rlimit, timeout=timeout, extra=["--smt-option", "smt.random_seed=7"])
    an = verusrun.analyse(unit, gen, info, res, REPO)
    an["info"] = info
    an["canary"] = canary
    an["gen_path"] = gpath
    an["trusted"] = verusrun.scan_trusted(gen)
    an["stderr_tail"] = res["stderr_tail"]
    return an


def contracted_functions(info):
    out = []
    for it in info["items"]:
        if it["kind"] == "fn" and not it.get("trusted"):
            out.append(it)
    return out


def check_canary(main, can):
    """Every function under contract must FAIL in the canary file (ensures false added)."""
    if can["status"] == "undecided" and not can["functions"]:
        return False, "canary run undecided: %s" % can["undecided_reason"]
    want = {it["name"] + "__canary" for it in contracted_functions(main["info"])}
    okfns = {f["function"].split("::")[-1] for f in can["functions"] if f["success"]}
    seen = {f["function"].split("::")[-1] for f in can["functions"]}
    missing = sorted(n for n in want if n not in seen)
    if missing:
        return False, "canary clones not reported by verus: %s" % ", ".join(missing)
    # a function "passes" in the canary if Verus marked it success
    vacuous = sorted(n for n in want if n in okfns)
    failed_names = {e["function"].split("::")[-1] for e in can["errors"] if e.get("function")}
    # functions that neither failed nor timed out
    if vacuous:
        return False, "vacuity canary: `ensures false` verified for %s" % ", ".join(vacuous)
    return True, "%d canaries failed as required" % len(want)


def obligation_id(prop, unit, e):
    clause = re.sub(r"\s+", " ", e.get("text", "")).strip()
    kind = e["message"].split(":")[0].strip()
    return "%s/%s/%s/%s/%s" % (prop, unit, e.get("function") or "?", kind, clause[:120])


def load_known():
    p = os.path.join(VERIF, "known_findings.json")
    if not os.path.exists(p):
        return []
    return json.load(open(p)).get("findings", [])


def match_known(known, prop, oid):
    for k in known:
        if k.get("property") != prop:
            continue
        if re.search(k["obligation_re"], oid):
            return k
    return None


def main(argv):
    if len(argv) < 2:
        print(__doc__)
        return 2
    prop = argv[0]
    tier = argv[1] if argv[1] in ("quick", "thorough") else os.environ.get("VERIF_TIER", "quick")
    seed = int(os.environ.get("VERIF_SEED", "0") or 0)
    if prop not in registry.PROPS:
        print("unknown / not-applicable property", prop)
        return 2
    P = registry.PROPS[prop]
    t0 = time.time()
    os.makedirs(os.path.join(VERIF, "evidence"), exist_ok=True)
    os.makedirs(os.path.join(VERIF, "replays"), exist_ok=True)
    v_units = list(P.get("verus", [])) + (list(P.get("verus_thorough", [])) if tier == "thorough" else [])
    # "kani_extra": harnesses that need more than half an hour of CBMC time each; run only on request (VERIF_EXTRA=1 ./check Cnn thorough)
    k_groups = list(P.get("kani", [])) + (list(P.get("kani_thorough", [])) if tier == "thorough" else []) \
        + (list(P.get("kani_extra", [])) if tier == "thorough" and os.environ.get("VERIF_EXTRA") else [])
    results = {}
    kres = []
    with cf.ThreadPoolExecutor(max_workers=8) as ex:
        futs = {}
        for u in v_units:
            futs[ex.submit(run_v_unit, prop, u, tier, False)] = ("v", u)
            futs[ex.submit(run_v_unit, prop, u, tier, True)] = ("c", u)
        kfut = None
        if k_groups:
            kfut = ex.submit(kanirun.run_groups, prop, k_groups, tier, REPO)
        bfut = ex.submit(kanirun.run_bounded, REPO, prop, 1800 * (3 if tier == "thorough" else 1), tier) if P.get("bounded") else None
        for f in cf.as_completed(futs):
            kind, u = futs[f]
            try:
                results[(kind, u)] = f.result()
            except Exception as e:
                results[(kind, u)] = dict(unit=u, status="undecided", undecided_reason="driver exception: %s\n%s" % (e, traceback.format_exc()),
                                          errors=[], functions=[], verified=0, times={}, wall_s=0, cmd="", info=None, canary=(kind == "c"))
        if kfut is not None:
            try:
                kres = kfut.result()
            except Exception as e:
                kres = [dict(group="?", harness="?", status="undecided", reason="driver exception: %s\n%s" % (e, traceback.format_exc()))]

    bres = None
    if bfut is not None:
        try:
            bres = bfut.result()
        except Exception as e:
            bres = dict(status="undecided", reason="driver exception: %s" % e, harness="bounded:" + prop)
    known = load_known()
    violations = []
    known_hits = []
    undecided = []
    obligations = 0
    discharged = 0
    samples = []
    functions_under_contract = []
    trusted = set()
    rules_fired = {}
    solver_ms = 0
    checker_cmds = []
    canary_notes = []
    bounded = []
    known_only = 0
    for u in v_units:
        m = results[("v", u)]
        c = results[("c", u)]
        if m.get("cmd"):
            checker_cmds.append(m["cmd"])
        if m["status"] == "undecided":
            undecided.append("%s: %s" % (u, m["undecided_reason"]))
            continue
        ok, note = check_canary(m, c)
        canary_notes.append("%s: %s" % (u, note))
        if not ok:
            undecided.append("%s: %s" % (u, note))
        info = m["info"]
        for it in info["items"]:
            tag = "%s::%s (%s:%d)" % (it["file"], it["item"], it["file"], it["line"])
            if it["kind"] == "fn":
                if it.get("trusted"):
                    trusted.add("assumed contract (external_body) on repo fn %s: %s" % (it["item"], it["trusted"]))
                else:
                    functions_under_contract.append(tag)
            for r, n in it["rules"].items():
                rules_fired.setdefault(r, 0)
                rules_fired[r] += n
        for kind, names in m.get("trusted", {}).items():
            for n in sorted(set(names)):
                trusted.add("%s %s [%s]" % (kind, n, u))
        solver_ms += (m["times"].get("smt_ms") or 0)
        nfun = len(m["functions"])
        failing_fns = set()
        known_fns = set()
        for e in m["errors"]:
            oid = obligation_id(prop, u, e)
            k = match_known(known, prop, oid)
            if k:
                known_hits.append((k, oid))
                known_fns.add(e.get("function"))
            else:
                failing_fns.add(e.get("function"))
                violations.append((u, oid, e, m))
        # obligations that fail only because of a listed known finding are reported separately, not as discharged
        known_only += len(known_fns - failing_fns)
        obligations += m["verified"] + len(failing_fns)
        discharged += m["verified"]
        for f in m["functions"][:400]:
            if f["success"] and len(samples) < 12 and not f["function"].startswith("ax_") and "clone" not in f["function"]:
                samples.append(dict(engine="verus", unit=u, obligation="all requires/ensures/invariant/decreases VCs of fn %s" % f["function"],
                                    ms=f["ms"], rlimit=f["rlimit"], discharged=True))
    for r in kres:
        if r.get("cmd"):
            checker_cmds.append(r["cmd"])
        if r["status"] == "undecided":
            undecided.append("kani %s: %s" % (r.get("harness"), r.get("reason")))
            continue
        for t in r.get("trusted", []):
            trusted.add(t)
        solver_ms += int(r.get("solver_s", 0) * 1000)
        if r.get("bounded"):
            bounded.append(dict(harness=r["harness"], bound=r["bounded"], status=r["status"], checks=r.get("checks")))
            if r["status"] == "fail":
                oid = "%s/kani/%s/%s" % (prop, r["harness"], r.get("failed_check", "?")[:160])
                k = match_known(known, prop, oid)
                if k:
                    known_hits.append((k, oid))
                else:
                    violations.append(("kani:" + r["group"], oid, r, None))
            continue
        functions_under_contract.extend(r.get("functions", []))
        if r["status"] == "fail":
            oid = "%s/kani/%s/%s" % (prop, r["harness"], r.get("failed_check", "?")[:160])
            k = match_known(known, prop, oid)
            obligations += r.get("checks", 1)
            discharged += max(0, r.get("checks", 1) - r.get("failed", 1))
            if k:
                known_hits.append((k, oid))
            else:
                violations.append(("kani:" + r["group"], oid, r, None))
        else:
            obligations += r.get("checks", 0)
            discharged += r.get("checks", 0)
            if len(samples) < 16:
                samples.append(dict(engine="kani", harness=r["harness"], obligation=r.get("what", ""), checks=r.get("checks"),
                                    cover=r.get("cover"), discharged=True))

    # engine B: bounded native checks (stated bound; never counted as discharged obligations)
    if bres is not None:
        if bres["status"] == "undecided":
            undecided.append("bounded native check: %s" % bres.get("reason"))
        else:
            checker_cmds.append(bres.get("cmd", ""))
            bounded.append(dict(harness=bres["harness"], bound=bres.get("bound"), status=bres["status"], cases=bres.get("cases"),
                                clause_evaluations=bres.get("checks"), wall_s=bres.get("wall_s"),
                                note="executable contract clauses evaluated natively on the real code over an enumerated input space; NOT a proof"))
            for fl in bres.get("failures", []):
                what = fl.split(" | input: ")[0]
                oid = "%s/bounded/%s" % (prop, what[:200])
                k = match_known(known, prop, oid)
                if k:
                    known_hits.append((k, oid))
                else:
                    violations.append(("bounded", oid, dict(harness=bres["harness"], failing=fl, bound=bres.get("bound")), None))
    wall = round(time.time() - t0, 2)
    rc = 0
    printed = set()
    for k, oid in known_hits:
        key = k["obligation_re"]
        if key in printed:
            continue
        printed.add(key)
        log("KNOWN-FINDING: property=%s %s" % (prop, k["what"]))
    vio_records = []
    if violations:
        rc = 1
    for idx, (u, oid, e, m) in enumerate(violations):
        h = hashlib.sha1(oid.encode()).hexdigest()[:10]
        rpath = os.path.join(VERIF, "replays", "%s-%s.json" % (prop, h))
        rec = dict(property=prop, obligation=oid, unit=u, tier=tier)
        suffix = " no-failing-input-found"
        if u == "bounded":
            rec.update(engine="bounded native check on the real crate (--cfg engeom_verif)", failing_clause_and_input=e["failing"], bound=e["bound"],
                       replay="%s bounded %s" % (os.path.join(VERIF, ".cache", "replay-target", "debug", "vreplay_main"), prop))
            suffix = ""
        elif u.startswith("kani:"):
            rec.update(engine="kani", harness=e["harness"], failed_check=e.get("failed_check"), counterexample=e.get("counterexample"),
                       native_replay=e.get("native_replay"), verifier_output=e.get("output_tail"))
            if e.get("counterexample") and (e.get("native_replay") or {}).get("reproduced"):
                suffix = ""
        else:
            rec.update(engine="verus", function=e.get("function"), message=e["message"], clause=e.get("text"),
                       repo_location=e.get("where"), related=e.get("related"), verifier_output=e.get("rendered"),
                       generated_file=m.get("gen_path"), checker_cmd=m.get("cmd"),
                       note="Verus gives no counterexample; this file names the failed obligation and carries the verifier's output.")
        with open(rpath, "w") as f:
            json.dump(rec, f, indent=1, default=str)
        vio_records.append(rec)
        log("VIOLATION property=%s replay=%s%s" % (prop, rpath, suffix))
        log("  obligation: %s" % oid)
    if undecided:
        if not violations:
            rc = 2
        for uu in undecided:
            log("UNDECIDED: %s" % uu[:1500])

    ev = dict(
        property_id=prop, tier=tier, seed=seed, level="proof",
        coverage=dict(
            obligations=obligations, discharged=discharged,
            checker_cmd=" ; ".join(checker_cmds)[:4000] or "none",
            trusted_base=sorted(trusted) + list(P.get("assumptions", [])),
            samples=samples or [dict(note="no obligations ran")],
            rule="one obligation = one function/lemma whose full set of verification conditions (call-site preconditions, "
                 "postconditions, loop invariants, decreases, arithmetic/definedness side conditions) the back end discharged; "
                 "Kani: one obligation = one CBMC property check of a proof_for_contract/proof harness",
            functions_under_contract=sorted(set(functions_under_contract)),
            rewrite_rules_fired={k: dict(count=v, meaning=weave.RULE_DESCR.get(k, "")) for k, v in sorted(rules_fired.items())},
            vacuity_canaries=canary_notes,
            bounded_checks=bounded,
            solver_time_ms=solver_ms,
            backends=sorted({"verus 0.2026.09.13 / z3" for _ in v_units} | {"kani 0.68 / cbmc 6.11" for _ in k_groups}),
            known_findings=[k["what"] for k, _ in known_hits],
            obligations_failing_only_for_known_findings=known_only,
            undecided=undecided,
            clauses_not_claimed=P.get("not_claimed", []),
            exhaustive=False,
        ),
        assumptions=list(P.get("assumptions", [])),
        wall_s=wall,
        violations=len(violations) if rc == 1 else 0,
    )
    # runs against a scratch checkout (VERIF_REPO set, used for mutation testing) must not overwrite the real evidence
    evdir = os.path.join(VERIF, "evidence") if os.path.realpath(REPO) == "/repo" else os.path.join(WORK, "evidence-scratch")
    os.makedirs(evdir, exist_ok=True)
    with open(os.path.join(evdir, prop + ".json"), "w") as f:
        json.dump(ev, f, indent=1, default=str)
    log("%s %s: obligations=%d discharged=%d violations=%d undecided=%d wall=%.1fs rc=%d" % (
        prop, tier, obligations, discharged, len(violations), len(undecided), wall, rc))
    return rc


if __name__ == "__main__":
    sys.exit(main(sys.argv[1:]))
