"""Minimal Rust lexing helpers: comment/string masking, brace matching, item location.

Nothing here understands Rust semantics; it only finds the *text* of items so that the
text handed to the verifier is the text in /repo (see DESIGN.md section 2.1).
"""
import re


class LostAnchor(Exception):
    """An item / pattern the unit file names can no longer be found in /repo."""


def mask(src: str, comment_spans=None) -> str:
    """Return src with comments, string and char literals blanked (same length, newlines kept).
    If comment_spans is a list, (start, end) of every comment is appended to it."""
    out = list(src)
    i, n = 0, len(src)

    def blank(a, b):
        for k in range(a, b):
            if out[k] != "\n":
                out[k] = " "

    while i < n:
        c = src[i]
        if c == "/" and i + 1 < n and src[i + 1] == "/":
            j = src.find("\n", i)
            j = n if j < 0 else j
            blank(i, j)
            if comment_spans is not None:
                comment_spans.append((i, j))
            i = j
        elif c == "/" and i + 1 < n and src[i + 1] == "*":
            depth, j = 1, i + 2
            while j < n and depth:
                if src.startswith("/*", j):
                    depth += 1
                    j += 2
                elif src.startswith("*/", j):
                    depth -= 1
                    j += 2
                else:
                    j += 1
            blank(i, j)
            if comment_spans is not None:
                comment_spans.append((i, j))
            i = j
        elif c == '"' or (c in "rb" and re.match(r'(br|rb|r|b)#*"', src[i:i + 8]) and (i == 0 or not (src[i - 1].isalnum() or src[i - 1] == "_"))):
            m = re.match(r'(br|rb|r|b)?(#*)"', src[i:i + 12])
            raw = m.group(1) and "r" in m.group(1)
            hashes = m.group(2)
            j = i + m.end()
            if raw:
                end = src.find('"' + hashes, j)
                end = n if end < 0 else end + 1 + len(hashes)
            else:
                while j < n and src[j] != '"':
                    j += 2 if src[j] == "\\" else 1
                end = j + 1
            blank(i + (m.end() - 1), end)  # keep prefix letters, blank quotes+content
            out[i + m.end() - 1] = '"'
            if end - 1 < n:
                out[end - 1] = '"'
            i = end
        elif c == "'":
            # char literal or lifetime
            m = re.match(r"'(\\.[^']*|[^\\'])'", src[i:i + 12])
            if m:
                blank(i + 1, i + m.end() - 1)
                i += m.end()
            else:
                i += 1
        else:
            i += 1
    return "".join(out)


OPEN = {"(": ")", "[": "]", "{": "}"}
CLOSE = {v: k for k, v in OPEN.items()}


def match_close(msk: str, i: int) -> int:
    """msk[i] is an opening bracket; return index of its matching closer."""
    stack = []
    for j in range(i, len(msk)):
        ch = msk[j]
        if ch in OPEN:
            stack.append(ch)
        elif ch in CLOSE:
            if not stack:
                raise LostAnchor("unbalanced bracket")
            stack.pop()
            if not stack:
                return j
    raise LostAnchor("unbalanced bracket (eof)")


def depth_at(msk: str, upto: int, start: int = 0) -> int:
    d = 0
    for ch in msk[start:upto]:
        if ch in OPEN:
            d += 1
        elif ch in CLOSE:
            d -= 1
    return d


def find_body_open(msk: str, start: int) -> int:
    """First '{' at bracket depth 0 (parens/brackets) after start; stops at ';' at depth 0 -> -1."""
    d = 0
    j = start
    while j < len(msk):
        ch = msk[j]
        if ch in "([":
            d += 1
        elif ch in ")]":
            d -= 1
        elif ch == "{" and d == 0:
            return j
        elif ch == ";" and d == 0:
            return -1
        j += 1
    return -1


def top_level_positions(msk: str, lo: int, hi: int, pattern: str):
    """Yield match objects of pattern in msk[lo:hi] that sit at brace depth 0 relative to lo."""
    rx = re.compile(pattern)
    depth = 0
    pos = lo
    # precompute depth lazily
    for m in rx.finditer(msk, lo, hi):
        depth += depth_at(msk, m.start(), pos)
        pos = m.start()
        if depth == 0:
            yield m


def line_of(src: str, idx: int) -> int:
    return src.count("\n", 0, idx) + 1


def _impl_blocks(src, msk):
    """Yield (header_text, body_lo, body_hi) for every top-level impl block (not inside mod tests)."""
    for m in top_level_positions(msk, 0, len(msk), r"\bimpl\b"):
        ob = find_body_open(msk, m.end())
        if ob < 0:
            continue
        cb = match_close(msk, ob)
        header = " ".join(msk[m.end():ob].split())
        yield header, ob + 1, cb, m.start()


def _header_matches(header: str, type_name: str, trait_name):
    # strip generics after impl:  impl<'a, T: X> Foo<'a> ...
    h = header
    if h.startswith("<"):
        # skip balanced <...>
        d = 0
        for k, ch in enumerate(h):
            if ch == "<":
                d += 1
            elif ch == ">":
                d -= 1
                if d == 0:
                    h = h[k + 1:].strip()
                    break
    h = h.split(" where ")[0].strip()
    if " for " in h:
        tr, ty = h.split(" for ", 1)
    else:
        tr, ty = None, h
    ty = ty.strip()
    ty_base = re.sub(r"<.*$", "", ty).strip().lstrip("&").strip()
    ty_base = ty_base.split("::")[-1]
    if ty_base != type_name:
        return False
    if trait_name is None:
        return tr is None
    if tr is None:
        return False
    tr_n = " ".join(tr.split())
    want = " ".join(trait_name.split())
    return tr_n == want or re.sub(r"<.*$", "", tr_n).split("::")[-1] == want


def find_item(src: str, path: str):
    """Locate an item; returns dict(kind, name, start, end, sig_start, body_open, body_close, header).

    path forms:  'fn name' | 'struct Name' | 'enum Name' | 'const NAME' | 'type Name'
                 'Type::name' (inherent impl)  |  'Trait for Type::name' (trait impl)
    An optional '#k' suffix picks the k-th match (0-based) when several exist.
    """
    msk = mask(src)
    pick = 0
    mm = re.match(r"^(.*)#(\d+)$", path)
    if mm:
        path, pick = mm.group(1), int(mm.group(2))
    found = []
    m = re.match(r"^(fn|struct|enum|const|type|static)\s+(\w+)$", path.strip())
    if m:
        kind, name = m.groups()
        for mt in top_level_positions(msk, 0, len(msk), r"\b%s\s+%s\b" % (kind, name)):
            found.append((kind, name, mt.start(), None, 0, len(msk)))
    else:
        if "::" not in path:
            raise LostAnchor("bad item path %r" % path)
        tpart, name = path.rsplit("::", 1)
        trait = None
        if " for " in tpart:
            trait, tpart = [s.strip() for s in tpart.split(" for ", 1)]
        tpart = tpart.strip()
        blocks = []
        if tpart.startswith("trait "):
            # default method bodies inside `trait Name { .. }`
            tname = tpart[6:].strip()
            for mt in top_level_positions(msk, 0, len(msk), r"\btrait\s+%s\b" % re.escape(tname)):
                ob = find_body_open(msk, mt.end())
                if ob >= 0:
                    blocks.append(("trait " + tname, ob + 1, match_close(msk, ob), mt.start()))
        else:
            blocks = [b for b in _impl_blocks(src, msk) if _header_matches(b[0], tpart, trait)]
        for header, lo, hi, impl_pos in blocks:
            for mt in top_level_positions(msk, lo, hi, r"\bfn\s+%s\b" % re.escape(name)):
                found.append(("fn", name, mt.start(), header, lo, hi))
    if len(found) <= pick:
        raise LostAnchor("item %r not found (matches: %d)" % (path, len(found)))
    kind, name, kw, header, lo, hi = found[pick]
    # include qualifiers on the same line before the keyword
    ls = src.rfind("\n", 0, kw) + 1
    prefix = msk[ls:kw]
    start = ls if re.match(r"^\s*((pub(\s*\([^)]*\))?|const|unsafe|async|default)\s+)*$", prefix) else kw
    if kind in ("fn",):
        ob = find_body_open(msk, kw)
        if ob < 0:
            raise LostAnchor("fn %r has no body" % path)
        cb = match_close(msk, ob)
        end = cb + 1
    elif kind in ("struct", "enum"):
        ob = find_body_open(msk, kw)
        semi = msk.find(";", kw)
        if ob < 0 or (0 <= semi < ob):
            ob, cb, end = -1, -1, semi + 1
        else:
            cb = match_close(msk, ob)
            end = cb + 1
            # tuple struct: struct X(...);  -> handled by ';' branch above
    else:
        semi = kw
        d = 0
        while semi < len(msk):
            ch = msk[semi]
            if ch in OPEN:
                d += 1
            elif ch in CLOSE:
                d -= 1
            elif ch == ";" and d == 0:
                break
            semi += 1
        ob, cb, end = -1, -1, semi + 1
    # attributes directly above (for derive detection)
    attrs = []
    p = start
    while True:
        prev_nl = src.rfind("\n", 0, p - 1) if p > 0 else -1
        line = src[prev_nl + 1:p - 1] if p > 0 else ""
        s = line.strip()
        if s.startswith("#[") or s.startswith("///") or s.startswith("//"):
            if s.startswith("#["):
                attrs.append(s)
            p = prev_nl + 1
            if p == 0:
                break
        else:
            break
    return dict(kind=kind, name=name, start=start, end=end, kw=kw, body_open=ob, body_close=cb,
                header=header, attrs=attrs, line=line_of(src, start), end_line=line_of(src, end - 1))
