"""Engine K: Kani function contracts / loop-free harnesses on the real crate (DESIGN.md section 3)."""
import json
import os
import re
import subprocess
import time
import hashlib

VERIF = os.path.dirname(os.path.dirname(os.path.abspath(__file__)))
CACHE = os.path.join(VERIF, ".cache")

KANI_BASE = ["cargo", "kani", "-Z", "unstable-options", "--ignore-global-asm", "-Z", "function-contracts", "-Z", "stubbing"]


def _target_dir(repo):
    # /repo has its own target dir; a scratch checkout gets a private one (two cargo-kani runs in one target dir
    # corrupt each other's goto binaries); seeded/benign runners delete it afterwards
    if os.path.realpath(repo) == "/repo":
        return os.path.join(CACHE, "kani-target")
    return os.path.join(CACHE, "kani-target-" + hashlib.sha1(os.path.realpath(repo).encode()).hexdigest()[:8])


def _env():
    env = dict(os.environ)
    env["CARGO_NET_OFFLINE"] = "true"
    return env


def _kill_cbmc():
    subprocess.run(["pkill", "-x", "cbmc"], capture_output=True)


def parse_terse(out):
    """Return {harness: dict(status, checks, failed, cover, failed_checks, time_s)}"""
    res = {}
    cur_by_thread = {}
    lines = out.splitlines()
    i = 0
    single = None
    while i < len(lines):
        ln = lines[i]
        m = re.match(r"^(?:Thread (\d+): )?Checking harness (\S+?)\.\.\.", ln)
        if m:
            th = m.group(1) or "0"
            cur_by_thread[th] = m.group(2)
            single = m.group(2)
            i += 1
            continue
        m = re.match(r"^(?:Thread (\d+): )?\s*$", ln)
        if (m and m.group(1) is not None and i + 1 < len(lines) and lines[i + 1].startswith("VERIFICATION RESULT")) or ln.startswith("VERIFICATION RESULT"):
            th = (m.group(1) if m and m.group(1) is not None else "0")
            h = cur_by_thread.get(th, single)
            j = i + (1 if not ln.startswith("VERIFICATION RESULT") else 0)
            block = []
            while j < len(lines):
                block.append(lines[j])
                if lines[j].startswith("Verification Time"):
                    break
                j += 1
            txt = "\n".join(block)
            d = dict(status="undecided", checks=0, failed=0, cover=None, failed_checks=[], time_s=0.0, raw=txt[-3000:])
            mm = re.search(r"\*\* (\d+) of (\d+) failed", txt)
            if mm:
                d["failed"], d["checks"] = int(mm.group(1)), int(mm.group(2))
            mm = re.search(r"\*\* (\d+) of (\d+) cover properties satisfied", txt)
            if mm:
                d["cover"] = "%s/%s" % (mm.group(1), mm.group(2))
            fc = []
            bl = txt.splitlines()
            for k, l2 in enumerate(bl):
                if l2.startswith("Failed Checks:"):
                    loc = bl[k + 1].strip() if k + 1 < len(bl) and bl[k + 1].strip().startswith("File:") else ""
                    fc.append((l2[len("Failed Checks:"):].strip(), loc))
            d["failed_checks"] = fc
            mm = re.search(r"Verification Time: ([\d\.]+)s", txt)
            if mm:
                d["time_s"] = float(mm.group(1))
            if "VERIFICATION:- SUCCESSFUL" in txt:
                d["status"] = "ok"
            elif "VERIFICATION:- FAILED" in txt:
                d["status"] = "fail"
            if h:
                res[h] = d
            i = j + 1
            continue
        i += 1
    return res


# CBMC/Kani failures that are tool limits rather than property verdicts
TOOL_LIMIT = re.compile(r"(unwinding assertion|unsupported|not currently supported|failed to compute|rust_dealloc|free argument|double free|"
                        r"dereference failure|is not supported|foreign function|caller_location|size_of_val|align_of_val)", re.I)


def run_kani(repo, harnesses, jobs=8, timeout=1800, extra=None):
    cmd = KANI_BASE[:2] + ["--manifest-path", os.path.join(repo, "Cargo.toml"), "--target-dir", _target_dir(repo)] + KANI_BASE[2:] + \
        ["--output-format", "terse", "-j", str(jobs)] + (extra or [])
    for h in harnesses:
        cmd += ["--harness", h]
    cmd += ["--exact"]
    t0 = time.time()
    try:
        p = subprocess.run(cmd, capture_output=True, text=True, timeout=timeout, env=_env(), cwd=repo)
        out = p.stdout + "\n" + p.stderr
        rc = p.returncode
        to = False
    except subprocess.TimeoutExpired as e:
        out = ((e.stdout or b"").decode() if isinstance(e.stdout, bytes) else (e.stdout or "")) + \
              ((e.stderr or b"").decode() if isinstance(e.stderr, bytes) else (e.stderr or ""))
        rc, to = -9, True
        _kill_cbmc()
    return dict(cmd=" ".join(cmd), rc=rc, out=out, timed_out=to, wall_s=round(time.time() - t0, 1))


def playback(repo, harness, timeout=900):
    """Re-run one failing harness with concrete playback; return list of byte vectors or None."""
    cmd = KANI_BASE[:2] + ["--manifest-path", os.path.join(repo, "Cargo.toml"), "--target-dir", _target_dir(repo)] + KANI_BASE[2:] + \
        ["-Z", "concrete-playback", "--concrete-playback=print", "--harness", harness, "--exact"]
    try:
        p = subprocess.run(cmd, capture_output=True, text=True, timeout=timeout, env=_env(), cwd=repo)
    except subprocess.TimeoutExpired:
        _kill_cbmc()
        return None, "playback timed out"
    out = p.stdout
    m = None
    # several tests may be printed (one per cover/assertion); take the first that is not for a cover property
    for blk in re.finditer(r"/// Check for `(\w+)`.*?let concrete_vals: Vec<Vec<u8>> = vec!\[(.*?)\n\s*\];", out, re.S):
        if blk.group(1) != "cover":
            m = blk
            break
    if not m:
        return None, out[-1500:]
    vals = []
    comments = []
    for ln in m.group(2).splitlines():
        ln = ln.strip()
        if ln.startswith("//"):
            comments.append(ln[2:].strip())
        mm = re.match(r"vec!\[([\d,\s]*)\]", ln)
        if mm:
            vals.append([int(x) for x in mm.group(1).split(",") if x.strip()])
    return dict(bytes=vals, pretty=comments), None


RUNNER_MAIN = '''fn main() {
    let a: Vec<String> = std::env::args().collect();
    if a[1] == "bounded" {
        match engeom::verif_kani::bounded::run(&a[2]) {
            None => { println!("BOUNDED-UNKNOWN {}", a[2]); std::process::exit(3); }
            Some(r) => {
                println!("BOUNDED cases={} checks={} failures={} bound={}", r.cases, r.checks, r.failures.len(), r.bound);
                for f in r.failures.iter() { println!("BOUNDED-FAIL {}", f.replace('\\n', " ")); }
                std::process::exit(if r.failures.is_empty() { 0 } else { 1 });
            }
        }
    }
    let name = &a[1];
    let vals: Vec<Vec<u8>> = a[2].split(';').filter(|s| !s.is_empty()).map(|v| v.split(',').filter(|s| !s.is_empty()).map(|b| b.parse().unwrap()).collect()).collect();
    match engeom::verif_kani::replay(name, vals) {
        Ok(m) => { println!("REPLAY-OK {}", m); }
        Err(m) => { println!("REPLAY-FAILED {}", m); std::process::exit(1); }
    }
}
'''


def build_runner(repo, timeout=2400):
    """Build (cached) the native runner against the real crate with --cfg engeom_verif. Returns (path or None, note)."""
    import shutil
    tag = "main" if os.path.realpath(repo) == "/repo" else hashlib.sha1(os.path.realpath(repo).encode()).hexdigest()[:8]
    rdir = os.path.join(CACHE, "replay-" + tag)
    if tag != "main" and os.path.exists(os.path.join(CACHE, "replay-main", "Cargo.lock")) and not os.path.exists(os.path.join(rdir, "Cargo.lock")):
        os.makedirs(rdir, exist_ok=True)
        shutil.copy(os.path.join(CACHE, "replay-main", "Cargo.lock"), os.path.join(rdir, "Cargo.lock"))
    os.makedirs(os.path.join(rdir, "src"), exist_ok=True)
    with open(os.path.join(rdir, "Cargo.toml"), "w") as f:
        f.write('[package]\nname = "vreplay_%s"\nversion = "0.0.0"\nedition = "2021"\n\n[dependencies]\nengeom = { path = "%s" }\n\n[profile.dev]\nopt-level = 1\n\n[workspace]\n' % (tag, os.path.realpath(repo)))
    mainp = os.path.join(rdir, "src", "main.rs")
    if not os.path.exists(mainp) or open(mainp).read() != RUNNER_MAIN:
        with open(mainp, "w") as f:
            f.write(RUNNER_MAIN)
    lock = os.path.join(rdir, "Cargo.lock")
    if not os.path.exists(lock):
        try:
            shutil.copy(os.path.join(repo, "Cargo.lock"), lock)
        except Exception:
            pass
    env = _env()
    env["RUSTFLAGS"] = "--cfg engeom_verif"
    env["CARGO_TARGET_DIR"] = os.path.join(CACHE, "replay-target")
    try:
        b = subprocess.run(["cargo", "build", "--offline", "--quiet"], cwd=rdir, env=env, capture_output=True, text=True, timeout=timeout)
    except subprocess.TimeoutExpired:
        return None, "native runner build timed out"
    if b.returncode != 0:
        errs = [l for l in b.stderr.splitlines() if l.startswith("error")]
        return None, "native runner build failed: " + ("; ".join(errs[:4]) or b.stderr[-800:])
    # one binary per checkout (vreplay_<tag>): parallel checks on different trees share the dependency build only
    return os.path.join(env["CARGO_TARGET_DIR"], "debug", "vreplay_" + tag), "ok"


def native_replay(repo, name, vals, timeout=2400):
    """Re-run a harness body natively on the counterexample bytes."""
    exe, note = build_runner(repo, timeout)
    if exe is None:
        return dict(reproduced=False, note=note)
    arg = ";".join(",".join(str(x) for x in v) for v in vals)
    r = subprocess.run([exe, name, arg], capture_output=True, text=True, timeout=120)
    out = (r.stdout + r.stderr).strip()
    panicked = r.returncode not in (0, 1)
    return dict(reproduced=(r.returncode != 0), output=out[-1500:], panicked=panicked)


def run_bounded(repo, prop, timeout=1800, tier="quick"):
    """Engine B: bounded native checks (kani/harness/bounded/). Returns dict(status, cases, checks, failures, bound)."""
    t0 = time.time()
    exe, note = build_runner(repo)
    if exe is None:
        return dict(status="undecided", reason=note, harness="bounded:" + prop)
    try:
        r = subprocess.run([exe, "bounded", prop], capture_output=True, text=True, timeout=timeout, env=dict(os.environ, VERIF_TIER=tier))
    except subprocess.TimeoutExpired:
        return dict(status="undecided", reason="bounded run timed out", harness="bounded:" + prop)
    out = r.stdout
    m = re.search(r"BOUNDED cases=(\d+) checks=(\d+) failures=(\d+) bound=(.*)", out)
    fails = [l[len("BOUNDED-FAIL "):] for l in out.splitlines() if l.startswith("BOUNDED-FAIL ")]
    if not m:
        # a panic inside the real code on an enumerated input is a failing input as well
        if r.returncode not in (0, 1, 3) and "panicked" in (r.stderr or ""):
            return dict(status="fail", harness="bounded:" + prop, cases=0, checks=0, failures=["the real code panicked on an enumerated input: " + r.stderr.strip()[-600:]], bound="", wall_s=round(time.time() - t0, 1))
        return dict(status="undecided", reason="no BOUNDED line: " + (out + r.stderr)[-400:], harness="bounded:" + prop)
    return dict(status="fail" if fails else "ok", harness="bounded:" + prop, cases=int(m.group(1)), checks=int(m.group(2)),
                failures=fails, bound=m.group(4), wall_s=round(time.time() - t0, 1), cmd="%s bounded %s" % (exe, prop))


def run_groups(prop, entries, tier, repo):
    """entries: list of dicts(harness, function(s), what, replay, bounded, timeout). Returns list of result dicts."""
    if not entries:
        return []
    names = [e["harness"] for e in entries]
    to = max([e.get("timeout", 900) for e in entries]) * (3 if tier == "thorough" else 1)
    run = run_kani(repo, names, jobs=min(8, len(names)), timeout=to + 600)
    parsed = parse_terse(run["out"])
    results = []
    build_failed = ("error: could not compile" in run["out"]) or ("error[E" in run["out"] and not parsed)
    failed_real = []
    for e in entries:
        h = e["harness"]
        base = dict(group=e.get("group", "kani"), harness=h, functions=e.get("functions", []), what=e.get("what", ""),
                    bounded=e.get("bounded"), cmd=run["cmd"], trusted=e.get("trusted", []))
        d = parsed.get(h)
        if d is None:
            why = "kani build failed" if build_failed else ("timeout" if run["timed_out"] else "harness result not found in kani output")
            tail = "\n".join([l for l in run["out"].splitlines() if l.startswith("error")][:5])
            base.update(status="undecided", reason="%s: %s" % (why, tail or run["out"][-600:]))
            results.append(base)
            continue
        base.update(checks=d["checks"], failed=d["failed"], cover=d["cover"], solver_s=d["time_s"])
        if d["status"] == "ok":
            if d["cover"] and d["cover"].split("/")[0] != d["cover"].split("/")[1]:
                base.update(status="undecided", reason="cover property unsatisfied (vacuous harness): %s" % d["cover"])
            else:
                base.update(status="ok")
        elif d["status"] == "fail":
            real = [(c, loc) for c, loc in d["failed_checks"] if not TOOL_LIMIT.search(c)]
            if not real:
                base.update(status="undecided", reason="only tool-limit checks failed: %s" % "; ".join(c for c, _ in d["failed_checks"][:3]))
            else:
                base.update(status="fail", failed_check="; ".join("%s @ %s" % (c, loc) for c, loc in real[:3]), output_tail=d["raw"])
                failed_real.append((base, e))
        else:
            base.update(status="undecided", reason="kani gave no verdict: " + d["raw"][-300:])
        results.append(base)

    # counterexamples: concrete playback (in parallel) + native replay on the real crate (serial: one cargo build)
    def _pb(item):
        base, e = item
        return playback(repo, e["harness"])
    import concurrent.futures as cf
    if failed_real:
        with cf.ThreadPoolExecutor(max_workers=4) as ex:
            pbs = list(ex.map(_pb, failed_real[:6]))
        for (base, e), (cx, err) in zip(failed_real[:6], pbs):
            base["counterexample"] = cx
            if cx and e.get("replay"):
                nr = native_replay(repo, e["replay"], cx["bytes"])
                base["native_replay"] = nr
                if not nr.get("reproduced"):
                    # CBMC float-model imprecision or harness-only artefact: do not raise an alarm
                    base.update(status="undecided", reason="Kani counterexample did not reproduce natively on the real code: %s" % json.dumps(nr)[:400])
            elif cx is None:
                base["native_replay"] = dict(reproduced=False, note="no concrete values from kani: %s" % (err or "")[:300])
        for base, e in failed_real[6:]:
            base["native_replay"] = dict(reproduced=False, note="more than 6 failing harnesses: playback skipped for this one")
    return results
