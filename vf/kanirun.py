"""Kani engine (filled in below)."""


def run_groups(prop, groups, tier, repo):
    return []
