"""Developer loop:  python3 -m vf.dev <unit> [--repo DIR] [--canary] [--keep]
Builds the unit from the repo, runs Verus, prints the verdict and rendered errors (generated file: .work/dev/<unit>.rs)."""
import os
import sys
from . import weave, verusrun
from .rustlex import LostAnchor


def main(argv):
    unit = argv[0]
    repo = "/repo"
    if "--repo" in argv:
        repo = argv[argv.index("--repo") + 1]
    canary = "--canary" in argv
    rlimit = 40
    if "--rlimit" in argv:
        rlimit = int(argv[argv.index("--rlimit") + 1])
    wdir = os.path.join(weave.VERIF, ".work", "dev" + ("_" + str(abs(hash(repo)) % 9973) if repo != "/repo" else ""))
    os.makedirs(wdir, exist_ok=True)
    try:
        gen, info = weave.build_unit(os.path.join(weave.VERIF, "verus", "units", unit + ".rs.tmpl"), repo, canary=canary)
    except LostAnchor as e:
        print("LOST ANCHOR:", e)
        return 2
    gpath = os.path.join(wdir, unit + ("__canary" if canary else "") + ".rs")
    open(gpath, "w").write(gen)
    res = verusrun.run_verus(gpath, rlimit=rlimit, timeout=900)
    an = verusrun.analyse(unit, gen, info, res, repo)
    print("generated:", gpath)
    print("status:", an["status"], "| verified:", an["verified"], "| wall:", an["wall_s"], "s", "|", an["undecided_reason"] or "")
    for e in an["errors"] + an["nonsemantic"]:
        print("-" * 100)
        print("[%s] in %s" % (e["message"], e["function"]))
        print(e["rendered"])
    if an["status"] == "undecided" and not an["nonsemantic"]:
        print(res["stderr_tail"])
    slow = sorted([f for f in an["functions"] if (f["ms"] or 0) > 1500], key=lambda f: -f["ms"])
    for f in slow[:8]:
        print("slow: %s %d ms (rlimit %s) success=%s" % (f["function"], f["ms"], f["rlimit"], f["success"]))
    if canary:
        bad = [f["function"] for f in an["functions"] if f["function"].endswith("__canary") and f["success"]]
        print("VACUOUS canaries:" if bad else "all canaries fail as required", bad)
    return 0 if an["status"] == "ok" else 1


if __name__ == "__main__":
    sys.exit(main(sys.argv[1:]))
