// TRUSTED PRELUDE (C15): std float constants that Verus does not support as paths (R12: `f64::EPSILON` -> vf_f64_epsilon()).
// ASSUMED: the machine epsilon of f64 is 2^-52 (a positive number below 1).
#[verifier::external_body]
pub fn vf_f64_epsilon() -> (r: f64)
    ensures rv(r) == 1real / 4503599627370496real,
{ f64::EPSILON }
