// TRUSTED PRELUDE (C03, Distance2 <-> Distance3): 2D stand-ins next to the 3D ones of prelude/c03_vec.rs D=3, and the
// lifting (x, y) -> (x, y, 0) / dropping (x, y, z) -> (x, y) of engeom's To3D / To2D on nalgebra points and vectors
// (src/common/convert_2d_3d.rs builds them from coordinates: `Point3::new(self.x, self.y, 0.0)`, `Vector2::new(self.x,
// self.y)`; coordinates are outside the abstract vector model, so these four conversions are ASSUMED to be lift / drop).
// ASSUMED:  2D inner product space, only what the Distance clauses need
//   P1  a.b == b.a (2D)           P2  |v| >= 0, |v||v| == v.v (2D)        P3  |v| > 0 ==> vec(unit v) == (1/|v|) v (2D)
//   P4  1 v == v (2D)
//   L1  lift(a - b) == lift(a) - lift(b)          L2  lift(a).lift(b) == a.b          L3  drop(lift(a)) == a
//   L4  drop(a - b) == drop(a) - drop(b)          L5  lift(s a) == s lift(a)
#[verifier::external_body] #[derive(Clone, Copy)] pub struct Vector2 { _p: [f64; 2] }
#[verifier::external_body] #[derive(Clone, Copy)] pub struct UnitVec2 { _p: [f64; 2] }
#[derive(Clone, Copy)] pub struct Point2 { pub coords: Vector2 }

pub uninterp spec fn v2_sub(a: Vector2, b: Vector2) -> Vector2;
pub uninterp spec fn v2_scale(v: Vector2, s: real) -> Vector2;
pub uninterp spec fn v2_dot(a: Vector2, b: Vector2) -> real;
pub uninterp spec fn v2_norm(v: Vector2) -> real;
pub uninterp spec fn v2_unit(v: Vector2) -> UnitVec2;
pub uninterp spec fn u2_vec(u: UnitVec2) -> Vector2;
pub uninterp spec fn lift_v(v: Vector2) -> Vector3;
pub uninterp spec fn drop_v(v: Vector3) -> Vector2;
pub open spec fn p2_sub(a: Point2, b: Point2) -> Vector2 { v2_sub(a.coords, b.coords) }
pub open spec fn u2_ok(u: UnitVec2) -> bool { v2_dot(u2_vec(u), u2_vec(u)) == 1real }
pub open spec fn lift_p(p: Point2) -> Point3 { Point3 { coords: lift_v(p.coords) } }
pub open spec fn drop_p(p: Point3) -> Point2 { Point2 { coords: drop_v(p.coords) } }

pub broadcast axiom fn ax2_dot_sym(a: Vector2, b: Vector2) ensures #[trigger] v2_dot(a, b) == v2_dot(b, a);
pub broadcast axiom fn ax2_norm_nonneg(v: Vector2) ensures #[trigger] v2_norm(v) >= 0real;
pub broadcast axiom fn ax2_norm_sq(v: Vector2) ensures #[trigger] v2_norm(v) * v2_norm(v) == v2_dot(v, v);
pub broadcast axiom fn ax2_unit_vec(v: Vector2) requires v2_norm(v) > 0real ensures #[trigger] u2_vec(v2_unit(v)) == v2_scale(v, 1real / v2_norm(v));
pub broadcast axiom fn ax2_scale_one(v: Vector2) ensures #[trigger] v2_scale(v, 1real) == v;
pub broadcast axiom fn ax_lift_sub(a: Vector2, b: Vector2) ensures #[trigger] lift_v(v2_sub(a, b)) == v_sub(lift_v(a), lift_v(b));
pub broadcast axiom fn ax_lift_dot(a: Vector2, b: Vector2) ensures #[trigger] v_dot(lift_v(a), lift_v(b)) == v2_dot(a, b);
pub broadcast axiom fn ax_drop_lift(a: Vector2) ensures #[trigger] drop_v(lift_v(a)) == a;
pub broadcast axiom fn ax_drop_sub(a: Vector3, b: Vector3) ensures #[trigger] drop_v(v_sub(a, b)) == v2_sub(drop_v(a), drop_v(b));
pub broadcast axiom fn ax_lift_scale(a: Vector2, s: real) ensures #[trigger] lift_v(v2_scale(a, s)) == v_scale(lift_v(a), s);
pub broadcast group lift_axioms { ax2_dot_sym, ax2_norm_nonneg, ax2_norm_sq, ax2_unit_vec, ax2_scale_one, ax_lift_sub, ax_lift_dot, ax_drop_lift, ax_drop_sub, ax_lift_scale }

// ---------------------------------------------------------------- derived (PROVED)
// a 2D unit vector: |u| == 1, re-normalising changes nothing
pub proof fn lemma2_unit_norm(u: Vector2)
    requires v2_dot(u, u) == 1real
    ensures v2_norm(u) == 1real, u2_vec(v2_unit(u)) == u
{
    ax2_norm_sq(u); ax2_norm_nonneg(u);
    lemma_sq_inj(v2_norm(u), 1real);
    ax2_unit_vec(u); ax2_scale_one(u);
}
// the lift of a 2D unit vector is a 3D unit vector, and normalising it changes nothing
pub proof fn lemma_lift_unit(u: Vector2)
    requires v2_dot(u, u) == 1real
    ensures v_dot(lift_v(u), lift_v(u)) == 1real, v_norm(lift_v(u)) == 1real, u_vec(v_unit(lift_v(u))) == lift_v(u)
{
    ax_lift_dot(u, u);
    ax_norm_sq(lift_v(u)); ax_norm_nonneg(lift_v(u));
    lemma_sq_inj(v_norm(lift_v(u)), 1real);
    ax_unit_vec(lift_v(u)); ax_scale_one(lift_v(u));
}

// ---------------------------------------------------------------- exec stand-ins
impl SubSpecImpl<Point2> for Point2 {
    open spec fn obeys_sub_spec() -> bool { true }
    open spec fn sub_req(self, rhs: Point2) -> bool { true }
    open spec fn sub_spec(self, rhs: Point2) -> Vector2 { p2_sub(self, rhs) }
}
impl core::ops::Sub<Point2> for Point2 { type Output = Vector2;
    #[verifier::external_body] fn sub(self, rhs: Point2) -> (r: Vector2) { unimplemented!() } }
pub trait VecLike2 { spec fn vec2(&self) -> Vector2; }
impl VecLike2 for Vector2 { open spec fn vec2(&self) -> Vector2 { *self } }
impl VecLike2 for UnitVec2 { open spec fn vec2(&self) -> Vector2 { u2_vec(*self) } }
impl Vector2 {
    #[verifier::external_body]
    pub fn dot<T: VecLike2>(&self, o: &T) -> (r: f64) ensures rv(r) == v2_dot(*self, o.vec2()) { unimplemented!() }
    // To3D for Vector2 (coordinates): ASSUMED
    #[verifier::external_body]
    pub fn to_3d(&self) -> (r: Vector3) ensures r == lift_v(*self) { unimplemented!() }
}
impl UnitVec2 {
    #[verifier::external_body]
    pub fn into_inner(self) -> (r: Vector2) ensures r == u2_vec(self) { unimplemented!() }
    #[verifier::external_body]
    pub fn dot<T: VecLike2>(&self, o: &T) -> (r: f64) ensures rv(r) == v2_dot(u2_vec(*self), o.vec2()) { unimplemented!() }
    #[verifier::external_body]
    pub fn new_normalize(v: Vector2) -> (r: UnitVec2) ensures r == v2_unit(v) { unimplemented!() }
}
impl Point2 {
    // To3D for Point2 (coordinates): ASSUMED
    #[verifier::external_body]
    pub fn to_3d(&self) -> (r: Point3) ensures r == lift_p(*self) { unimplemented!() }
}
impl Point3 {
    // To2D for Point3 (coordinates): ASSUMED
    #[verifier::external_body]
    pub fn to_2d(&self) -> (r: Point2) ensures r == drop_p(*self) { unimplemented!() }
}
impl UnitVec3 {
    // To2D for UnitVec3: `UnitVec2::new_normalize(Vector2::new(self.x, self.y))` (coordinates): ASSUMED
    #[verifier::external_body]
    pub fn to_2d(&self) -> (r: UnitVec2) ensures r == v2_unit(drop_v(u_vec(*self))) { unimplemented!() }
}
