// TRUSTED PRELUDE (C09): integer powers, panic idioms and a stand-in for nalgebra's DMatrix<f64>.
// ASSUMED CONTRACTS ON DEPENDENCIES ONLY (std f64::powi, std assert_eq!/Option::unwrap panics, nalgebra DMatrix):
//   P1  f64::powi(x, n) for n >= 0 is the n-fold product  pw(x, n)  (real model; pw is DEFINED below, not axiomatised)
//   P2  assert_eq!(a, b) either panics (does not return) or a == b holds afterwards
//   P3  Option::unwrap either panics (does not return) or yields the payload
//   M1  DMatrix::zeros(r, c) has r rows, c columns, all entries 0
//   M2  m[(r, c)] = e / m[(r, c)] += e change exactly that entry (index in range is a precondition: nalgebra panics otherwise)
//   M3  m.try_inverse() on a square matrix returns Some(inv) only if inv is the two-sided inverse of m
//   M4  if inv is the inverse of m (n x n) and b is n x k then p = inv * b is n x k and  m * p == b  entrywise:
//       forall r, c.  sum_{j<n} m[r][j] * p[j][c] == b[r][c]      (real matrix algebra: m (m^-1 b) = b)
//   M5  m.determinant() returns det(m), an uninterpreted function of the matrix
pub open spec fn pw(x: real, k: int) -> real
    decreases k
{ if k <= 0 { 1real } else { x * pw(x, k - 1) } }

#[verifier::external_body]
pub fn vf_powi(x: f64, n: i32) -> (r: f64)
    ensures n >= 0 ==> rv(r) == pw(rv(x), n as int)
{ x.powi(n) }

// R12 target for `assert_eq!(a, b);` : returns only if the two are equal (panic = no return)
#[verifier::external_body]
pub fn vf_assert_eq_usize(a: usize, b: usize)
    ensures a == b
{ assert_eq!(a, b); }

// R12 target for `opt.unwrap()` on a value whose None case is a documented panic
#[verifier::external_body]
pub fn vf_unwrap_or_panic<T>(o: Option<T>) -> (r: T)
    ensures o.is_some(), r == o.unwrap()
{ o.unwrap() }

#[verifier::external_body] pub struct DMatrix { _d: Vec<f64> }
impl DMatrix {
    pub uninterp spec fn at(&self, r: int, c: int) -> real;
    pub uninterp spec fn nrows(&self) -> int;
    pub uninterp spec fn ncols(&self) -> int;
    pub uninterp spec fn is_inverse_of(&self, m: DMatrix) -> bool;

    #[verifier::external_body]
    pub fn zeros(r: usize, c: usize) -> (m: DMatrix)
        ensures m.nrows() == r, m.ncols() == c, forall|i: int, j: int| 0 <= i < r && 0 <= j < c ==> #[trigger] m.at(i, j) == 0real
    { unimplemented!() }
    // R7 target:  m[(r, c)] = e;
    #[verifier::external_body]
    pub fn vset(&mut self, r: usize, c: usize, e: f64)
        requires r < old(self).nrows(), c < old(self).ncols()
        ensures final(self).nrows() == old(self).nrows(), final(self).ncols() == old(self).ncols(),
            final(self).at(r as int, c as int) == rv(e),
            forall|i: int, j: int| !(i == r && j == c) ==> #[trigger] final(self).at(i, j) == old(self).at(i, j)
    { unimplemented!() }
    // R7 target:  m[(r, c)] += e;
    #[verifier::external_body]
    pub fn vadd(&mut self, r: usize, c: usize, e: f64)
        requires r < old(self).nrows(), c < old(self).ncols()
        ensures final(self).nrows() == old(self).nrows(), final(self).ncols() == old(self).ncols(),
            final(self).at(r as int, c as int) == old(self).at(r as int, c as int) + rv(e),
            forall|i: int, j: int| !(i == r && j == c) ==> #[trigger] final(self).at(i, j) == old(self).at(i, j)
    { unimplemented!() }
    // R7 target:  m[(r, c)]  (read)
    #[verifier::external_body]
    pub fn vget(&self, r: usize, c: usize) -> (e: f64)
        requires r < self.nrows(), c < self.ncols()
        ensures rv(e) == self.at(r as int, c as int)
    { unimplemented!() }
    // M5  m.determinant() is SOME function of the matrix (nothing is assumed about its value: in particular not that a small
    //     determinant means a singular matrix)
    pub uninterp spec fn det(&self) -> real;
    #[verifier::external_body]
    pub fn determinant(&self) -> (d: f64)
        requires self.nrows() == self.ncols()
        ensures rv(d) == self.det()
    { unimplemented!() }
    #[verifier::external_body]
    pub fn try_inverse(self) -> (r: Option<DMatrix>)
        requires self.nrows() == self.ncols()
        ensures r.is_some() ==> r.unwrap().is_inverse_of(self)
    { unimplemented!() }
}

// sum_{j<n} m[r][j] * p[j][c]
pub open spec fn mat_row_dot(m: DMatrix, p: DMatrix, r: int, c: int, n: int) -> real
    decreases n
{ if n <= 0 { 0real } else { mat_row_dot(m, p, r, c, n - 1) + m.at(r, n - 1) * p.at(n - 1, c) } }

pub uninterp spec fn mat_mul(a: DMatrix, b: DMatrix) -> DMatrix;
pub axiom fn ax_inverse_product(inv: DMatrix, m: DMatrix, b: DMatrix)
    requires inv.is_inverse_of(m), m.nrows() == m.ncols(), b.nrows() == m.nrows()
    ensures
        mat_mul(inv, b).nrows() == m.nrows() && mat_mul(inv, b).ncols() == b.ncols(),
        forall|r: int, c: int| 0 <= r < m.nrows() && 0 <= c < b.ncols() ==>
            #[trigger] mat_row_dot(m, mat_mul(inv, b), r, c, m.ncols()) == b.at(r, c);

impl MulSpecImpl<DMatrix> for DMatrix {
    open spec fn obeys_mul_spec() -> bool { true }
    open spec fn mul_req(self, rhs: DMatrix) -> bool { true }
    open spec fn mul_spec(self, rhs: DMatrix) -> DMatrix { mat_mul(self, rhs) }
}
impl core::ops::Mul<DMatrix> for DMatrix { type Output = DMatrix;
    #[verifier::external_body] fn mul(self, rhs: DMatrix) -> (r: DMatrix) { unimplemented!() } }

// ---- std iterator sums over f64 slices (R12 targets; assumed std semantics of iter().sum(), map(..).sum(), zip(..))
//   I1  v.iter().sum::<f64>()                         = sum_{i<len} v_i            (left fold from 0.0)
//   I2  v.iter().map(|x| x * x).sum::<f64>()          = sum_{i<len} v_i * v_i
//   I3  a.iter().zip(b.iter()).map(|(x, y)| x * y).sum::<f64>() = sum_{i<min(len a, len b)} a_i * b_i
pub open spec fn seq_sum(s: Seq<f64>, n: int) -> real
    decreases n
{ if n <= 0 { 0real } else { seq_sum(s, n - 1) + rv(s[n - 1]) } }
pub open spec fn seq_sum_prod(a: Seq<f64>, b: Seq<f64>, n: int) -> real
    decreases n
{ if n <= 0 { 0real } else { seq_sum_prod(a, b, n - 1) + rv(a[n - 1]) * rv(b[n - 1]) } }
#[verifier::external_body]
pub fn vf_iter_sum(v: &Vec<f64>) -> (r: f64) ensures rv(r) == seq_sum(v@, v.len() as int) { v.iter().sum::<f64>() }
#[verifier::external_body]
pub fn vf_iter_sum_sq(v: &Vec<f64>) -> (r: f64) ensures rv(r) == seq_sum_prod(v@, v@, v.len() as int) { v.iter().map(|x| x * x).sum::<f64>() }
#[verifier::external_body]
pub fn vf_iter_sum_prod(a: &Vec<f64>, b: &Vec<f64>) -> (r: f64)
    ensures rv(r) == seq_sum_prod(a@, b@, if a.len() <= b.len() { a.len() as int } else { b.len() as int })
{ a.iter().zip(b.iter()).map(|(x, y)| x * y).sum::<f64>() }
