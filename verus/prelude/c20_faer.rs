// TRUSTED PRELUDE (C20): opaque stand-ins for the faer types of conformal.rs (sparse matrices, LU factors, dense matrices,
// triplets) and the std iterator idioms of boundary_first_flatten / inner_vertices.  NOTHING is assumed about the VALUES faer
// computes (factorisation, solves, products): the linear algebra of the flattening is outside every contract here.
//   F1  faer `Triplet { row, col, val }` is a plain record
//   F2  `SparseColMat::sp_lu()` returns Ok or Err (no contract)
//   F3  `Mat::<T>::zeros(r, c)` has r rows and c columns
//   S1  `S.iter().cloned().collect::<HashSet<u32>>()` is the set of the elements of S                       (R12 vf_set_of_slice)
//   S2  `(LO..N as u32).filter(|&i| !SET.contains(&i)).collect::<Vec<u32>>()` lists, in ascending order, exactly the ids in
//       [LO, N) that are not in SET                                                                                (R12 vf_ids_not_in)
//   S3  `V.iter().map(|row| Point2::new(row[0], row[1])).collect()` has one point per row, point k = (row k [0], row k [1])
//                                                                                                           (R8 vf_rows_to_points)
#[verifier::external_body] pub struct SparseMat { _p: [u8; 0] }
#[verifier::external_body] #[verifier::accept_recursive_types(I)] #[verifier::accept_recursive_types(T)] pub struct Lu<I, T> { _p: core::marker::PhantomData<(I, T)> }
#[verifier::external_body] #[verifier::accept_recursive_types(T)] pub struct Mat<T> { _p: core::marker::PhantomData<T> }
impl SparseMat {
    #[verifier::external_body]
    pub fn sp_lu(&self) -> (r: Result<Lu<u32, f64>>) { unimplemented!() }
}
impl<T> Mat<T> {
    pub uninterp spec fn nrows_s(&self) -> nat;
    pub uninterp spec fn ncols_s(&self) -> nat;
    #[verifier::external_body]
    pub fn zeros(r: usize, c: usize) -> (m: Mat<T>) ensures m.nrows_s() == r, m.ncols_s() == c { unimplemented!() }
}
#[derive(Clone, Copy)] pub struct Point2 { pub x: f64, pub y: f64 }
impl Point2 { pub fn new(x: f64, y: f64) -> (r: Point2) ensures r.x == x, r.y == y { Point2 { x, y } } }

#[verifier::external_body]
pub fn vf_set_of_slice(s: &[u32]) -> (r: HashSet<u32>)
    ensures forall|v: u32| r@.contains(v) <==> exists|k: int| 0 <= k < s.len() && #[trigger] s[k] == v,
{ s.iter().cloned().collect() }
#[verifier::external_body]
pub fn vf_ids_not_in(lo: u32, n: u32, set: &HashSet<u32>) -> (r: Vec<u32>)
    ensures
        forall|k: int| 0 <= k < r.len() ==> lo <= (#[trigger] r[k]) < n && !set@.contains(r[k]),
        forall|j: int, k: int| 0 <= j < k < r.len() ==> #[trigger] r[j] < #[trigger] r[k],
        forall|v: u32| lo <= v < n && !set@.contains(v) ==> exists|k: int| 0 <= k < r.len() && #[trigger] r[k] == v,
{ (lo..n).filter(|i| !set.contains(i)).collect() }
// S4 / S5: only reached by a rewrite of boundary_first_flatten that starts the loop at its smallest vertex id (notes/c20_fix.diff)
//   S4  `(0..L.len()).min_by_key(|&k| L[k]).unwrap_or(0)` is a position of L (0 for an empty L)              (R12 vf_argmin_u32)
//   S5  `let mut R = L.clone(); R.rotate_left(M);` (M <= len, std panics otherwise) is a rotation of L: same length, every
//       entry of R is an entry of L and conversely                                                           (R12 vf_rotated_left)
#[verifier::external_body]
pub fn vf_argmin_u32(l: &Vec<u32>) -> (r: usize)
    ensures l.len() == 0 ==> r == 0, l.len() > 0 ==> r < l.len(),
{ (0..l.len()).min_by_key(|&k| l[k]).unwrap_or(0) }
#[verifier::external_body]
pub fn vf_rotated_left(l: &Vec<u32>, mid: usize) -> (r: Vec<u32>)
    requires mid <= l.len(),
    ensures r.len() == l.len(), forall|k: int| 0 <= k < r.len() ==> l@.contains(#[trigger] r[k]), forall|k: int| 0 <= k < l.len() ==> r@.contains(#[trigger] l[k]),
{ let mut r = l.clone(); r.rotate_left(mid); r }
// `V.iter().any(|row| !row[0].is_finite() || !row[1].is_finite())` : no contract (the real model has no non-finite value)
#[verifier::external_body]
pub fn vf_any_row_not_finite(v: &Vec<[f64; 2]>) -> (r: bool) { v.iter().any(|row| !row[0].is_finite() || !row[1].is_finite()) }
#[verifier::external_body]
pub fn vf_rows_to_points(v: &Vec<[f64; 2]>) -> (r: Vec<Point2>)
    ensures r.len() == v.len(), forall|k: int| 0 <= k < v.len() ==> (#[trigger] r[k]).x == v[k][0] && r[k].y == v[k][1],
{ v.iter().map(|row| Point2::new(row[0], row[1])).collect() }
