// TRUSTED PRELUDE (C02, robustness of unit mesh_queries): further nalgebra / std calls that a reasonable rewrite of the
// angle filter may use, so that such a rewrite stays inside the verifier's subset (and is then judged against the
// contract instead of being "undecided").  ASSUMED CONTRACTS, real-number meaning; nothing here models engeom's own code.
// `cos_real` is UNINTERPRETED on purpose: no relation between cosine and v_angle is assumed, so a filter written with
// cosines cannot be PROVED equal to the stated one - it is reported (together with the definedness condition of a
// division by the offset length, which is zero for a query on the surface).
pub uninterp spec fn cos_real(x: real) -> real;
pub assume_specification [f64::cos] (x: f64) -> (r: f64) ensures rv(r) == cos_real(rv(x));
impl UnitVec3 {
    #[verifier::external_body]
    pub fn dot(&self, o: &Vector3) -> (r: f64) ensures rv(r) == v_dot(u_vec(*self), *o) { unimplemented!() }
}
impl Vector3 {
    #[verifier::external_body]
    pub fn norm_squared(&self) -> (r: f64) ensures rv(r) == v_dot(*self, *self) { unimplemented!() }
}
