// TRUSTED PRELUDE (C15): stand-in for parry2d ConvexPolygon -- only `points()` is used by farthest_pair_indices.
#[verifier::external_body] pub struct ConvexPolygon { _p: [u8; 0] }
impl ConvexPolygon {
    pub uninterp spec fn pts(&self) -> Seq<Point2>;
    #[verifier::external_body]
    pub fn points(&self) -> (r: &[Point2]) ensures r@ == self.pts() { unimplemented!() }
}
// parry2d transformation::convex_hull_idx (third party): an UNINTERPRETED function of the point list that reports
// distinct indices of input points. ASSUMED, not proved here: the indices run counter-clockwise around all points.
pub uninterp spec fn hull_idx(points: Seq<Point2>) -> Seq<usize>;
#[verifier::external_body]
pub fn convex_hull_idx(points: &[Point2]) -> (r: Vec<usize>)
    ensures
        r@ == hull_idx(points@),
        r@.len() <= points@.len(),
        forall|k: int| 0 <= k < r@.len() ==> (#[trigger] r@[k] as int) < points@.len(),
{ unimplemented!() }
// std i32::signum
pub assume_specification [i32::signum] (x: i32) -> (r: i32)
    ensures r == (if x > 0 { 1i32 } else if x < 0 { -1i32 } else { 0i32 });
