// TRUSTED PRELUDE (C15): stand-in for parry2d ConvexPolygon -- only `points()` is used by farthest_pair_indices.
#[verifier::external_body] pub struct ConvexPolygon { _p: [u8; 0] }
impl ConvexPolygon {
    pub uninterp spec fn pts(&self) -> Seq<Point2>;
    #[verifier::external_body]
    pub fn points(&self) -> (r: &[Point2]) ensures r@ == self.pts() { unimplemented!() }
}
