// TRUSTED PRELUDE (C14 / C02): stand-ins for the parry3d TriMesh API that engeom's Mesh wraps.
// ASSUMED CONTRACTS ON DEPENDENCIES.  Nothing here models engeom's own code.
//  * the point projection (the pruned BVH search, the cap semantics, the solid flag) is an UNINTERPRETED
//    function of (mesh, point, solid flag, cap): what is assumed is only that the call is a function of its
//    arguments (deterministic) and that a reported face id is a face of the mesh.  Global optimality is NOT stated.
//  * `Triangle::normal()` is an uninterpreted partial function of the triangle (None for a degenerate one).
//  * `Unit::angle` is an uninterpreted function of the two directions.
#[verifier::external_body] pub struct TriMesh { _p: [u8; 0] }
#[verifier::external_body] pub struct UvMapping { _p: [u8; 0] }
impl Clone for TriMesh { #[verifier::external_body] fn clone(&self) -> (r: TriMesh) ensures r == *self { unimplemented!() } }
impl Clone for UvMapping { #[verifier::external_body] fn clone(&self) -> (r: UvMapping) { unimplemented!() } }
#[verifier::external_body] #[derive(Clone, Copy)] pub struct TrianglePointLocation { _p: [u8; 0] }
#[verifier::external_body] #[derive(Clone, Copy)] pub struct Triangle { _p: [u8; 0] }
#[derive(Clone, Copy)] pub struct PointProjection { pub is_inside: bool, pub point: Point3 }

pub uninterp spec fn u_angle(a: UnitVec3, b: UnitVec3) -> real;          // Unit<Vector3>::angle(&Unit<Vector3>)
pub uninterp spec fn uv_angle(a: UnitVec3, b: Vector3) -> real;          // Unit<Vector3> (deref) ::angle(&Vector3)
pub uninterp spec fn t_normal(t: Triangle) -> Option<UnitVec3>;          // parry Triangle::normal()
pub uninterp spec fn pi_real() -> real;
pub uninterp spec fn tm_project(m: &TriMesh, p: Point3, solid: bool) -> (PointProjection, (u32, TrianglePointLocation));
pub uninterp spec fn tm_project_capped(m: &TriMesh, p: Point3, solid: bool, cap: real) -> Option<(PointProjection, (u32, TrianglePointLocation))>;

impl UnitVec3 {
    #[verifier::external_body]
    pub fn angle(&self, o: &UnitVec3) -> (r: f64) ensures rv(r) == u_angle(*self, *o) { unimplemented!() }
}
// R11 target: `normal.angle(&local)` with `local: Vector3` (nalgebra deref of Unit to its vector)
#[verifier::external_body]
pub fn vf_unit_angle_to_vec(n: &UnitVec3, v: &Vector3) -> (r: f64) ensures rv(r) == uv_angle(*n, *v) { unimplemented!() }
// R11 target: std::f64::consts::PI
#[verifier::external_body]
pub fn vf_pi() -> (r: f64) ensures rv(r) == pi_real() { unimplemented!() }

impl Triangle {
    #[verifier::external_body]
    pub fn normal(&self) -> (r: Option<UnitVec3>) ensures r == t_normal(*self) { unimplemented!() }
}

impl TriMesh {
    pub uninterp spec fn verts(&self) -> Seq<Point3>;
    pub uninterp spec fn faces(&self) -> Seq<[u32; 3]>;
    pub uninterp spec fn tri(&self, i: int) -> Triangle;

    #[verifier::external_body]
    pub fn vertices(&self) -> (r: &[Point3]) ensures r@ == self.verts() { unimplemented!() }
    #[verifier::external_body]
    pub fn indices(&self) -> (r: &[[u32; 3]]) ensures r@ == self.faces() { unimplemented!() }
    #[verifier::external_body]
    pub fn triangle(&self, i: u32) -> (r: Triangle)
        requires (i as int) < self.faces().len()          // parry panics otherwise
        ensures r == self.tri(i as int) { unimplemented!() }
    #[verifier::external_body]
    pub fn project_local_point_and_get_location(&self, pt: &Point3, solid: bool) -> (r: (PointProjection, (u32, TrianglePointLocation)))
        ensures r == tm_project(self, *pt, solid), (r.1.0 as int) < self.faces().len() { unimplemented!() }
    #[verifier::external_body]
    pub fn project_local_point_and_get_location_with_max_dist(&self, pt: &Point3, solid: bool, max_dist: f64) -> (r: Option<(PointProjection, (u32, TrianglePointLocation))>)
        ensures r == tm_project_capped(self, *pt, solid, rv(max_dist)), r.is_some() ==> (r.unwrap().1.0 as int) < self.faces().len() { unimplemented!() }
}
// parry addresses vertices and faces with u32 ids
pub broadcast axiom fn ax_trimesh_vlen(m: &TriMesh) ensures #[trigger] m.verts().len() <= u32::MAX;
pub broadcast axiom fn ax_trimesh_flen(m: &TriMesh) ensures #[trigger] m.faces().len() <= u32::MAX;
pub broadcast group c14_mesh_axioms { ax_trimesh_vlen, ax_trimesh_flen }

// parry TriMesh::new (TriMeshFlags::empty()): fails exactly for an empty index buffer (TriMeshBuilderError::EmptyIndices),
// otherwise stores the two buffers unchanged.
#[derive(Debug)] pub struct TriMeshBuilderError;
impl TriMesh {
    #[verifier::external_body]
    pub fn new(vertices: Vec<Point3>, indices: Vec<[u32; 3]>) -> (r: core::result::Result<TriMesh, TriMeshBuilderError>)
        ensures
            r.is_ok() <==> indices@.len() > 0,
            r.is_ok() ==> r.unwrap().verts() == vertices@ && r.unwrap().faces() == indices@,
    { unimplemented!() }
}
