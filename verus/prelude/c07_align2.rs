// TRUSTED PRELUDE (C07, cache coherence of the 2D alignment problem).  Needs prelude/euclid.rs D=2 before it.
// ASSUMED CONTRACTS ON DEPENDENCIES (nalgebra, levenberg-marquardt, std).  Nothing here models engeom's own code.
//  * nalgebra `Isometry2` is an opaque `Iso2`; `&Isometry2 * Point2` is the uninterpreted iso_p, `Isometry2 * Unit<Vector2>`
//    the uninterpreted iso_u, `Isometry2::rotation(a)` the uninterpreted iso_rot(a); `Unit<Vector2>::dot` (deref) is v_dot;
//    std::f64::consts::FRAC_PI_2 is the uninterpreted half_pi_real()
//  * nalgebra `DVector<f64>` is a stand-in `DVec` with a Seq<f64> view: zeros(n), element assignment
//    (R7: `res[i] = e` -> `res.vset(i, e)`, panics out of range), as_slice()
//  * `Vector3<f64>` (T2Storage) and the LM report types are opaque
#[verifier::external_body] #[derive(Clone, Copy)] pub struct Iso2 { _p: [f64; 4] }
pub uninterp spec fn iso_p(t: Iso2, p: Point2) -> Point2;
pub uninterp spec fn iso_u(t: Iso2, u: UnitVec2) -> UnitVec2;
pub uninterp spec fn iso_rot(a: real) -> Iso2;
pub uninterp spec fn half_pi_real() -> real;

// R11 target: `T * p` with T: &Isometry2, p: Point2 (a Mul impl on a reference type trips a Verus internal error)
#[verifier::external_body]
pub fn vf_iso_apply(t: &Iso2, p: Point2) -> (r: Point2) ensures r == iso_p(*t, p) { unimplemented!() }
impl MulSpecImpl<UnitVec2> for Iso2 {
    open spec fn obeys_mul_spec() -> bool { true }
    open spec fn mul_req(self, rhs: UnitVec2) -> bool { true }
    open spec fn mul_spec(self, rhs: UnitVec2) -> UnitVec2 { iso_u(self, rhs) }
}
impl core::ops::Mul<UnitVec2> for Iso2 { type Output = UnitVec2;
    #[verifier::external_body] fn mul(self, rhs: UnitVec2) -> (r: UnitVec2) { unimplemented!() } }
impl Iso2 {
    #[verifier::external_body]
    pub fn rotation(a: f64) -> (r: Iso2) ensures r == iso_rot(rv(a)) { unimplemented!() }
}
// R11 target: std::f64::consts::FRAC_PI_2
#[verifier::external_body]
pub fn vf_frac_pi_2() -> (r: f64) ensures rv(r) == half_pi_real() { unimplemented!() }

// R11 target: `other - self.point` with other: &Point2 (nalgebra `&Point - Point`)
#[verifier::external_body]
pub fn vf_sub_ref(a: &Point2, b: Point2) -> (r: Vector2) ensures r == p_sub(*a, b) { unimplemented!() }

impl UnitVec2 {
    #[verifier::external_body]
    pub fn dot(&self, o: &Vector2) -> (r: f64) ensures rv(r) == v_dot(u_vec(*self), *o) { unimplemented!() }
}

#[verifier::external_body] #[derive(Clone, Copy)] pub struct T2Storage { _p: [f64; 3] }

#[verifier::external_body] pub struct DVec { _v: Vec<f64> }
impl DVec {
    pub uninterp spec fn view(&self) -> Seq<f64>;
    #[verifier::external_body]
    pub fn zeros(n: usize) -> (r: DVec)
        ensures r@.len() == n, forall|i: int| 0 <= i < n ==> rv(#[trigger] r@[i]) == 0real { unimplemented!() }
    #[verifier::external_body]
    pub fn vset(&mut self, i: usize, v: f64)
        requires (i as int) < old(self)@.len()                 // nalgebra panics on an out-of-range index
        ensures final(self)@ == old(self)@.update(i as int, v) { unimplemented!() }
    #[verifier::external_body]
    pub fn as_slice(&self) -> (r: &[f64]) ensures r@ == self@ { unimplemented!() }
}

// levenberg-marquardt 0.14 report types, mirrored variant by variant so that code that matches on the termination reason
// still goes through the verifier; was_successful() is the crate's `matches!(self, ResidualsZero | Orthogonal | Converged{..})`.
// NOTHING is assumed about which reason the driver reports.
pub enum TerminationReason {
    User(&'static str), Numerical(&'static str), ResidualsZero, Orthogonal, Converged { ftol: bool, xtol: bool },
    NoImprovementPossible(&'static str), LostPatience, NoParameters, NoResiduals, WrongDimensions(&'static str),
}
impl TerminationReason {
    #[verifier::external_body]
    pub fn was_successful(&self) -> (r: bool)
        ensures r == (*self is ResidualsZero || *self is Orthogonal || *self is Converged)
    { unimplemented!() }
}
pub struct MinimizationReport { pub termination: TerminationReason, pub number_of_evaluations: usize, pub objective_function: f64 }
pub struct LevenbergMarquardt { _p: u8 }
impl LevenbergMarquardt {
    #[verifier::external_body]
    pub fn new() -> (r: LevenbergMarquardt) { unimplemented!() }
}
