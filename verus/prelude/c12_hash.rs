// TRUSTED PRELUDE (C12): std HashMap/HashSet idioms outside Verus' subset, with ASSUMED std contracts (rule class R12).
// Hash-iteration order is left completely unspecified: every helper returns "some" element / a set, never an order.

use std::collections::{HashMap, HashSet};

// derived Hash/Eq on arrays and tuples of integers are deterministic and agree with ==  (vstd has this for integers only)
pub broadcast axiom fn ax_key_model_u32x2() ensures #[trigger] vstd::std_specs::hash::obeys_key_model::<[u32; 2]>();
pub broadcast axiom fn ax_key_model_u32_pair() ensures #[trigger] vstd::std_specs::hash::obeys_key_model::<(u32, u32)>();
pub broadcast axiom fn ax_key_model_i32_triple() ensures #[trigger] vstd::std_specs::hash::obeys_key_model::<(i32, i32, i32)>();
pub broadcast group c12_key_models { ax_key_model_u32x2, ax_key_model_u32_pair, ax_key_model_i32_triple }

// `m.keys().copied().collect::<HashSet<_>>()` : the key set
#[verifier::external_body]
pub fn vf_keys_to_set(m: &HashMap<u32, u32>) -> (r: HashSet<u32>)
    ensures r@ == m@.dom(),
{ m.keys().copied().collect() }

// `*s.iter().next().unwrap()` : an arbitrary member of a non-empty set (panics on an empty set)
#[verifier::external_body]
pub fn vf_any_elem<K: Copy>(s: &HashSet<K>) -> (r: K)
    requires s@.len() > 0,
    ensures s@.contains(r),
{ *s.iter().next().unwrap() }

// `m.keys().next()` (as Option, copied) : an arbitrary key, None exactly when the map is empty
#[verifier::external_body]
pub fn vf_any_key(m: &HashMap<u32, u32>) -> (r: Option<u32>)
    ensures
        r.is_none() <==> m@.dom().len() == 0,
        r.is_some() ==> m@.contains_key(r.unwrap()),
{ m.keys().next().copied() }

// `<[T]>::reverse()`
pub assume_specification<T> [<[T]>::reverse] (s: &mut [T])
    ensures final(s)@ == old(s)@.reverse();
