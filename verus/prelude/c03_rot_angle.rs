// TRUSTED PRELUDE (C03, on top of prelude/c03_vec.rs D=3): ASSUMED contract of nalgebra's `UnitQuaternion::angle()` (the
// rotation angle in [0, pi]) as read through `iso.rotation.angle()`: it is non-negative, at most pi, and it is ZERO exactly
// for the identity rotation (R v == v for every v).  A small but non-zero angle says nothing about R: a fast path guarded by
// `angle() < eps` cannot be shown to move points by the whole isometry.  Nothing here models engeom's own code.
pub uninterp spec fn rot_angle(r: Rot3) -> real;
pub uninterp spec fn pi_real_c03() -> real;
impl Rot3 {
    #[verifier::external_body]
    pub fn angle(&self) -> (r: f64) ensures rv(r) == rot_angle(*self), 0real <= rv(r) <= pi_real_c03() { unimplemented!() }
}
pub broadcast axiom fn ax_rot_angle_zero(r: Rot3, v: Vector3) requires rot_angle(r) == 0real ensures #[trigger] rot_v(r, v) == v;
// ... hence an isometry whose rotation angle is exactly zero is a pure shift: points get the translation added, unit vectors
// are left as they are
pub broadcast axiom fn ax_rot_angle_zero_p(t: Iso3, p: Point3) requires rot_angle(t.rotation) == 0real ensures #[trigger] iso_p(t, p) == p_add(p, t.translation.vector);
pub broadcast axiom fn ax_rot_angle_zero_u(t: Iso3, u: UnitVec3) requires rot_angle(t.rotation) == 0real ensures #[trigger] iso_u(t, u) == u;
pub broadcast group c03_rot_angle_axioms { ax_rot_angle_zero, ax_rot_angle_zero_p, ax_rot_angle_zero_u }
