// TRUSTED PRELUDE (C20): F1 -- faer `Triplet { row, col, val }` is a plain record, `Triplet::new(row, col, val)` stores its arguments
#[derive(Clone, Copy)] pub struct Triplet<R, C, T> { pub row: R, pub col: C, pub val: T }
impl<R, C, T> Triplet<R, C, T> {
    pub fn new(row: R, col: C, val: T) -> (r: Triplet<R, C, T>) ensures r.row == row, r.col == col, r.val == val { Triplet { row, col, val } }
}
