// TRUSTED PRELUDE (C08, 3D parameter block): stand-ins for nalgebra Point3 / Translation3 / UnitQuaternion / Isometry3 /
// Vector6 and the ASSUMED identities about them.  The rotation group is ABSTRACT: a unit quaternion is an opaque value
// that acts on real 3-vectors through the uninterpreted function rot(q, v); an isometry acts through apply(t, v).
// No trigonometric identity is stated here.  Each assumed identity is an elementary fact of rigid motions:
//  I1  (a * b) acts as a after b:                    apply(a * b, v) == apply(a, apply(b, v))
//  I2  Isometry3::translation(x, y, z) acts as        v -> v + (x, y, z)
//  I3  Isometry3::identity() acts as                  v -> v
//  I4  Isometry3::from_parts(T, q) has translation T and rotation q
//  I5  an isometry acts as its rotation followed by its translation:   apply(t, v) == t.translation + rot(t.rotation, v)
//  I6  t.inverse() undoes t on both sides:            apply(t^-1, apply(t, v)) == v == apply(t, apply(t^-1, v))
//  I7  Isometry3 * Point3 is apply on the coordinates
//  R1  a rotation is additive:                        rot(q, u + v) == rot(q, u) + rot(q, v)
//  V1  Vector6::new / Translation3::new store their arguments in order (x y z w a b = indices 0..5)
pub ghost struct V3r { pub x: real, pub y: real, pub z: real }
pub open spec fn v3(x: real, y: real, z: real) -> V3r { V3r { x, y, z } }
pub open spec fn v_zero() -> V3r { V3r { x: 0real, y: 0real, z: 0real } }
pub open spec fn v_add(a: V3r, b: V3r) -> V3r { V3r { x: a.x + b.x, y: a.y + b.y, z: a.z + b.z } }
pub open spec fn v_sub(a: V3r, b: V3r) -> V3r { V3r { x: a.x - b.x, y: a.y - b.y, z: a.z - b.z } }

#[derive(Clone, Copy)] pub struct Point3 { pub x: f64, pub y: f64, pub z: f64, pub _t: u8 }
#[derive(Clone, Copy)] pub struct Vec3c { pub x: f64, pub y: f64, pub z: f64, pub _t: u8 }
#[derive(Clone, Copy)] pub struct Translation3 { pub vector: Vec3c }
impl Translation3 {
    #[verifier::external_body]
    pub fn new(x: f64, y: f64, z: f64) -> (r: Translation3) ensures r.vector.x == x, r.vector.y == y, r.vector.z == z { unimplemented!() }
}
// Vector6<f64> (T3Storage): six named components, `v[k]` is rewritten to the k-th name (R7)
#[derive(Clone, Copy)] pub struct T3Storage { pub x: f64, pub y: f64, pub z: f64, pub w: f64, pub a: f64, pub b: f64, pub _t: u8 }
impl T3Storage {
    #[verifier::external_body]
    pub fn new(x: f64, y: f64, z: f64, w: f64, a: f64, b: f64) -> (r: T3Storage)
        ensures r.x == x, r.y == y, r.z == z, r.w == w, r.a == a, r.b == b { unimplemented!() }
}
// an abstract rotation
#[verifier::external_body] #[derive(Clone, Copy)] pub struct UnitQuaternion { _p: [f64; 4] }
#[derive(Clone, Copy)] pub struct Iso3 { pub rotation: UnitQuaternion, pub translation: Translation3 }

pub open spec fn pv(p: Point3) -> V3r { v3(rv(p.x), rv(p.y), rv(p.z)) }
pub open spec fn tv(t: Iso3) -> V3r { v3(rv(t.translation.vector.x), rv(t.translation.vector.y), rv(t.translation.vector.z)) }
pub uninterp spec fn rot(q: UnitQuaternion, v: V3r) -> V3r;
pub uninterp spec fn apply(t: Iso3, v: V3r) -> V3r;
// same isometry: same action on every point (real model)
pub open spec fn iso3_same(a: Iso3, b: Iso3) -> bool { forall|v: V3r| #[trigger] apply(a, v) == apply(b, v) }

// I5, R1: used explicitly where needed
pub axiom fn ax_apply_parts(t: Iso3, v: V3r)
    ensures apply(t, v) == v_add(tv(t), rot(t.rotation, v));
pub axiom fn ax_rot_add(q: UnitQuaternion, u: V3r, v: V3r)
    ensures rot(q, v_add(u, v)) == v_add(rot(q, u), rot(q, v));

// I1
pub uninterp spec fn iso3_mul_fn(a: Iso3, b: Iso3) -> Iso3;
pub broadcast axiom fn ax_iso3_mul(a: Iso3, b: Iso3, v: V3r)
    ensures #[trigger] apply(iso3_mul_fn(a, b), v) == apply(a, apply(b, v));
impl MulSpecImpl<Iso3> for Iso3 {
    open spec fn obeys_mul_spec() -> bool { true }
    open spec fn mul_req(self, rhs: Iso3) -> bool { true }
    open spec fn mul_spec(self, rhs: Iso3) -> Iso3 { iso3_mul_fn(self, rhs) }
}
impl core::ops::Mul<Iso3> for Iso3 { type Output = Iso3;
    #[verifier::external_body] fn mul(self, rhs: Iso3) -> (r: Iso3) { unimplemented!() } }
// I7
pub uninterp spec fn iso3_pt_fn(a: Iso3, p: Point3) -> Point3;
pub broadcast axiom fn ax_iso3_pt(a: Iso3, p: Point3)
    ensures pv(#[trigger] iso3_pt_fn(a, p)) == apply(a, pv(p));
impl MulSpecImpl<Point3> for Iso3 {
    open spec fn obeys_mul_spec() -> bool { true }
    open spec fn mul_req(self, rhs: Point3) -> bool { true }
    open spec fn mul_spec(self, rhs: Point3) -> Point3 { iso3_pt_fn(self, rhs) }
}
impl core::ops::Mul<Point3> for Iso3 { type Output = Point3;
    #[verifier::external_body] fn mul(self, rhs: Point3) -> (r: Point3) { unimplemented!() } }
// R11 target: `a * p` with a: &Isometry3, p: &Point3
#[verifier::external_body]
pub fn vf_iso3_pt_ref(a: &Iso3, p: &Point3) -> (r: Point3) ensures r == iso3_pt_fn(*a, *p) { unimplemented!() }
// I6
pub uninterp spec fn iso3_inv_fn(t: Iso3) -> Iso3;
pub broadcast axiom fn ax_iso3_inv_l(t: Iso3, v: V3r)
    ensures #[trigger] apply(iso3_inv_fn(t), apply(t, v)) == v;
pub broadcast axiom fn ax_iso3_inv_r(t: Iso3, v: V3r)
    ensures #[trigger] apply(t, apply(iso3_inv_fn(t), v)) == v;
impl Iso3 {
    // I2
    #[verifier::external_body]
    pub fn translation(x: f64, y: f64, z: f64) -> (r: Iso3)
        ensures forall|v: V3r| #[trigger] apply(r, v) == v_add(v, v3(rv(x), rv(y), rv(z))) { unimplemented!() }
    // I3
    #[verifier::external_body]
    pub fn identity() -> (r: Iso3) ensures forall|v: V3r| #[trigger] apply(r, v) == v { unimplemented!() }
    // I4
    #[verifier::external_body]
    pub fn from_parts(t: Translation3, q: UnitQuaternion) -> (r: Iso3) ensures r.translation == t, r.rotation == q { unimplemented!() }
    // I6
    #[verifier::external_body]
    pub fn inverse(&self) -> (r: Iso3) ensures r == iso3_inv_fn(*self) { unimplemented!() }
}

// ---- Euler angles.  NOTHING trigonometric is modelled: the two compositions are uninterpreted functions of the real
// angle values.  euler_q: engeom's order (rotations.rs, q = Rx * Ry * Rz); rpy_q: nalgebra's from_euler_angles.
pub uninterp spec fn euler_q(a: real, b: real, c: real) -> UnitQuaternion;
pub uninterp spec fn rpy_q(roll: real, pitch: real, yaw: real) -> UnitQuaternion;
impl UnitQuaternion {
    #[verifier::external_body]
    pub fn from_euler_angles(roll: f64, pitch: f64, yaw: f64) -> (r: UnitQuaternion) ensures r == rpy_q(rv(roll), rv(pitch), rv(yaw)) { unimplemented!() }
    // opaque (nothing assumed): present only so that a rewrite which uses them is still decided by the verifier
    #[verifier::external_body]
    pub fn inverse(&self) -> (r: UnitQuaternion) { unimplemented!() }
    #[verifier::external_body]
    pub fn conjugate(&self) -> (r: UnitQuaternion) { unimplemented!() }
}
// ASSUMED ROUND TRIP of the Euler extraction used by param_from_iso3 (nalgebra `euler_angles()` on the tree as found;
// engeom's own `rotations::to_rpy` after the repair of defect D2): the three angles returned compose, through
// from_euler_angles, to a rotation that acts as the given one.  This is trigonometry -- it is NOT proved here; it is
// evaluated by the bounded check only (which REFUTES it for nalgebra's euler_angles at gimbal lock, defect D2).
#[verifier::external_body]
pub fn vf_euler_angles(q: &UnitQuaternion) -> (e: (f64, f64, f64))
    ensures forall|v: V3r| #[trigger] rot(rpy_q(rv(e.0), rv(e.1), rv(e.2)), v) == rot(*q, v)
{ unimplemented!() }

// engeom's RotationMatrices (rotations.rs): r = the three Euler angles, q = their composition; the derivative matrices
// d / rd (calculus) are not modelled.
#[derive(Clone, Copy)] pub struct Euler3 { pub x: f64, pub y: f64, pub z: f64, pub _t: u8 }
#[verifier::external_body] #[derive(Clone, Copy)] pub struct DerivMats { _p: [f64; 54] }
#[derive(Clone, Copy)] pub struct RotationMatrices { pub r: Euler3, pub q: UnitQuaternion, pub d: DerivMats }
