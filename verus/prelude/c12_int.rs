// TRUSTED PRELUDE (C12): assumed contracts of core integer methods that vstd does not specify.
// `i32::abs` : the absolute value (overflows, i.e. panics in debug builds, exactly for i32::MIN)
pub assume_specification [i32::abs] (x: i32) -> (r: i32)
    requires x != i32::MIN,
    ensures r == (if x < 0 { -(x as int) } else { x as int });
