// ---- C11: stand-ins for the Levenberg-Marquardt circle fit (src/geom2/circle2.rs: CircleFit, fit_circle) ----------------
// nalgebra Vector3<f64> (the parameter vector [cx, cy, r]) as a coordinate struct; `x[k]` is rewritten to `x.at(k)` (R11)
#[derive(Clone, Copy)] pub struct Vector3 { pub x: f64, pub y: f64, pub z: f64 }
impl Vector3 {
    pub open spec fn at_spec(self, i: int) -> f64 { if i == 0 { self.x } else if i == 1 { self.y } else { self.z } }
    pub fn new(x: f64, y: f64, z: f64) -> (r: Vector3) ensures r.x == x, r.y == y, r.z == z { Vector3 { x, y, z } }
    // nalgebra's Index panics for i >= 3
    pub fn at(&self, i: usize) -> (r: f64) requires i < 3 ensures r == self.at_spec(i as int) { if i == 0 { self.x } else if i == 1 { self.y } else { self.z } }
}
// nalgebra DVector<f64> (residuals / weights): opaque, no C11 clause mentions its content
#[verifier::external_body] pub struct Residuals { _v: Vec<f64> }
impl Residuals {
    #[verifier::external_body] pub fn zeros(n: usize) -> (r: Residuals) { unimplemented!() }
}
// engeom common::BestFit (plain data)
#[derive(Clone, Copy)] pub enum BestFit { All, Gaussian(f64) }
// levenberg_marquardt::{TerminationReason, MinimizationReport}: only `termination.was_successful()` is used
#[verifier::external_body] pub struct TerminationReason { _t: u8 }
impl TerminationReason {
    #[verifier::external_body] pub fn was_successful(&self) -> (r: bool) { unimplemented!() }
}
pub struct MinimizationReport { pub termination: TerminationReason }
