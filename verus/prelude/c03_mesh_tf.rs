// TRUSTED PRELUDE (C03 / C13, on top of prelude/c02_mesh.rs): ASSUMED contract of parry's `TriMesh::transform_vertices`
// (parry3d-f64 0.18: `self.vertices.iter_mut().for_each(|pt| *pt = transform * *pt)`, then the BVH / topology / pseudo
// normals are rebuilt from the SAME index buffer).  Assumed: vertex i of the result is T * vertex i (the full isometry:
// rotation and translation), the number of vertices is kept (coincident vertices are NOT merged) and the faces are the same
// index triples in the same order.  Nothing here models engeom's own code.
impl TriMesh {
    #[verifier::external_body]
    pub fn transform_vertices(&mut self, transform: &Iso3)
        ensures
            final(self).verts().len() == old(self).verts().len(),
            forall|i: int| 0 <= i < old(self).verts().len() ==> #[trigger] final(self).verts()[i] == iso_p(*transform, old(self).verts()[i]),
            final(self).faces() == old(self).faces(),
    { unimplemented!() }
}
// nalgebra Isometry3 (opaque here): inverse, composition and identity, with the group-action identities ASSUMED
pub uninterp spec fn iso_inv(t: Iso3) -> Iso3;
pub uninterp spec fn iso_mul(t: Iso3, s: Iso3) -> Iso3;
pub uninterp spec fn iso_id() -> Iso3;
pub broadcast axiom fn ax_iso_inv_p(t: Iso3, p: Point3) ensures #[trigger] iso_p(iso_inv(t), iso_p(t, p)) == p;
pub broadcast axiom fn ax_iso_mul_p(t: Iso3, s: Iso3, p: Point3) ensures #[trigger] iso_p(iso_mul(t, s), p) == iso_p(t, iso_p(s, p));
pub broadcast axiom fn ax_iso_id_p(p: Point3) ensures #[trigger] iso_p(iso_id(), p) == p;
impl Iso3 {
    #[verifier::external_body]
    pub fn inverse(&self) -> (r: Iso3) ensures r == iso_inv(*self) { unimplemented!() }
    #[verifier::external_body]
    pub fn identity() -> (r: Iso3) ensures r == iso_id() { unimplemented!() }
}
