// TRUSTED PRELUDE (C05): std idioms outside Verus' subset, with ASSUMED std contracts.

// R12 target: `(E).ceil() as usize`  -- f64::ceil followed by the saturating float->usize cast.
// Assumed std contract (real-number reading): ceil(x) is the smallest integer >= x; the cast saturates at 0 and
// at usize::MAX.
#[verifier::external_body]
pub fn vf_ceil_usize(x: f64) -> (n: usize)
    ensures
        rv(x) <= 0real ==> n == 0,
        0real < rv(x) <= usize::MAX as real ==> (n as real) >= rv(x) && rv(x) > (n as real) - 1real,
        rv(x) > usize::MAX as real ==> n == usize::MAX,
{ unimplemented!() }
