// TRUSTED PRELUDE (C05): std idioms outside Verus' subset, with ASSUMED std contracts.

// R12 target: `(E).ceil() as usize`  -- f64::ceil followed by the saturating float->usize cast.
// Assumed std contract (real-number reading): ceil(x) is the smallest integer >= x; the cast saturates at 0 and
// at usize::MAX.
#[verifier::external_body]
pub fn vf_ceil_usize(x: f64) -> (n: usize)
    ensures
        rv(x) <= 0real ==> n == 0,
        0real < rv(x) <= usize::MAX as real ==> (n as real) >= rv(x) && rv(x) > (n as real) - 1real,
        rv(x) > usize::MAX as real ==> n == usize::MAX,
{ unimplemented!() }

// R4 target: `E as usize` for an f64 E (also `(E).floor() as usize`) -- the float->usize cast truncates toward zero and
// saturates at 0 and usize::MAX.  Assumed std contract (real-number reading); only reached by rewritten code.
#[verifier::external_body]
pub fn vf_f64_to_usize(x: f64) -> (n: usize)
    ensures
        rv(x) < 1real ==> n == 0,
        1real <= rv(x) < usize::MAX as real ==> (n as real) <= rv(x) && rv(x) < (n as real) + 1real,
        rv(x) >= usize::MAX as real ==> n == usize::MAX,
{ unimplemented!() }
// f64::ceil / f64::floor on their own (e.g. `let c = x.ceil(); .. c as usize`): smallest integer >= x / largest <= x
pub assume_specification [f64::ceil] (x: f64) -> (r: f64)
    ensures rv(r) == (-((-rv(x)).floor())) as real;
pub assume_specification [f64::floor] (x: f64) -> (r: f64)
    ensures rv(r) == rv(x).floor() as real;
