// TRUSTED PRELUDE (C13): stand-in for parry's plane/mesh intersection.  Needs prelude/euclid.rs D=3 and prelude/c02_mesh.rs.
// ASSUMED CONTRACT ON A DEPENDENCY (parry3d-f64 0.18 `TriMesh::intersection_with_local_plane`): third-party code, NOT
// verified.  Nothing here models engeom's own code.  What is assumed of an `Intersect(polyline)` answer:
//   (a) it is a function of (mesh, plane normal, plane offset, epsilon): `tm_plane_section`            [determinism]
//   (b) the polyline carries a vertex table and a list of index pairs (one pair per plane-face crossing segment),
//       every index of every pair addresses the vertex table
//   (c) every vertex of the table lies on the plane and on the mesh surface (`sec_on`, an UNINTERPRETED predicate:
//       incidence is parry's business and is only passed through).
// "one index pair per face crossing" and (c) are the geometric bulk of property C13; they are assumptions here.
pub enum IntersectResult<T> { Intersect(T), Negative, Positive }

pub uninterp spec fn tm_plane_section(m: &TriMesh, n: UnitVec3, d: real, eps: real) -> IntersectResult<Polyline>;
pub uninterp spec fn pl_idx(p: &Polyline) -> Seq<[u32; 2]>;                     // Polyline::indices()
pub uninterp spec fn sec_on(m: &TriMesh, n: UnitVec3, d: real, q: Point3) -> bool;  // q is on the plane and on the mesh

pub open spec fn pl_idx_ok(p: &Polyline) -> bool {
    forall|k: int| 0 <= k < pl_idx(p).len() ==> ((#[trigger] pl_idx(p)[k])[0] as int) < p.verts().len() && (pl_idx(p)[k][1] as int) < p.verts().len()
}

impl TriMesh {
    #[verifier::external_body]
    pub fn intersection_with_local_plane(&self, normal: &UnitVec3, bias: f64, epsilon: f64) -> (r: IntersectResult<Polyline>)
        ensures
            r == tm_plane_section(self, *normal, rv(bias), rv(epsilon)),
            r matches IntersectResult::Intersect(pl) ==> pl_idx_ok(&pl)
                && forall|i: int| 0 <= i < pl.verts().len() ==> sec_on(self, *normal, rv(bias), #[trigger] pl.verts()[i]),
    { unimplemented!() }
}

// R11 target: `X.indices()` with X a parry Polyline (the shared Polyline stand-in has no `indices`)
#[verifier::external_body]
pub fn vf_pl_indices(p: &Polyline) -> (r: &[[u32; 2]]) ensures r@ == pl_idx(p) { unimplemented!() }

// `(0..len).collect::<Vec<_>>()` : the identity index vector (only needed so that frags/c12_indices.inc, used `trusted`, compiles)
#[verifier::external_body]
pub fn vf_range_vec(len: usize) -> (r: Vec<usize>)
    ensures r.len() == len, forall|i: int| 0 <= i < len ==> r[i] == i,
{ (0..len).collect::<Vec<_>>() }

// ---- robustness: bounding-box accessors, so that a plane / bounding-box pre-test added to Mesh::section stays inside the
// verifier's subset (and is then judged against the contract instead of being "undecided").  ASSUMED: parry keeps an
// axis-aligned box per mesh (`tm_aabb`, a function of the mesh); NOTHING is assumed about how the box relates to the
// mesh's vertices or to the plane section - an early exit based on it therefore cannot be proved right.
#[derive(Clone, Copy)] pub struct Aabb3 { pub mins: Point3, pub maxs: Point3 }
pub uninterp spec fn tm_aabb(m: &TriMesh) -> Aabb3;
impl TriMesh {
    #[verifier::external_body]
    pub fn local_aabb(&self) -> (r: &Aabb3) ensures *r == tm_aabb(self) { unimplemented!() }
}
