// TRUSTED PRELUDE (C10): stand-ins for the engeom / parry / nalgebra types the airfoil CONTAINER code passes around.
// Everything geometric is OPAQUE here: the units of C10 put the plumbing (reversal, working-end containers, refinement
// stack, camber assembly, orientation, face ordering) under contract, never a numerical search.  Every `axiom fn` /
// `external_body` below is an ASSUMPTION listed in the evidence.

// ---- vectors: negation (the only vector algebra the container code depends on: "reversing a ray flips its direction")
pub uninterp spec fn v_neg(v: Vector2) -> Vector2;
pub broadcast axiom fn ax_neg_neg(v: Vector2) ensures #[trigger] v_neg(v_neg(v)) == v;
pub broadcast axiom fn ax_dot_neg_l(a: Vector2, b: Vector2) ensures #[trigger] v_dot(v_neg(a), b) == -v_dot(a, b);
pub broadcast axiom fn ax_dot_neg_r(a: Vector2, b: Vector2) ensures #[trigger] v_dot(a, v_neg(b)) == -v_dot(a, b);
pub broadcast axiom fn ax_dot_self(a: Vector2) ensures #[trigger] v_dot(a, a) >= 0real;
pub broadcast axiom fn ax_sub_swap(a: Point2, b: Point2) ensures #[trigger] p_sub(a, b) == v_neg(p_sub(b, a));
// position vector of a point (nalgebra `p.coords`)
pub uninterp spec fn p_coords(p: Point2) -> Vector2;
#[verifier::external_body]
pub fn vf_coords(p: &Point2) -> (r: Vector2) ensures r == p_coords(*p) { unimplemented!() }

// ---- AngleDir / rot90: a quarter turn is LINEAR (commutes with negation); nothing else is assumed about it
#[derive(Clone, Copy)]
pub enum AngleDir { Cw, Ccw }
pub uninterp spec fn rot_of(d: AngleDir, v: Vector2) -> Vector2;
pub broadcast axiom fn ax_rot_neg(d: AngleDir, v: Vector2) ensures #[trigger] rot_of(d, v_neg(v)) == v_neg(rot_of(d, v));
// R11 target of `rot90(D) * v`
#[verifier::external_body]
pub fn vf_rot90(d: AngleDir, v: Vector2) -> (r: Vector2) ensures r == rot_of(d, v) { unimplemented!() }

// ---- parry Ray (opaque)
#[verifier::external_body] #[derive(Clone, Copy)] pub struct Ray { _p: [f64; 4] }
pub uninterp spec fn ray_of(origin: Point2, dir: Vector2) -> Ray;
impl Ray {
    #[verifier::external_body]
    pub fn new(origin: Point2, dir: Vector2) -> (r: Ray) ensures r == ray_of(origin, dir) { unimplemented!() }
}

// ---- engeom SpanningRay (geom2/polyline2.rs, opaque): a ray from one side of the section to the other.
// ASSUMED (real model; reversed() = new(origin + dir, origin)): reversing negates the direction and is an involution.
#[verifier::external_body] pub struct SpanningRay { _p: [f64; 4] }
pub uninterp spec fn sr_dir(r: SpanningRay) -> Vector2;
pub uninterp spec fn sr_rev(r: SpanningRay) -> SpanningRay;
pub uninterp spec fn sr_origin(r: SpanningRay) -> Point2;
pub uninterp spec fn sr_symmetry(a: SpanningRay, b: SpanningRay) -> Ray;
pub broadcast axiom fn ax_sr_rev_dir(r: SpanningRay) ensures #[trigger] sr_dir(sr_rev(r)) == v_neg(sr_dir(r));
pub broadcast axiom fn ax_sr_rev_rev(r: SpanningRay) ensures #[trigger] sr_rev(sr_rev(r)) == r;
impl SpanningRay {
    #[verifier::external_body]
    pub fn reversed(&self) -> (r: SpanningRay) ensures r == sr_rev(*self) { unimplemented!() }
    #[verifier::external_body]
    pub fn dir(&self) -> (r: Vector2) ensures r == sr_dir(*self) { unimplemented!() }
    #[verifier::external_body]
    pub fn origin(&self) -> (r: Point2) ensures r == sr_origin(*self) { unimplemented!() }
    #[verifier::external_body]
    pub fn symmetry(&self, other: &SpanningRay) -> (r: Ray) ensures r == sr_symmetry(*self, *other) { unimplemented!() }
}
impl Clone for SpanningRay {
    #[verifier::external_body]
    fn clone(&self) -> (r: SpanningRay) ensures r == *self { unimplemented!() }
}
pub broadcast group c10_vec_axioms { ax_neg_neg, ax_dot_neg_l, ax_dot_neg_r, ax_dot_self, ax_sub_swap, ax_rot_neg, ax_sr_rev_dir, ax_sr_rev_rev }

// ---- engeom Circle2 (centre + parry Ball; the cached box is irrelevant here)
#[derive(Clone, Copy)] pub struct Ball { pub radius: f64, pub _tag: u8 }
#[derive(Clone, Copy)] pub struct Circle2 { pub center: Point2, pub ball: Ball }
impl Circle2 {
    pub fn r(&self) -> (r: f64) ensures r == self.ball.radius { self.ball.radius }
}

// ---- engeom SurfacePoint2: a point with a unit direction
#[derive(Clone, Copy)] pub struct SurfacePoint2 { pub point: Point2, pub normal: UnitVec2 }
impl SurfacePoint2 {
    pub fn new(point: Point2, normal: UnitVec2) -> (r: SurfacePoint2) ensures r.point == point, r.normal == normal { SurfacePoint2 { point, normal } }
    #[verifier::external_body]
    pub fn new_normalize(point: Point2, normal: Vector2) -> (r: SurfacePoint2) ensures r.point == point, r.normal == v_unit(normal) { unimplemented!() }
    // point + normal * distance
    #[verifier::external_body]
    pub fn at_distance(&self, distance: f64) -> (r: Point2) ensures r == p_add(self.point, v_scale(u_vec(self.normal), rv(distance))) { unimplemented!() }
}
// nalgebra Unit::try_new(v, eps): None for (nearly) zero vectors, else the normalised vector
pub uninterp spec fn try_unit_fails(v: Vector2, eps: real) -> bool;
#[verifier::external_body]
pub fn vf_unit_try_new(v: Vector2, eps: f64) -> (r: Option<UnitVec2>)
    ensures r.is_none() == try_unit_fails(v, rv(eps)), r.is_some() ==> r.unwrap() == v_unit(v)
{ unimplemented!() }

// ---- common::points::linear_interpolation_error (distance of p from the line a-b): opaque value
pub uninterp spec fn lin_err(a: Point2, b: Point2, p: Point2) -> real;
#[verifier::external_body]
pub fn linear_interpolation_error(a: &Point2, b: &Point2, p: &Point2) -> (r: f64) ensures rv(r) == lin_err(*a, *b, *p) { unimplemented!() }
#[verifier::external_body]
pub fn dist(a: &Point2, b: &Point2) -> (r: f64) ensures rv(r) == p_dist(*a, *b) { unimplemented!() }

// ---- Curve2 (opaque in the C10 units; its own contracts are C01 / C04 / C05)
#[verifier::external_body] pub struct Curve2 { _p: Vec<Point2> }
#[verifier::external_body] pub struct CurveStation2 { _p: [f64; 4] }
// the curve built from a point list (Curve2::from_points is a FUNCTION of its arguments: assumed determinism)
pub uninterp spec fn curve_built(pts: Seq<Point2>, tol: real, closed: bool) -> Curve2;
pub uninterp spec fn curve_build_fails(pts: Seq<Point2>, tol: real, closed: bool) -> bool;
pub uninterp spec fn curve_reversed(c: Curve2) -> Curve2;
pub uninterp spec fn curve_len(c: Curve2) -> real;
pub uninterp spec fn curve_tol_of(c: Curve2) -> real;
pub uninterp spec fn closest_len(c: Curve2, p: Point2) -> real;      // length along the curve of the point closest to p
pub uninterp spec fn curve_dist(c: Curve2, p: Point2) -> real;       // distance from p to the curve
pub uninterp spec fn span_of(c: Curve2, r: Ray) -> Option<SpanningRay>;
pub uninterp spec fn line_hits(c: Curve2, sp: SurfacePoint2) -> Seq<f64>;   // Curve2 x line intersection parameters
pub uninterp spec fn back_dir_point(c: Curve2) -> SurfacePoint2;     // at_back().direction_point()
pub uninterp spec fn st_len(s: CurveStation2) -> real;
pub uninterp spec fn st_closest(c: Curve2, p: Point2) -> CurveStation2;
pub broadcast axiom fn ax_st_closest(c: Curve2, p: Point2) ensures st_len(#[trigger] st_closest(c, p)) == closest_len(c, p);
pub broadcast group c10_curve_axioms { ax_st_closest }
impl Curve2 {
    #[verifier::external_body]
    pub fn from_points(points: &[Point2], tol: f64, force_closed: bool) -> (r: Result<Curve2>)
        ensures r.is_err() == curve_build_fails(points@, rv(tol), force_closed), r.is_ok() ==> r.unwrap() == curve_built(points@, rv(tol), force_closed),
                // C01 (unit curve2_stations): a built curve has at least two distinct vertices, its length is positive
                r.is_ok() ==> curve_len(r.unwrap()) > 0real
    { unimplemented!() }
    #[verifier::external_body]
    pub fn reversed(&self) -> (r: Curve2) ensures r == curve_reversed(*self) { unimplemented!() }
    #[verifier::external_body]
    pub fn length(&self) -> (r: f64) ensures rv(r) == curve_len(*self) { unimplemented!() }
    // the point tolerance the curve was built with (an opaque value: nothing in the C10 units depends on it)
    #[verifier::external_body]
    pub fn tol(&self) -> (r: f64) ensures rv(r) == curve_tol_of(*self) { unimplemented!() }
    #[verifier::external_body]
    pub fn at_closest_to_point(&self, p: &Point2) -> (r: CurveStation2) ensures r == st_closest(*self, *p) { unimplemented!() }
    #[verifier::external_body]
    pub fn dist_to_point(&self, p: &Point2) -> (r: f64) ensures rv(r) == curve_dist(*self, *p) { unimplemented!() }
    #[verifier::external_body]
    pub fn try_create_spanning_ray(&self, ray: &Ray) -> (r: Option<SpanningRay>) ensures r == span_of(*self, *ray) { unimplemented!() }
    #[verifier::external_body]
    pub fn intersection(&self, sp: &SurfacePoint2) -> (r: Vec<f64>) ensures r@ == line_hits(*self, *sp) { unimplemented!() }
    #[verifier::external_body]
    pub fn vf_back_direction_point(&self) -> (r: SurfacePoint2) ensures r == back_dir_point(*self) { unimplemented!() }
}
impl CurveStation2 {
    #[verifier::external_body]
    pub fn length_along(&self) -> (r: f64) ensures rv(r) == st_len(*self) { unimplemented!() }
}

// ---- std idioms outside Verus' subset (R12), ASSUMED std contracts
// `s.reverse()` on a mutable slice
#[verifier::external_body]
pub fn vf_slice_reverse<T>(s: &mut [T])
    ensures final(s)@ == old(s)@.reverse()
{ s.reverse() }
// `points.into_iter().rev().collect::<Vec<_>>()`
#[verifier::external_body]
pub fn vf_into_reversed<T>(v: Vec<T>) -> (r: Vec<T>) ensures r@ == v@.reverse() { unimplemented!() }
// `a.extend(b)` on Vecs
#[verifier::external_body]
pub fn vf_extend<T>(a: &mut Vec<T>, b: Vec<T>) ensures final(a)@ == old(a)@ + b@ { unimplemented!() }
// `opt.ok_or(<error value>)` (error message dropped, R3)
#[verifier::external_body]
pub fn vf_ok_or<T>(o: Option<T>) -> (r: Result<T>)
    ensures o.is_some() ==> r.is_ok() && r.unwrap() == o.unwrap(), o.is_none() ==> r.is_err()
{ unimplemented!() }
// `xs.iter().max_by(|a, b| a.partial_cmp(b).unwrap())` on f64: std returns the LAST maximum; only maximality is stated
#[verifier::external_body]
pub fn vf_max_f64(xs: &Vec<f64>) -> (r: Option<f64>)
    ensures xs@.len() == 0 ==> r.is_none(),
            xs@.len() > 0 ==> r.is_some() && xs@.contains(r.unwrap()) && forall|i: int| 0 <= i < xs@.len() ==> rv(#[trigger] xs@[i]) <= rv(r.unwrap())
{ unimplemented!() }
// stats::compute_mean: Err on an empty slice, else an opaque value of the slice
pub uninterp spec fn mean_of(s: Seq<f64>) -> real;
#[verifier::external_body]
pub fn compute_mean(values: &Vec<f64>) -> (r: Result<f64>)
    ensures r.is_err() == (values@.len() == 0), r.is_ok() ==> rv(r.unwrap()) == mean_of(values@)
{ unimplemented!() }

// ---- parry ConvexPolygon (only `points()`); engeom geom2::hull::farthest_pair_indices is under contract in unit
// hull_farthest_pair (C15): its postcondition is ASSUMED here (indices in range for a non-empty hull)
#[verifier::external_body] pub struct ConvexPolygon { _p: [u8; 0] }
impl ConvexPolygon {
    pub uninterp spec fn pts(&self) -> Seq<Point2>;
    #[verifier::external_body]
    pub fn points(&self) -> (r: &[Point2]) ensures r@ == self.pts() { unimplemented!() }
}
#[verifier::external_body]
pub fn farthest_pair_indices(hull: &ConvexPolygon) -> (r: (usize, usize))
    requires hull.pts().len() > 0
    ensures (r.0 as int) < hull.pts().len(), (r.1 as int) < hull.pts().len()
{ unimplemented!() }
pub uninterp spec fn mid_of(a: Point2, b: Point2) -> Point2;
#[verifier::external_body]
pub fn mid_point(a: &Point2, b: &Point2) -> (r: Point2) ensures r == mid_of(*a, *b) { unimplemented!() }

// ---- "p is a point of the curve" (UNINTERPRETED) and the ASSUMED contract of Curve2 x line intersection (C06 / parry):
// every reported parameter t gives a point sp.point + t * sp.normal ON the curve
pub uninterp spec fn on_curve(c: Curve2, p: Point2) -> bool;
pub open spec fn sp_at(sp: SurfacePoint2, t: real) -> Point2 { p_add(sp.point, v_scale(u_vec(sp.normal), t)) }
pub broadcast axiom fn ax_hits_on_curve(c: Curve2, sp: SurfacePoint2, i: int)
    requires 0 <= i < line_hits(c, sp).len()
    ensures on_curve(c, sp_at(sp, rv(#[trigger] line_hits(c, sp)[i])));
impl Clone for Curve2 {
    #[verifier::external_body]
    fn clone(&self) -> (r: Curve2) ensures r == *self { unimplemented!() }
}
// engeom Arc2 (opaque) and metrology Distance2 (two end points; the direction is not used here)
#[verifier::external_body] #[derive(Clone, Copy)] pub struct Arc2 { _p: [f64; 5] }
pub struct Distance2 { pub a: Point2, pub b: Point2 }
impl Distance2 {
    pub fn new(a: Point2, b: Point2, direction: Option<UnitVec2>) -> (r: Distance2) ensures r.a == a, r.b == b { Distance2 { a, b } }
}
// `a.extend(b.into_iter().skip(1))` on Vecs
#[verifier::external_body]
pub fn vf_extend_skip1<T>(a: &mut Vec<T>, b: Vec<T>) ensures final(a)@ == old(a)@ + (if b@.len() >= 1 { b@.subrange(1, b@.len() as int) } else { b@ }) { unimplemented!() }
// `xs.iter().min_by(|a, b| a.partial_cmp(b).unwrap())` on f64 (so that a changed selection is still judged)
#[verifier::external_body]
pub fn vf_min_f64(xs: &Vec<f64>) -> (r: Option<f64>)
    ensures xs@.len() == 0 ==> r.is_none(),
            xs@.len() > 0 ==> r.is_some() && xs@.contains(r.unwrap()) && forall|i: int| 0 <= i < xs@.len() ==> rv(#[trigger] xs@[i]) >= rv(r.unwrap())
{ unimplemented!() }
// `v.reverse()` on a Vec
#[verifier::external_body]
pub fn vf_vec_reverse<T>(v: &mut Vec<T>) ensures final(v)@ == old(v)@.reverse() { v.reverse() }
