// TRUSTED PRELUDE (C16, dimension {D}): additions to prelude/euclid.rs used by the deviation / directed-distance units.
// ASSUMED CONTRACTS ON DEPENDENCIES (nalgebra): every axiom below is a theorem of a real inner-product space;
// they are NOT broadcast (scale/negation identities form matching loops): proofs invoke them explicitly.
// engeom's own code is never modelled here.
pub uninterp spec fn u_neg(u: UnitVec{D}) -> UnitVec{D};            // `-u` on Unit<SVector>
pub open spec fn v_neg(v: Vector{D}) -> Vector{D} { v_scale(v, -1real) }

// inner product: symmetric, bilinear
pub axiom fn ax16_dot_sym(a: Vector{D}, b: Vector{D}) ensures v_dot(a, b) == v_dot(b, a);
pub axiom fn ax16_dot_scale_r(a: Vector{D}, b: Vector{D}, s: real) ensures v_dot(a, v_scale(b, s)) == s * v_dot(a, b);
pub axiom fn ax16_dot_scale_l(a: Vector{D}, b: Vector{D}, s: real) ensures v_dot(v_scale(a, s), b) == s * v_dot(a, b);
pub axiom fn ax16_dot_add_r(a: Vector{D}, b: Vector{D}, c: Vector{D}) ensures v_dot(a, v_add(b, c)) == v_dot(a, b) + v_dot(a, c);
// |v|^2 = v.v
pub axiom fn ax16_norm_sq(v: Vector{D}) ensures v_dot(v, v) == v_norm(v) * v_norm(v);
// a - b = -(b - a)
pub axiom fn ax16_sub_anti(a: Point{D}, b: Point{D}) ensures p_sub(a, b) == v_scale(p_sub(b, a), -1real);
// a + (b - a) = b ;  1*v = v ; (s*t)*v = s*(t*v)
pub axiom fn ax16_add_sub(a: Point{D}, b: Point{D}) ensures p_add(a, p_sub(b, a)) == b;
pub axiom fn ax16_scale_one(v: Vector{D}) ensures v_scale(v, 1real) == v;
pub axiom fn ax16_scale_scale(v: Vector{D}, s: real, t: real) ensures v_scale(v_scale(v, s), t) == v_scale(v, s * t);
// the negated unit vector is the unit vector scaled by -1
pub axiom fn ax16_uneg(u: UnitVec{D}) ensures u_vec(u_neg(u)) == v_scale(u_vec(u), -1real);
// normalisation: unit(w) = w / |w| for |w| > 0
pub axiom fn ax16_unit_def(w: Vector{D}) requires v_norm(w) > 0real ensures u_vec(v_unit(w)) == v_scale(w, 1real / v_norm(w));

// ---- operators / methods of the stand-ins that engeom uses in these files
impl NegSpecImpl for UnitVec{D} {
    open spec fn obeys_neg_spec() -> bool { true }
    open spec fn neg_req(self) -> bool { true }
    open spec fn neg_spec(self) -> UnitVec{D} { u_neg(self) }
}
impl core::ops::Neg for UnitVec{D} { type Output = UnitVec{D};
    #[verifier::external_body] fn neg(self) -> (r: UnitVec{D}) { unimplemented!() } }
impl NegSpecImpl for Vector{D} {
    open spec fn obeys_neg_spec() -> bool { true }
    open spec fn neg_req(self) -> bool { true }
    open spec fn neg_spec(self) -> Vector{D} { v_neg(self) }
}
impl core::ops::Neg for Vector{D} { type Output = Vector{D};
    #[verifier::external_body] fn neg(self) -> (r: Vector{D}) { unimplemented!() } }
impl<'a> SubSpecImpl<Point{D}> for &'a Point{D} {
    open spec fn obeys_sub_spec() -> bool { true }
    open spec fn sub_req(self, rhs: Point{D}) -> bool { true }
    open spec fn sub_spec(self, rhs: Point{D}) -> Vector{D} { p_sub(*self, rhs) }
}
impl<'a> core::ops::Sub<Point{D}> for &'a Point{D} { type Output = Vector{D};
    #[verifier::external_body] fn sub(self, rhs: Point{D}) -> (r: Vector{D}) { unimplemented!() } }
impl<'a> AddSpecImpl<Vector{D}> for &'a Point{D} {
    open spec fn obeys_add_spec() -> bool { true }
    open spec fn add_req(self, rhs: Vector{D}) -> bool { true }
    open spec fn add_spec(self, rhs: Vector{D}) -> Point{D} { p_add(*self, rhs) }
}
impl<'a> core::ops::Add<Vector{D}> for &'a Point{D} { type Output = Point{D};
    #[verifier::external_body] fn add(self, rhs: Vector{D}) -> (r: Point{D}) { unimplemented!() } }

// `u.as_ref() * s` (SurfacePoint::at_distance): &Vector * f64
impl<'a> MulSpecImpl<f64> for &'a Vector{D} {
    open spec fn obeys_mul_spec() -> bool { true }
    open spec fn mul_req(self, rhs: f64) -> bool { true }
    open spec fn mul_spec(self, rhs: f64) -> Vector{D} { v_scale(*self, rv(rhs)) }
}
impl<'a> core::ops::Mul<f64> for &'a Vector{D} { type Output = Vector{D};
    #[verifier::external_body] fn mul(self, rhs: f64) -> (r: Vector{D}) { unimplemented!() } }

impl UnitVec{D} {
    #[verifier::external_body]
    pub fn as_ref(&self) -> (r: &Vector{D}) ensures *r == u_vec(*self) { unimplemented!() }
    // `Unit<SVector>` derefs to the vector: `u.dot(&v)`
    #[verifier::external_body]
    pub fn dot(&self, o: &Vector{D}) -> (r: f64) ensures rv(r) == v_dot(u_vec(*self), *o) { unimplemented!() }
    #[verifier::external_body]
    pub fn new_normalize(v: Vector{D}) -> (r: UnitVec{D}) ensures r == v_unit(v) { unimplemented!() }
}
impl Vector{D} {
    // `v.dot(&u)` with `u: Unit<SVector>` (deref coercion of the argument), made explicit by an R11 subst
    #[verifier::external_body]
    pub fn dot_unit(&self, o: &UnitVec{D}) -> (r: f64) ensures rv(r) == v_dot(*self, u_vec(*o)) { unimplemented!() }
    // nalgebra `norm_squared` / `magnitude` / `magnitude_squared`: |v|^2, |v|, |v|^2 (so that a rewrite of a length test
    // in terms of these stays inside the verifier)
    #[verifier::external_body]
    pub fn norm_squared(&self) -> (r: f64) ensures rv(r) == v_norm(*self) * v_norm(*self) { unimplemented!() }
    #[verifier::external_body]
    pub fn magnitude(&self) -> (r: f64) ensures rv(r) == v_norm(*self) { unimplemented!() }
    #[verifier::external_body]
    pub fn magnitude_squared(&self) -> (r: f64) ensures rv(r) == v_norm(*self) * v_norm(*self) { unimplemented!() }
}
// the length test `|v| < 1e-6` in squared form: for t >= 0,  |v|^2 < t^2  <==>  |v| < t   (verified, not assumed)
pub proof fn lemma16_sq_lt(n: real, t: real)
    requires n >= 0real, t >= 0real
    ensures (n * n < t * t) == (n < t), (n * n <= t * t) == (n <= t)
{
    assert((n * n < t * t) == (n < t)) by (nonlinear_arith) requires n >= 0real, t >= 0real;
    assert((n * n <= t * t) == (n <= t)) by (nonlinear_arith) requires n >= 0real, t >= 0real;
}
// |s*v| = |s| |v|
pub axiom fn ax16_norm_scale(v: Vector{D}, s: real) ensures v_norm(v_scale(v, s)) == (if s >= 0real { s } else { -s }) * v_norm(v);
