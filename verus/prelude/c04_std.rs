// TRUSTED PRELUDE (C04): std idioms outside Verus' subset, with ASSUMED std contracts.

// R12 target: `v.reverse();` on a Vec  (std: reverses the order of the elements in place)
#[verifier::external_body]
pub fn vf_reverse<T>(v: &mut Vec<T>)
    ensures final(v)@ == old(v)@.reverse()
{ v.reverse() }

// R12 target: `opt.ok_or(<error value>)`  (error message dropped, R3)
#[verifier::external_body]
pub fn vf_ok_or<T>(o: Option<T>) -> (r: Result<T>)
    ensures o.is_some() ==> r.is_ok() && r.unwrap() == o.unwrap(), o.is_none() ==> r.is_err()
{ unimplemented!() }
