// TRUSTED PRELUDE (C04): std idioms outside Verus' subset, with ASSUMED std contracts.

// R12 target: `v.reverse();` on a Vec  (std: reverses the order of the elements in place)
#[verifier::external_body]
pub fn vf_reverse<T>(v: &mut Vec<T>)
    ensures final(v)@ == old(v)@.reverse()
{ v.reverse() }

// R12 target: `opt.ok_or(<error value>)`  (error message dropped, R3)
#[verifier::external_body]
pub fn vf_ok_or<T>(o: Option<T>) -> (r: Result<T>)
    ensures o.is_some() ==> r.is_ok() && r.unwrap() == o.unwrap(), o.is_none() ==> r.is_err()
{ unimplemented!() }

// Triangle inequality of the Euclidean distance (ASSUMED: inner-product-space fact, not among the axioms of
// prelude/euclid.rs).  Used for "the portion ends within 2 tol of the point at l1".
pub axiom fn ax_triangle(a: Point2, b: Point2, c: Point2)
    ensures p_dist(a, c) <= p_dist(a, b) + p_dist(b, c);

// Walking a segment from the other end (ASSUMED: vector-space fact a + (b-a)*f == b + (a-b)*(1-f), not among the axioms
// of prelude/euclid.rs).  Used for "reversal maps the point at l to the point at L - l".
pub axiom fn ax_lerp_sym(a: Point2, b: Point2, f: real)
    ensures p_lerp(a, b, f) == p_lerp(b, a, 1real - f);
