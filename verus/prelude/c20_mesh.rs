// TRUSTED PRELUDE (C20): stand-in for engeom's Mesh as seen by MeshEdges (only the face list and the vertex COUNT matter to
// the contracts of this property; coordinates enter through MeshEdges::edge_lengths, whose values are decided by C12's
// bounded check).  `MeshEdges::{faces, vertices}` read `self.mesh.shape` (parry TriMesh, third party): their bodies are not
// verified (//@trusted in the units), their contract is "the face list / vertex list of the mesh the table was built from".
#[verifier::external_body] pub struct Mesh { _p: [u8; 0] }
#[verifier::external_body] #[derive(Clone, Copy)] pub struct Point3 { _p: [f64; 3] }
impl Mesh {
    pub uninterp spec fn faces_s(&self) -> Seq<[u32; 3]>;
    pub uninterp spec fn verts_s(&self) -> Seq<Point3>;
    // Mesh::get_patches (edge-connected components, property C12): no contract is used here (only reached by a rewrite of
    // boundary_first_flatten that adds a connectivity test, see notes/c20_fix.diff)
    #[verifier::external_body]
    pub fn get_patches(&self) -> (r: Vec<Vec<usize>>) { unimplemented!() }
}
// parry addresses vertices and faces with u32 ids
pub broadcast axiom fn ax_c20_vlen(m: &Mesh) ensures #[trigger] m.verts_s().len() <= u32::MAX;
pub broadcast axiom fn ax_c20_flen(m: &Mesh) ensures #[trigger] m.faces_s().len() <= u32::MAX;
pub broadcast group c20_mesh_axioms { ax_c20_vlen, ax_c20_flen }
