// TRUSTED PRELUDE: stand-ins for the nalgebra / parry types engeom passes around (dimension {D}).
// ASSUMED CONTRACTS ON DEPENDENCIES: the axioms below are those of a real inner-product space;
// engeom's own code is never modelled here.
#[verifier::external_body] #[derive(Clone, Copy)] pub struct Point{D} { _p: [f64; {D}] }
#[verifier::external_body] #[derive(Clone, Copy)] pub struct Vector{D} { _p: [f64; {D}] }
#[verifier::external_body] #[derive(Clone, Copy)] pub struct UnitVec{D} { _p: [f64; {D}] }

pub uninterp spec fn p_sub(a: Point{D}, b: Point{D}) -> Vector{D};
pub uninterp spec fn p_add(p: Point{D}, v: Vector{D}) -> Point{D};
pub uninterp spec fn v_add(a: Vector{D}, b: Vector{D}) -> Vector{D};
pub uninterp spec fn v_scale(v: Vector{D}, s: real) -> Vector{D};
pub uninterp spec fn v_dot(a: Vector{D}, b: Vector{D}) -> real;
pub uninterp spec fn v_norm(v: Vector{D}) -> real;
pub uninterp spec fn v_unit(v: Vector{D}) -> UnitVec{D};     // Unit::new_normalize
pub uninterp spec fn u_vec(u: UnitVec{D}) -> Vector{D};      // Unit::into_inner
pub open spec fn p_dist(a: Point{D}, b: Point{D}) -> real { v_norm(p_sub(a, b)) }
pub open spec fn p_lerp(a: Point{D}, b: Point{D}, f: real) -> Point{D} { p_add(a, v_scale(p_sub(b, a), f)) }

pub broadcast axiom fn ax_norm_nonneg(v: Vector{D}) ensures #[trigger] v_norm(v) >= 0real;
pub broadcast axiom fn ax_dist_sym(a: Point{D}, b: Point{D}) ensures #[trigger] v_norm(p_sub(a, b)) == v_norm(p_sub(b, a));
pub broadcast axiom fn ax_dist_zero(a: Point{D}) ensures #[trigger] v_norm(p_sub(a, a)) == 0real;
// scale(unit(w), t) == scale(w, t/|w|) for |w| > 0
pub broadcast axiom fn ax_unit_scale(w: Vector{D}, t: real)
    requires v_norm(w) > 0real
    ensures #[trigger] v_scale(u_vec(v_unit(w)), t) == v_scale(w, t / v_norm(w));
pub broadcast axiom fn ax_scale_zero(p: Point{D}, w: Vector{D}) ensures #[trigger] p_add(p, v_scale(w, 0real)) == p;
pub broadcast axiom fn ax_lerp_one(a: Point{D}, b: Point{D}) ensures #[trigger] p_add(a, v_scale(p_sub(b, a), 1real)) == b;
// a point at parameter t along a-b is |t|*|b-a| away from a (t>=0 form used)
pub broadcast axiom fn ax_dist_along(a: Point{D}, w: Vector{D}, s: real, t: real)
    requires s <= t
    ensures #[trigger] v_norm(p_sub(p_add(a, v_scale(w, t)), p_add(a, v_scale(w, s)))) == (t - s) * v_norm(w);
pub broadcast axiom fn ax_unit_norm(w: Vector{D}) requires v_norm(w) > 0real ensures #[trigger] v_norm(u_vec(v_unit(w))) == 1real;
pub broadcast group euclid{D}_axioms { ax_norm_nonneg, ax_dist_sym, ax_dist_zero, ax_unit_scale, ax_scale_zero, ax_lerp_one, ax_dist_along, ax_unit_norm, ax_polyline_len }

impl SubSpecImpl<Point{D}> for Point{D} {
    open spec fn obeys_sub_spec() -> bool { true }
    open spec fn sub_req(self, rhs: Point{D}) -> bool { true }
    open spec fn sub_spec(self, rhs: Point{D}) -> Vector{D} { p_sub(self, rhs) }
}
impl core::ops::Sub<Point{D}> for Point{D} { type Output = Vector{D};
    #[verifier::external_body] fn sub(self, rhs: Point{D}) -> (r: Vector{D}) { unimplemented!() } }
impl<'a, 'b> SubSpecImpl<&'b Point{D}> for &'a Point{D} {
    open spec fn obeys_sub_spec() -> bool { true }
    open spec fn sub_req(self, rhs: &'b Point{D}) -> bool { true }
    open spec fn sub_spec(self, rhs: &'b Point{D}) -> Vector{D} { p_sub(*self, *rhs) }
}
impl<'a, 'b> core::ops::Sub<&'b Point{D}> for &'a Point{D} { type Output = Vector{D};
    #[verifier::external_body] fn sub(self, rhs: &'b Point{D}) -> (r: Vector{D}) { unimplemented!() } }
impl AddSpecImpl<Vector{D}> for Point{D} {
    open spec fn obeys_add_spec() -> bool { true }
    open spec fn add_req(self, rhs: Vector{D}) -> bool { true }
    open spec fn add_spec(self, rhs: Vector{D}) -> Point{D} { p_add(self, rhs) }
}
impl core::ops::Add<Vector{D}> for Point{D} { type Output = Point{D};
    #[verifier::external_body] fn add(self, rhs: Vector{D}) -> (r: Point{D}) { unimplemented!() } }
impl AddSpecImpl<Vector{D}> for Vector{D} {
    open spec fn obeys_add_spec() -> bool { true }
    open spec fn add_req(self, rhs: Vector{D}) -> bool { true }
    open spec fn add_spec(self, rhs: Vector{D}) -> Vector{D} { v_add(self, rhs) }
}
impl core::ops::Add<Vector{D}> for Vector{D} { type Output = Vector{D};
    #[verifier::external_body] fn add(self, rhs: Vector{D}) -> (r: Vector{D}) { unimplemented!() } }
impl MulSpecImpl<f64> for Vector{D} {
    open spec fn obeys_mul_spec() -> bool { true }
    open spec fn mul_req(self, rhs: f64) -> bool { true }
    open spec fn mul_spec(self, rhs: f64) -> Vector{D} { v_scale(self, rv(rhs)) }
}
impl core::ops::Mul<f64> for Vector{D} { type Output = Vector{D};
    #[verifier::external_body] fn mul(self, rhs: f64) -> (r: Vector{D}) { unimplemented!() } }

impl Vector{D} {
    #[verifier::external_body]
    pub fn norm(&self) -> (r: f64) ensures rv(r) == v_norm(*self) { unimplemented!() }
    #[verifier::external_body]
    pub fn dot(&self, o: &Vector{D}) -> (r: f64) ensures rv(r) == v_dot(*self, *o) { unimplemented!() }
}
impl UnitVec{D} {
    #[verifier::external_body]
    pub fn into_inner(self) -> (r: Vector{D}) ensures r == u_vec(self) { unimplemented!() }
}
pub struct Unit;
impl Unit {
    #[verifier::external_body]
    pub fn new_normalize(v: Vector{D}) -> (r: UnitVec{D}) ensures r == v_unit(v) { unimplemented!() }
}

// parry Polyline: only construction from a vertex list (indices None) and vertex access are used
#[verifier::external_body] pub struct Polyline { _v: Vec<Point{D}> }
impl Polyline {
    pub uninterp spec fn verts(&self) -> Seq<Point{D}>;
    #[verifier::external_body]
    pub fn new(pts: Vec<Point{D}>, idx: Option<Vec<[u32; 2]>>) -> (r: Polyline)
        requires idx.is_none()
        ensures r.verts() == pts@ { unimplemented!() }
    #[verifier::external_body]
    pub fn vertices(&self) -> (r: &[Point{D}]) ensures r@ == self.verts() { unimplemented!() }
}
pub broadcast axiom fn ax_polyline_len(p: &Polyline) ensures #[trigger] p.verts().len() <= usize::MAX;
impl Clone for Polyline {
    #[verifier::external_body]
    fn clone(&self) -> (r: Polyline) ensures r.verts() == self.verts() { unimplemented!() }
}
