// TRUSTED PRELUDE (C14): std contract of `<[T]>::to_vec()` -- a copy of the slice (used by reasonable rewrites of the
// selection glue, e.g. "copy the whole mesh when everything is selected")
pub assume_specification<T: Clone> [<[T]>::to_vec] (s: &[T]) -> (r: Vec<T>)
    ensures r@.len() == s@.len(), forall|i: int| 0 <= i < s@.len() ==> cloned(#[trigger] s@[i], r@[i]);
