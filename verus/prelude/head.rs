#![allow(unused_imports, dead_code, unused_variables, unused_mut, unused_parens, private_interfaces)]
use vstd::prelude::*;
use vstd::std_specs::ops::*;
use vstd::std_specs::cmp::*;
use core::cmp::Ordering;
