// TRUSTED PRELUDE (C12, edge table): std iterator / HashMap idioms of edges::{unique_edges, identify_edges} that are outside
// Verus' subset, each replaced by a helper with an ASSUMED std contract (rule class R12/R8).  No hash order is assumed.

// `let c = M.entry(K).or_insert(0); *c += 1;` : the counter of K goes from (absent = 0) to +1   (overflow panics in debug builds)
#[verifier::external_body]
pub fn vf_count_incr(m: &mut HashMap<[u32; 2], usize>, k: [u32; 2])
    requires old(m)@.contains_key(k) ==> old(m)@[k] < usize::MAX,
    ensures final(m)@ == old(m)@.insert(k, (if old(m)@.contains_key(k) { (old(m)@[k] + 1) as usize } else { 1usize })),
{ let c = m.entry(k).or_insert(0); *c += 1; }

// `M.into_iter().collect::<Vec<_>>()` : every (key, value) of the map exactly once, in an UNSPECIFIED order
#[verifier::external_body]
pub fn vf_map_into_vec(m: HashMap<[u32; 2], usize>) -> (r: Vec<([u32; 2], usize)>)
    ensures
        forall|j: int| 0 <= j < r.len() ==> m@.contains_key((#[trigger] r[j]).0) && m@[r[j].0] == r[j].1,
        forall|j1: int, j2: int| 0 <= j1 < j2 < r.len() ==> (#[trigger] r[j1]).0 != (#[trigger] r[j2]).0,
        forall|k: [u32; 2]| #[trigger] m@.contains_key(k) ==> exists|j: int| 0 <= j < r.len() && (#[trigger] r[j]).0 == k,
{ m.into_iter().collect() }

// `V.sort()` on Vec<([u32; 2], usize)> : a permutation of the input (the derived order itself is not needed by any contract)
#[verifier::external_body]
pub fn vf_sort_pairs(v: &mut Vec<([u32; 2], usize)>)
    ensures
        final(v)@.len() == old(v)@.len(),
        forall|x: ([u32; 2], usize)| final(v)@.contains(x) <==> old(v)@.contains(x),
        old(v)@.no_duplicates() ==> final(v)@.no_duplicates(),
{ v.sort() }

// `V.iter().any(|(_, count)| *count > N)`
#[verifier::external_body]
pub fn vf_any_count_gt(v: &Vec<([u32; 2], usize)>, n: usize) -> (r: bool)
    ensures r <==> exists|j: int| 0 <= j < v.len() && (#[trigger] v[j]).1 > n,
{ v.iter().any(|(_, count)| *count > n) }

// `V.iter().enumerate().map(|(i, (edge, _))| (*edge, i)).collect::<HashMap<_, _>>()` : key -> an index holding that key
#[verifier::external_body]
pub fn vf_index_by_key(v: &Vec<([u32; 2], usize)>) -> (r: HashMap<[u32; 2], usize>)
    ensures
        forall|j: int| 0 <= j < v.len() ==> r@.contains_key((#[trigger] v[j]).0),
        forall|k: [u32; 2]| #[trigger] r@.contains_key(k) ==> r@[k] < v.len() && v[r@[k] as int].0 == k,
{ v.iter().enumerate().map(|(i, (edge, _))| (*edge, i)).collect() }

// `V.chunks(3)` on a sequence whose length is a multiple of 3: chunk number c is V[3c .. 3c+3]
#[verifier::external_body]
pub fn vf_chunk3(v: &Vec<[u32; 2]>, c: usize) -> (r: &[[u32; 2]])
    requires 3 * c + 3 <= v.len(),
    ensures r@ == v@.subrange(3 * c as int, 3 * c + 3),
{ &v[3 * c..3 * c + 3] }

// `V.iter().map(|(edge, _)| *edge).collect::<Vec<_>>()`
#[verifier::external_body]
pub fn vf_firsts(v: &Vec<([u32; 2], usize)>) -> (r: Vec<[u32; 2]>)
    ensures r.len() == v.len(), forall|j: int| 0 <= j < v.len() ==> #[trigger] r[j] == v[j].0,
{ v.iter().map(|(edge, _)| *edge).collect() }

// `S.iter().all(|v| M.contains_key(v))` : every member of the set is a key of the map (D7 repair of identify_edges)
#[verifier::external_body]
pub fn vf_all_are_keys(s: &HashSet<u32>, m: &HashMap<u32, u32>) -> (r: bool)
    ensures r <==> forall|v: u32| s@.contains(v) ==> #[trigger] m@.contains_key(v),
{ s.iter().all(|v| m.contains_key(v)) }
