// TRUSTED PRELUDE (C17): "finite" and "NaN" as abstract predicates over the real-number model of f64.
// prelude/f64.rs gives every f64 a real value rv(x) and makes the comparisons total.  The two predicates
// below are kept UNINTERPRETED: they only let contracts say "rejected because not finite", "returns NaN
// outside the domain", and carry the invariant "every stored abscissa is finite" through the code.
// Every axiom / assume_specification / external_body here is an ASSUMPTION (listed in the evidence).
pub uninterp spec fn fin(x: f64) -> bool;   // x is a finite double (not NaN, not +-inf)
pub uninterp spec fn nan(x: f64) -> bool;   // x is a NaN

pub broadcast axiom fn ax_fin_not_nan(x: f64) ensures #[trigger] fin(x) ==> !nan(x);

// std float classification (assumed contracts)
pub assume_specification [f64::is_finite] (x: f64) -> (r: bool) ensures r == fin(x);
pub assume_specification [f64::is_nan] (x: f64) -> (r: bool) ensures r == nan(x);

// R12 target: `f64::NAN`
#[verifier::external_body]
pub fn vf_nan() -> (r: f64) ensures nan(r) { f64::NAN }

// "no overflow" half of the real-number model: finite operands give finite results
pub broadcast axiom fn ax_fin_add(a: f64, b: f64) ensures fin(a) && fin(b) ==> fin(#[trigger] a.add_spec(b));
pub broadcast axiom fn ax_fin_sub(a: f64, b: f64) ensures fin(a) && fin(b) ==> fin(#[trigger] a.sub_spec(b));
pub broadcast axiom fn ax_fin_mul(a: f64, b: f64) ensures fin(a) && fin(b) ==> fin(#[trigger] a.mul_spec(b));
pub broadcast axiom fn ax_fin_div(a: f64, b: f64) ensures fin(a) && fin(b) && rv(b) != 0real ==> fin(#[trigger] a.div_spec(b));

// the literal 1.0 is a finite double (`n as f64 - 1.0` in Series1::resampled_n, `1.0 + ..` in resampled_x)
pub broadcast axiom fn ax_fin_lit_one() ensures #[trigger] fin(1.0f64);

pub broadcast group c17_fin_axioms { ax_fin_not_nan, ax_fin_add, ax_fin_sub, ax_fin_mul, ax_fin_div, ax_fin_lit_one }

// R4 target used by C17 (`usize as f64` is always finite; exactness above 2^53 assumed as in vf_to_f64)
#[verifier::external_body]
pub fn vf_to_f64_fin(n: usize) -> (r: f64) ensures rv(r) == n as real, fin(r) { n as f64 }

// R12 targets: `assert!(c)` and `panic!(..)` become proof obligations (the panic is proved unreachable)
pub fn vf_assert(c: bool) requires c {}
#[verifier::external_body]
pub fn vf_unreachable<T>() -> (r: T) requires false { unreachable!() }

pub open spec fn all_fin(s: Seq<f64>) -> bool { forall|i: int| 0 <= i < s.len() ==> fin(#[trigger] s[i]) }

// R12 targets: inline forms of the two validation idioms (`v.iter().all(|x| x.is_finite())`, `v.windows(2).all(|w| w[0] <= w[1])`,
// `v.iter().any(|x| x.is_nan())`): closures over std iterators, ASSUMED contracts = their documented meaning
#[verifier::external_body]
pub fn vf_all_finite(v: &Vec<f64>) -> (r: bool) ensures r == all_fin(v@) { v.iter().all(|x| x.is_finite()) }
#[verifier::external_body]
pub fn vf_ascending(v: &Vec<f64>) -> (r: bool) ensures r == sorted(v@) { v.windows(2).all(|w| w[0] <= w[1]) }
#[verifier::external_body]
pub fn vf_any_nan(v: &Vec<f64>) -> (r: bool) ensures r == (exists|i: int| 0 <= i < v@.len() && nan(#[trigger] v@[i])) { v.iter().any(|x| x.is_nan()) }

// real min / max
pub open spec fn rmin(a: real, b: real) -> real { if a <= b { a } else { b } }
pub open spec fn rmax(a: real, b: real) -> real { if a >= b { a } else { b } }
