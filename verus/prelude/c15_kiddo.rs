// TRUSTED PRELUDE (C15): stand-in for kiddo's ImmutableKdTree<f64, usize, D, 32> with the SquaredEuclidean metric.
// ASSUMED CONTRACT ON THE DEPENDENCY: the queries return exactly the brute-force answer over the stored points,
// distances are SQUARED Euclidean distances, items are the positions of the points in the slice the tree was
// built from.  `within` is taken as the CLOSED ball (squared distance <= bound), sorted nearest-first.
// (kiddo 5.0.3 leaf code compares with `<` in some SIMD paths and `<=` in the fallback path: points exactly on the
// boundary are outside what this contract can promise about the real dependency.)
pub struct SquaredEuclidean;
#[verifier::external_body] pub struct ImmutableKdTree { _p: [u8; 0] }
// `[f64; D]` coordinate array of a point (`p.coords.into()`)
#[verifier::external_body] #[derive(Clone, Copy)] pub struct KPoint { _p: [f64; {D}] }
pub uninterp spec fn kp_point(k: KPoint) -> Point{D};
#[derive(Clone, Copy)] pub struct NearestNeighbour { pub distance: f64, pub item: usize }
// std::num::NonZero<usize>
#[verifier::external_body] #[derive(Clone, Copy)] pub struct VfNonZero { _p: [u8; 0] }
pub uninterp spec fn nz_val(c: VfNonZero) -> usize;
pub broadcast axiom fn ax_nz_pos(c: VfNonZero) ensures #[trigger] nz_val(c) > 0;

pub open spec fn sqd(a: Point{D}, b: Point{D}) -> real { p_dist(a, b) * p_dist(a, b) }

// R11 target: `P.coords.into()`
#[verifier::external_body]
pub fn vf_coords(p: &Point{D}) -> (r: KPoint) ensures kp_point(r) == *p { unimplemented!() }

impl ImmutableKdTree {
    pub uninterp spec fn pts(&self) -> Seq<Point{D}>;

    #[verifier::external_body]
    pub fn new_from_slice(entries: &Vec<KPoint>) -> (r: ImmutableKdTree)
        ensures r.pts().len() == entries@.len(), forall|i: int| 0 <= i < entries@.len() ==> #[trigger] r.pts()[i] == kp_point(entries@[i])
    { unimplemented!() }

    #[verifier::external_body]
    pub fn size(&self) -> (r: usize) ensures r == self.pts().len() { unimplemented!() }

    #[verifier::external_body]
    pub fn nearest_one<M>(&self, q: &KPoint) -> (r: NearestNeighbour)
        requires self.pts().len() > 0
        ensures
            (r.item as int) < self.pts().len(),
            rv(r.distance) == sqd(self.pts()[r.item as int], kp_point(*q)),
            forall|j: int| 0 <= j < self.pts().len() ==> rv(r.distance) <= sqd(#[trigger] self.pts()[j], kp_point(*q)),
    { unimplemented!() }

    #[verifier::external_body]
    pub fn nearest_n<M>(&self, q: &KPoint, count: VfNonZero) -> (r: Vec<NearestNeighbour>)
        ensures
            r@.len() == (if (nz_val(count) as int) < self.pts().len() { nz_val(count) as int } else { self.pts().len() as int }),
            forall|k: int| 0 <= k < r@.len() ==> ((#[trigger] r@[k]).item as int) < self.pts().len()
                && rv(r@[k].distance) == sqd(self.pts()[r@[k].item as int], kp_point(*q)),
            forall|k1: int, k2: int| 0 <= k1 < k2 < r@.len() ==> (#[trigger] r@[k1]).item != (#[trigger] r@[k2]).item
                && rv(r@[k1].distance) <= rv(r@[k2].distance),
            // every point that is not reported is at least as far as every reported one
            forall|j: int, k: int| 0 <= j < self.pts().len() && 0 <= k < r@.len()
                && (forall|k2: int| 0 <= k2 < r@.len() ==> (#[trigger] r@[k2]).item != j)
                ==> rv((#[trigger] r@[k]).distance) <= sqd(#[trigger] self.pts()[j], kp_point(*q)),
    { unimplemented!() }

    #[verifier::external_body]
    pub fn within<M>(&self, q: &KPoint, dist: f64) -> (r: Vec<NearestNeighbour>)
        ensures
            forall|k: int| 0 <= k < r@.len() ==> ((#[trigger] r@[k]).item as int) < self.pts().len()
                && rv(r@[k].distance) == sqd(self.pts()[r@[k].item as int], kp_point(*q))
                && rv(r@[k].distance) <= rv(dist),
            forall|j: int| 0 <= j < self.pts().len() && sqd(#[trigger] self.pts()[j], kp_point(*q)) <= rv(dist)
                ==> exists|k: int| 0 <= k < r@.len() && (#[trigger] r@[k]).item == j,
            forall|k1: int, k2: int| 0 <= k1 < k2 < r@.len() ==> (#[trigger] r@[k1]).item != (#[trigger] r@[k2]).item
                && rv(r@[k1].distance) <= rv(r@[k2].distance),
    { unimplemented!() }
}

// assumed std contract
pub assume_specification<T: Clone> [<[T]>::to_vec] (s: &[T]) -> (r: Vec<T>)
    ensures r@ == s@;
