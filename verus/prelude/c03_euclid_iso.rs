// TRUSTED PRELUDE (C03 on top of prelude/euclid.rs D={D}): a rigid motion acting on points.
// ASSUMED:  E1  |T(a) - T(b)| == |a - b|   (an isometry preserves distances)
// (`pts_sep` and the de-duplication semantics used by Curve{D}::from_points are those of frags/curve{D}_types.inc; from_points
// itself is used through its core contract, frags/curve{D}_core.inc, verified by unit curve{D}_stations.)
#[verifier::external_body] #[derive(Clone, Copy)] pub struct Iso{D} { _p: [u8; 0] }
pub uninterp spec fn iso_p(t: Iso{D}, p: Point{D}) -> Point{D};
pub broadcast axiom fn ax_iso_dist(t: Iso{D}, a: Point{D}, b: Point{D}) ensures #[trigger] v_norm(p_sub(iso_p(t, a), iso_p(t, b))) == v_norm(p_sub(a, b));
pub broadcast group iso{D}_axioms { ax_iso_dist }
// `iso * p` for `&Iso * &Point` (a Mul impl on two references trips a Verus internal error: R11 rewrite to this helper)
#[verifier::external_body]
pub fn vf_iso_apply(t: &Iso{D}, p: &Point{D}) -> (r: Point{D}) ensures r == iso_p(*t, *p) { unimplemented!() }
