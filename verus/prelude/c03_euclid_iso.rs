// TRUSTED PRELUDE (C03 on top of prelude/euclid.rs D={D}): a rigid motion acting on points, and the exact std semantics of
// `Vec::dedup_by(|a, b| dist(a, b) <= tol)` on a list whose consecutive elements are already more than tol apart.
// ASSUMED:  E1  |T(a) - T(b)| == |a - b|   (an isometry preserves distances)
//           the de-duplication clauses of frags/curve{D}_types.inc (vf_dedup_by_dist) PLUS: if every element is more than
//           tol away from its predecessor, nothing is removed (dedup_by removes an element only when the closure holds
//           for it and the last retained element).
#[verifier::external_body] #[derive(Clone, Copy)] pub struct Iso{D} { _p: [u8; 0] }
pub uninterp spec fn iso_p(t: Iso{D}, p: Point{D}) -> Point{D};
pub broadcast axiom fn ax_iso_dist(t: Iso{D}, a: Point{D}, b: Point{D}) ensures #[trigger] v_norm(p_sub(iso_p(t, a), iso_p(t, b))) == v_norm(p_sub(a, b));
pub broadcast group iso{D}_axioms { ax_iso_dist }
// `iso * p` for `&Iso * &Point` (a Mul impl on two references trips a Verus internal error: R11 rewrite to this helper)
#[verifier::external_body]
pub fn vf_iso_apply(t: &Iso{D}, p: &Point{D}) -> (r: Point{D}) ensures r == iso_p(*t, *p) { unimplemented!() }

// consecutive points are more than tol apart
pub open spec fn pts_sep(s: Seq<Point{D}>, tol: real) -> bool {
    forall|i: int| 0 <= i < s.len() - 1 ==> p_dist(#[trigger] s[i + 1], s[i]) > tol
}
pub uninterp spec fn vf_dedup_src_c03(old: Seq<Point{D}>, tol: f64, i: int) -> int;
#[verifier::external_body]
pub fn vf_dedup_by_dist_c03(pts: &mut Vec<Point{D}>, tol: f64)
    ensures
        final(pts).len() <= old(pts).len(),
        old(pts).len() > 0 ==> final(pts).len() > 0 && final(pts)[0] == old(pts)[0],
        pts_sep(final(pts)@, rv(tol)),
        forall|i: int| 0 <= i < final(pts).len() ==> 0 <= #[trigger] vf_dedup_src_c03(old(pts)@, tol, i) < old(pts).len()
            && final(pts)[i] == old(pts)[vf_dedup_src_c03(old(pts)@, tol, i)],
        // nothing to remove: the list is returned unchanged
        pts_sep(old(pts)@, rv(tol)) ==> final(pts)@ == old(pts)@,
{ unimplemented!() }
