// TRUSTED PRELUDE (C19), 3D only, on top of prelude/c03_vec.rs D=3: the cross product.
//   X1  (a x b).a == 0        X2  (a x b).b == 0        (the cross product is perpendicular to both factors)
pub uninterp spec fn v_cross(a: Vector3, b: Vector3) -> Vector3;
pub broadcast axiom fn ax_cross_perp_l(a: Vector3, b: Vector3) ensures #[trigger] v_dot(v_cross(a, b), a) == 0real;
pub broadcast axiom fn ax_cross_perp_r(a: Vector3, b: Vector3) ensures #[trigger] v_dot(v_cross(a, b), b) == 0real;
pub broadcast group cross3_axioms { ax_cross_perp_l, ax_cross_perp_r }
impl Vector3 {
    #[verifier::external_body]
    pub fn cross(&self, o: &Vector3) -> (r: Vector3) ensures r == v_cross(*self, *o) { unimplemented!() }
}
