// TRUSTED PRELUDE (C19 planes), on top of prelude/c03_vec.rs D=3: guarded normalisation and the world axes as units.
// ASSUMED (nalgebra):
//   Unit::try_new(v, min_norm) is None exactly when |v| <= min_norm (it compares |v|^2 > min_norm^2, min_norm >= 0) and
//   Some(v / |v|) -- the value new_normalize gives -- otherwise;
//   Vector3::{x,y,z}_axis() are three fixed unit vectors (u_ok); nothing else is assumed about them.
pub uninterp spec fn world_axis_u(i: int) -> UnitVec3;
pub broadcast axiom fn ax_world_axis_ok(i: int) ensures u_ok(#[trigger] world_axis_u(i));
impl UnitVec3 {
    #[verifier::external_body]
    pub fn try_new(v: Vector3, min_norm: f64) -> (r: Option<UnitVec3>)
        requires rv(min_norm) >= 0real,
        ensures r.is_some() <==> v_norm(v) > rv(min_norm),
            r.is_some() ==> r.unwrap() == v_unit(v),
    { unimplemented!() }
}
impl Unit {
    #[verifier::external_body]
    pub fn try_new(v: Vector3, min_norm: f64) -> (r: Option<UnitVec3>)
        requires rv(min_norm) >= 0real,
        ensures r.is_some() <==> v_norm(v) > rv(min_norm),
            r.is_some() ==> r.unwrap() == v_unit(v),
    { unimplemented!() }
}
impl Vector3 {
    #[verifier::external_body]
    pub fn x_axis() -> (r: UnitVec3) ensures r == world_axis_u(0), u_ok(r) { unimplemented!() }
    #[verifier::external_body]
    pub fn y_axis() -> (r: UnitVec3) ensures r == world_axis_u(1), u_ok(r) { unimplemented!() }
    #[verifier::external_body]
    pub fn z_axis() -> (r: UnitVec3) ensures r == world_axis_u(2), u_ok(r) { unimplemented!() }
}
// R12: `opt.unwrap_or_else(F)` with F a nullary constructor path or `|| E` is rewritten to this helper applied to the
// eagerly evaluated default (same value: the default expression is pure)
pub fn vf_unwrap_or<T>(o: Option<T>, dflt: T) -> (r: T)
    ensures o.is_some() ==> r == o.unwrap(), o.is_none() ==> r == dflt,
{
    match o { Some(v) => v, None => dflt }
}
