// TRUSTED PRELUDE (C02 / C13, meshes): stand-ins for the parry3d TriMesh API that engeom's Mesh wraps.
// Needs prelude/euclid.rs D=3 and prelude/c02_project.rs D=3 (PointProjection) before it.
// ASSUMED CONTRACTS ON DEPENDENCIES (parry3d-f64 0.18, nalgebra).  Nothing here models engeom's own code.
// The point projection (pruned BVH search, pseudo-normal inside test) is third-party code and is NOT verified.
// What is assumed of `TriMesh::project_local_point_and_get_location(pt, solid)`:
//   (a) it is a function of (mesh, point, solid flag): `tm_project`                                  [determinism]
//   (b) the reported face id is a face of the mesh
//   (c) the reported point belongs to the mesh (`tm_on`: on the reported face, or -- solid meshes only -- the
//       query itself when it is inside) and the reported location on that face denotes the same point
//   (d) GLOBAL OPTIMALITY: no point of the mesh (`tm_on`) is nearer to the query.
// What is assumed of `..._with_max_dist(pt, solid, cap)`: `tm_project_capped`, a function of its arguments with
//   Some(x) ==> x is the uncapped answer and its distance is <= cap;   None ==> the uncapped distance is >= cap
//   (parry prunes with a strict `<`; a distance exactly equal to the cap is left unspecified on purpose).
// (c), (d) and the cap semantics are the bulk of property C02 for meshes; they are assumptions here, not results.
#[verifier::external_body] pub struct TriMesh { _p: [u8; 0] }
#[verifier::external_body] pub struct UvMapping { _p: [u8; 0] }
impl Clone for TriMesh { #[verifier::external_body] fn clone(&self) -> (r: TriMesh) ensures r == *self { unimplemented!() } }
impl Clone for UvMapping { #[verifier::external_body] fn clone(&self) -> (r: UvMapping) { unimplemented!() } }
#[verifier::external_body] #[derive(Clone, Copy)] pub struct TrianglePointLocation { _p: [u8; 0] }
#[verifier::external_body] #[derive(Clone, Copy)] pub struct Triangle { _p: [u8; 0] }
#[verifier::external_body] #[derive(Clone, Copy)] pub struct Iso3 { _p: [u8; 0] }

pub uninterp spec fn v_angle(a: Vector3, b: Vector3) -> real;            // nalgebra Matrix::angle (in [0, pi])
pub uninterp spec fn t_normal(t: Triangle) -> Option<UnitVec3>;          // parry Triangle::normal() (None: degenerate)
pub uninterp spec fn t_point(t: Triangle, l: TrianglePointLocation) -> Point3;   // the point a location denotes
pub uninterp spec fn pi_real() -> real;
pub uninterp spec fn iso_p(t: Iso3, p: Point3) -> Point3;                // Isometry3 * Point3
pub uninterp spec fn tm_project(m: &TriMesh, p: Point3, solid: bool) -> (PointProjection, (u32, TrianglePointLocation));
pub uninterp spec fn tm_project_capped(m: &TriMesh, p: Point3, solid: bool, cap: real) -> Option<(PointProjection, (u32, TrianglePointLocation))>;
// "q belongs to the entity": on some face of the mesh, or (solid meshes) in its interior
pub uninterp spec fn tm_on(m: &TriMesh, solid: bool, q: Point3) -> bool;

pub open spec fn tm_nearest(m: &TriMesh, solid: bool, p: Point3, q: Point3) -> bool {
    forall|x: Point3| #[trigger] tm_on(m, solid, x) ==> p_dist(q, p) <= p_dist(x, p)
}

// `Unit<Vector3>` derefs to its vector: `normal.angle(&v)` is nalgebra's Matrix::angle
impl UnitVec3 {
    #[verifier::external_body]
    pub fn angle(&self, o: &Vector3) -> (r: f64) ensures rv(r) == v_angle(u_vec(*self), *o) { unimplemented!() }
}
// R11 target: `p.coords.norm()` (nalgebra: distance of a point from the origin); uninterpreted, only its sign is assumed
pub uninterp spec fn p_coords_norm(p: Point3) -> real;
#[verifier::external_body]
pub fn vf_p_coords_norm(p: &Point3) -> (r: f64) ensures rv(r) == p_coords_norm(*p), rv(r) >= 0real { unimplemented!() }
// R11 target: std::f64::consts::PI
#[verifier::external_body]
pub fn vf_pi() -> (r: f64) ensures rv(r) == pi_real() { unimplemented!() }

// R11 target: `transform * point` (nalgebra `&Isometry3 * &Point3`; a Mul impl on two references trips a Verus internal error)
#[verifier::external_body]
pub fn vf_iso_apply(t: &Iso3, p: &Point3) -> (r: Point3) ensures r == iso_p(*t, *p) { unimplemented!() }

impl Triangle {
    #[verifier::external_body]
    pub fn normal(&self) -> (r: Option<UnitVec3>) ensures r == t_normal(*self) { unimplemented!() }
}

impl TriMesh {
    pub uninterp spec fn verts(&self) -> Seq<Point3>;
    pub uninterp spec fn faces(&self) -> Seq<[u32; 3]>;
    pub uninterp spec fn tri(&self, i: int) -> Triangle;

    #[verifier::external_body]
    pub fn vertices(&self) -> (r: &[Point3]) ensures r@ == self.verts() { unimplemented!() }
    #[verifier::external_body]
    pub fn indices(&self) -> (r: &[[u32; 3]]) ensures r@ == self.faces() { unimplemented!() }
    #[verifier::external_body]
    pub fn triangle(&self, i: u32) -> (r: Triangle)
        requires (i as int) < self.faces().len()          // parry panics otherwise
        ensures r == self.tri(i as int) { unimplemented!() }

    #[verifier::external_body]
    pub fn project_local_point_and_get_location(&self, pt: &Point3, solid: bool) -> (r: (PointProjection, (u32, TrianglePointLocation)))
        ensures
            r == tm_project(self, *pt, solid),
            (r.1.0 as int) < self.faces().len(),
            tm_on(self, solid, r.0.point),
            r.0.point == t_point(self.tri(r.1.0 as int), r.1.1) || (solid && r.0.is_inside),
            tm_nearest(self, solid, *pt, r.0.point),       // ASSUMED global optimality
    { unimplemented!() }

    #[verifier::external_body]
    pub fn project_local_point_and_get_location_with_max_dist(&self, pt: &Point3, solid: bool, max_dist: f64) -> (r: Option<(PointProjection, (u32, TrianglePointLocation))>)
        ensures
            r == tm_project_capped(self, *pt, solid, rv(max_dist)),
            r.is_some() ==> r.unwrap() == tm_project(self, *pt, solid) && (r.unwrap().1.0 as int) < self.faces().len()
                && p_dist(r.unwrap().0.point, *pt) <= rv(max_dist),
            r.is_none() ==> p_dist(tm_project(self, *pt, solid).0.point, *pt) >= rv(max_dist),
    { unimplemented!() }
}
// parry addresses vertices and faces with u32 ids
pub broadcast axiom fn ax_trimesh_vlen(m: &TriMesh) ensures #[trigger] m.verts().len() <= u32::MAX;
pub broadcast axiom fn ax_trimesh_flen(m: &TriMesh) ensures #[trigger] m.faces().len() <= u32::MAX;
pub broadcast group c02_mesh_axioms { ax_trimesh_vlen, ax_trimesh_flen }
