// TRUSTED PRELUDE (C03, unit c03_deviation; on top of prelude/euclid.rs D=3): robustness stand-in for nalgebra's
// `p.coords.norm()` (distance of a point from the ORIGIN OF THE FRAME -- a frame-dependent quantity).  UNINTERPRETED, only
// its sign is assumed: a measurement whose result is made to depend on it cannot be proved frame independent and is reported.
pub uninterp spec fn p_coords_norm(p: Point3) -> real;
pub trait PointLike3 { spec fn pt(&self) -> Point3; }
impl PointLike3 for Point3 { open spec fn pt(&self) -> Point3 { *self } }
impl<'a> PointLike3 for &'a Point3 { open spec fn pt(&self) -> Point3 { **self } }
#[verifier::external_body]
pub fn vf_p_coords_norm<T: PointLike3>(p: T) -> (r: f64) ensures rv(r) == p_coords_norm(p.pt()), rv(r) >= 0real { unimplemented!() }
