// TRUSTED PRELUDE (C07, decoding of the 2D starting guess into solver parameters and back).
// ASSUMED CONTRACTS ON DEPENDENCIES ONLY (nalgebra Isometry2 / UnitComplex / Translation2 / Vector3, std trigonometry).
// Nothing here models engeom's own code.
//  T0  cos_r / sin_r : real -> real are the (uninterpreted) cosine and sine; pi_r() the (uninterpreted) constant pi
//  T1  UnitComplex::angle() of a UNIT complex number (is_unit: nalgebra's type invariant, implies re^2 + im^2 == 1) is the principal argument z in (-pi, pi] with
//      cos z == re and sin z == im
//  T2  f64::asin(x), |x| <= 1: z in [-pi/2, pi/2] with sin z == x (so cos z >= 0: NOTHING ties cos z to a given real part)
//  T3  f64::acos(x), |x| <= 1: z in [0, pi] with cos z == x
//  T4  f64::atan2(y, x) with x^2 + y^2 == 1: z in (-pi, pi] with cos z == x and sin z == y
//  N1  Isometry2::rotation(a) = (rotation (cos a, sin a), translation 0); Isometry2::translation(x, y) = (rotation (1, 0),
//      translation (x, y)); Isometry2::identity() = (rotation (1, 0), translation 0)
//  N2  Isometry2 * Isometry2: rotation = complex product (unit if both are), translation = a.t + a.R * b.t
//  N3  Vector3::new(x, y, z) has these components (Deref to .x .y .z)
//  N4  Isometry2 * Point2 = t + R * p;  Isometry2::inverse() is some isometry (nothing assumed)
pub uninterp spec fn cos_r(a: real) -> real;
pub uninterp spec fn sin_r(a: real) -> real;
pub uninterp spec fn pi_r() -> real;

#[derive(Clone, Copy)] pub struct T2Storage { pub x: f64, pub y: f64, pub z: f64, pub _t: u8 }
impl T2Storage {
    #[verifier::external_body]
    pub fn new(x: f64, y: f64, z: f64) -> (r: T2Storage) ensures r.x == x, r.y == y, r.z == z { unimplemented!() }
}
#[derive(Clone, Copy)] pub struct Point2 { pub x: f64, pub y: f64, pub _t: u8 }
#[derive(Clone, Copy)] pub struct Vec2c { pub x: f64, pub y: f64, pub _t: u8 }
#[derive(Clone, Copy)] pub struct Translation2 { pub vector: Vec2c }
#[derive(Clone, Copy)] pub struct UnitComplex { pub re: f64, pub im: f64, pub _t: u8 }
#[derive(Clone, Copy)] pub struct Iso2 { pub rotation: UnitComplex, pub translation: Translation2 }

impl UnitComplex {
    // nalgebra's type invariant of Unit<Complex<f64>> (kept by every nalgebra constructor / product below)
    pub uninterp spec fn is_unit(&self) -> bool;
    #[verifier::external_body]
    pub fn angle(&self) -> (z: f64)
        requires self.is_unit()
        ensures -pi_r() < rv(z) <= pi_r(), cos_r(rv(z)) == rv(self.re), sin_r(rv(z)) == rv(self.im)
    { unimplemented!() }
}
pub broadcast axiom fn ax_unit(c: UnitComplex)
    ensures #[trigger] c.is_unit() ==> rv(c.re) * rv(c.re) + rv(c.im) * rv(c.im) == 1real;
pub assume_specification [f64::asin] (x: f64) -> (z: f64)
    ensures -1real <= rv(x) <= 1real ==> (sin_r(rv(z)) == rv(x) && cos_r(rv(z)) >= 0real && -pi_r() / 2real <= rv(z) <= pi_r() / 2real);
pub assume_specification [f64::acos] (x: f64) -> (z: f64)
    ensures -1real <= rv(x) <= 1real ==> (cos_r(rv(z)) == rv(x) && sin_r(rv(z)) >= 0real && 0real <= rv(z) <= pi_r());
pub assume_specification [f64::atan2] (y: f64, x: f64) -> (z: f64)
    ensures rv(x) * rv(x) + rv(y) * rv(y) == 1real ==> (cos_r(rv(z)) == rv(x) && sin_r(rv(z)) == rv(y) && -pi_r() < rv(z) <= pi_r());

pub open spec fn iso_is(t: Iso2, re: real, im: real, tx: real, ty: real) -> bool {
    rv(t.rotation.re) == re && rv(t.rotation.im) == im && rv(t.translation.vector.x) == tx && rv(t.translation.vector.y) == ty
}
// same isometry (componentwise, real model)
pub open spec fn iso_same(a: Iso2, b: Iso2) -> bool {
    iso_is(a, rv(b.rotation.re), rv(b.rotation.im), rv(b.translation.vector.x), rv(b.translation.vector.y))
}
impl Iso2 {
    #[verifier::external_body]
    pub fn rotation(a: f64) -> (r: Iso2) ensures iso_is(r, cos_r(rv(a)), sin_r(rv(a)), 0real, 0real), r.rotation.is_unit() { unimplemented!() }
    #[verifier::external_body]
    pub fn translation(x: f64, y: f64) -> (r: Iso2) ensures iso_is(r, 1real, 0real, rv(x), rv(y)), r.rotation.is_unit() { unimplemented!() }
    #[verifier::external_body]
    pub fn identity() -> (r: Iso2) ensures iso_is(r, 1real, 0real, 0real, 0real), r.rotation.is_unit() { unimplemented!() }
}
pub open spec fn iso_mul(a: Iso2, b: Iso2, r: Iso2) -> bool {
    iso_is(r,
        rv(a.rotation.re) * rv(b.rotation.re) - rv(a.rotation.im) * rv(b.rotation.im),
        rv(a.rotation.re) * rv(b.rotation.im) + rv(a.rotation.im) * rv(b.rotation.re),
        rv(a.translation.vector.x) + (rv(a.rotation.re) * rv(b.translation.vector.x) - rv(a.rotation.im) * rv(b.translation.vector.y)),
        rv(a.translation.vector.y) + (rv(a.rotation.im) * rv(b.translation.vector.x) + rv(a.rotation.re) * rv(b.translation.vector.y)))
}
pub uninterp spec fn iso_mul_fn(a: Iso2, b: Iso2) -> Iso2;
pub broadcast axiom fn ax_iso_mul(a: Iso2, b: Iso2)
    ensures iso_mul(a, b, #[trigger] iso_mul_fn(a, b)),
        a.rotation.is_unit() && b.rotation.is_unit() ==> iso_mul_fn(a, b).rotation.is_unit();
impl MulSpecImpl<Iso2> for Iso2 {
    open spec fn obeys_mul_spec() -> bool { true }
    open spec fn mul_req(self, rhs: Iso2) -> bool { true }
    open spec fn mul_spec(self, rhs: Iso2) -> Iso2 { iso_mul_fn(self, rhs) }
}
impl core::ops::Mul<Iso2> for Iso2 { type Output = Iso2;
    #[verifier::external_body] fn mul(self, rhs: Iso2) -> (r: Iso2) { unimplemented!() } }

// N4: Isometry2 * Point2
pub open spec fn iso_pt(a: Iso2, p: Point2, r: Point2) -> bool {
    rv(r.x) == rv(a.translation.vector.x) + (rv(a.rotation.re) * rv(p.x) - rv(a.rotation.im) * rv(p.y))
    && rv(r.y) == rv(a.translation.vector.y) + (rv(a.rotation.im) * rv(p.x) + rv(a.rotation.re) * rv(p.y))
}
pub uninterp spec fn iso_pt_fn(a: Iso2, p: Point2) -> Point2;
pub broadcast axiom fn ax_iso_pt(a: Iso2, p: Point2)
    ensures iso_pt(a, p, #[trigger] iso_pt_fn(a, p));
impl MulSpecImpl<Point2> for Iso2 {
    open spec fn obeys_mul_spec() -> bool { true }
    open spec fn mul_req(self, rhs: Point2) -> bool { true }
    open spec fn mul_spec(self, rhs: Point2) -> Point2 { iso_pt_fn(self, rhs) }
}
impl core::ops::Mul<Point2> for Iso2 { type Output = Point2;
    #[verifier::external_body] fn mul(self, rhs: Point2) -> (r: Point2) { unimplemented!() } }
// R11 target: `a * p` with a: &Isometry2, p: &Point2
#[verifier::external_body]
pub fn vf_iso_pt_ref(a: &Iso2, p: &Point2) -> (r: Point2) ensures r == iso_pt_fn(*a, *p) { unimplemented!() }
impl Iso2 {
    #[verifier::external_body]
    pub fn inverse(&self) -> (r: Iso2) { unimplemented!() }
}
