// TRUSTED PRELUDE (C03, 2D deviations; on top of prelude/euclid.rs D=2 + prelude/c16_euclid.rs D=2).
// ASSUMED CONTRACTS ON DEPENDENCIES (nalgebra); nothing here models engeom's own code.
//  * `p.coords.norm()` (distance of a point from the origin): uninterpreted, only its sign is assumed.  It is NOT a
//    frame-independent quantity; it exists so that a rewrite that lets the SIZE OF THE COORDINATES into a measurement is
//    judged against the contract instead of leaving the unit undecided.
//  * a rigid motion T = (R, t) of the plane acting on points (iso2_p), vectors and unit vectors (rotation only):
//      J1  T(a) - T(b) == R(a - b)        J2  |R v| == |v|        J3  R(a).R(b) == a.b        J4  vec(R u) == R(vec u)
//      J5  rot_m90(R u) == R(rot_m90 u)   (rotations of the plane commute: the curve normal - direction turned by -90
//                                          degrees - of a rotated curve is the rotated normal)
pub uninterp spec fn p2_coords_norm(p: Point2) -> real;
#[verifier::external_body]
pub fn vf_p2_coords_norm(p: &Point2) -> (r: f64) ensures rv(r) == p2_coords_norm(*p), rv(r) >= 0real { unimplemented!() }

#[verifier::external_body] #[derive(Clone, Copy)] pub struct Iso2 { _p: [u8; 0] }
pub uninterp spec fn iso2_p(t: Iso2, p: Point2) -> Point2;
pub uninterp spec fn iso2_v(t: Iso2, v: Vector2) -> Vector2;
pub uninterp spec fn iso2_u(t: Iso2, u: UnitVec2) -> UnitVec2;
pub axiom fn ax_iso2_sub(t: Iso2, a: Point2, b: Point2) ensures p_sub(iso2_p(t, a), iso2_p(t, b)) == iso2_v(t, p_sub(a, b));
pub axiom fn ax_iso2_norm(t: Iso2, v: Vector2) ensures v_norm(iso2_v(t, v)) == v_norm(v);
pub axiom fn ax_iso2_dot(t: Iso2, a: Vector2, b: Vector2) ensures v_dot(iso2_v(t, a), iso2_v(t, b)) == v_dot(a, b);
pub axiom fn ax_iso2_u(t: Iso2, u: UnitVec2) ensures u_vec(iso2_u(t, u)) == iso2_v(t, u_vec(u));
