// TRUSTED PRELUDE (C03, unit c03_mesh_uv; on top of prelude/euclid.rs D=3, c02_project.rs, c02_mesh.rs): stand-ins for the UV
// side of Mesh::uv_with_tol.  ASSUMED CONTRACTS ON DEPENDENCIES (parry2d / parry3d); nothing here models engeom's frame logic.
//   U1  TrianglePointLocation::barycentric_coordinates(): a function of the location (None for OnSolid)
//   U2  UvMapping::point(face id, barycentric coordinates): a function of (map, id, coordinates) -- engeom's own three-term
//       combination of the UV triangle's corners is NOT verified here (its value is irrelevant to frame independence)
#[verifier::external_body] #[derive(Clone, Copy)] pub struct Point2 { _p: [f64; 2] }
pub uninterp spec fn tl_bary(l: TrianglePointLocation) -> Option<[f64; 3]>;
impl TrianglePointLocation {
    #[verifier::external_body]
    pub fn barycentric_coordinates(&self) -> (r: Option<[f64; 3]>) ensures r == tl_bary(*self) { unimplemented!() }
}
pub uninterp spec fn uv_point(m: &UvMapping, tri_id: usize, bary: [f64; 3]) -> Point2;
impl UvMapping {
    #[verifier::external_body]
    pub fn point(&self, tri_id: usize, barycentric: [f64; 3]) -> (r: Point2) ensures r == uv_point(self, tri_id, barycentric) { unimplemented!() }
}
