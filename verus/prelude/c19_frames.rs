// TRUSTED PRELUDE (C19 frame constructors), on top of prelude/c03_vec.rs D=3 and prelude/c19_vec3.rs.
// ASSUMED (identities of the 3D cross product; each axiom is invoked explicitly, none is broadcast):
//   X3  (a x b) x c == (a.c) b - (b.c) a          (vector triple product)
//   X4  a x b == -(b x a)                          (anti-commutativity)
//   X5  (a x b).(a x b) == (a.a)(b.b) - (a.b)^2    (Lagrange)
//   X6  (s a) x b == s (a x b)                      X7  (a + b) x c == a x c + b x c      (left linearity)
// nalgebra:  Vector3::try_normalize(min_norm) == None <=> |v| <= min_norm, else Some(v / |v|);
//            the world axes x, y, z (`axis(0..2)`) are an orthonormal right-handed frame (not needed as an axiom here).
pub axiom fn ax_cross_triple(a: Vector3, b: Vector3, c: Vector3)
    ensures v_cross(v_cross(a, b), c) == v_sub(v_scale(b, v_dot(a, c)), v_scale(a, v_dot(b, c)));
pub axiom fn ax_cross_anti(a: Vector3, b: Vector3) ensures v_cross(a, b) == v_neg(v_cross(b, a));
pub axiom fn ax_cross_lagrange(a: Vector3, b: Vector3)
    ensures v_dot(v_cross(a, b), v_cross(a, b)) == v_dot(a, a) * v_dot(b, b) - v_dot(a, b) * v_dot(a, b);
pub axiom fn ax_cross_scale_l(a: Vector3, s: real, b: Vector3) ensures v_cross(v_scale(a, s), b) == v_scale(v_cross(a, b), s);
pub axiom fn ax_cross_add_l(a: Vector3, b: Vector3, c: Vector3) ensures v_cross(v_add(a, b), c) == v_add(v_cross(a, c), v_cross(b, c));

pub uninterp spec fn axis(i: int) -> Vector3;   // world axes x, y, z

impl Vector3 {
    #[verifier::external_body]
    pub fn try_normalize(&self, min_norm: f64) -> (r: Option<Vector3>)
        ensures r.is_some() <==> v_norm(*self) > rv(min_norm),
            r.is_some() ==> r.unwrap() == v_scale(*self, 1real / v_norm(*self)),
    { unimplemented!() }
}
