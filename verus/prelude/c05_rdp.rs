// TRUSTED PRELUDE (C05, RDP / fill_gaps), dimension {D}.
pub type PointD = Point{D};
pub type VectorD = Vector{D};

// Stand-in for engeom's SurfacePoint<D> as used by Ramer-Douglas-Peucker: a base point and a direction (kept
// un-normalised here; `u = dir/|dir|` is the unit normal engeom stores).  engeom's own definitions (surface_point.rs,
// covered by C03) are mirrored as ASSUMED contracts in terms of the inner-product space of prelude/euclid.rs:
//   scalar_projection(p) = u . (p - base)        at_distance(t) = base + u*t        projection(p) = at_distance(scalar_projection(p))
// Normalising the zero vector is undefined (NaN in IEEE arithmetic, which the real-number model does not have), hence
// the precondition on new_normalize.
pub struct SurfacePoint { pub point: Point{D}, pub normal: Vector{D} }
pub open spec fn line_param(base: Point{D}, dir: Vector{D}, p: Point{D}) -> real { v_dot(u_vec(v_unit(dir)), p_sub(p, base)) }
pub open spec fn line_point(base: Point{D}, dir: Vector{D}, t: real) -> Point{D} { p_add(base, v_scale(u_vec(v_unit(dir)), t)) }
pub open spec fn line_proj(base: Point{D}, dir: Vector{D}, p: Point{D}) -> Point{D} { line_point(base, dir, line_param(base, dir, p)) }
pub open spec fn clampr(x: real, lo: real, hi: real) -> real { if x < lo { lo } else if x > hi { hi } else { x } }
impl SurfacePoint {
    #[verifier::external_body]
    pub fn new_normalize(point: Point{D}, normal: Vector{D}) -> (r: SurfacePoint)
        requires v_norm(normal) > 0real
        ensures r.point == point, r.normal == normal
    { unimplemented!() }
    #[verifier::external_body]
    pub fn projection(&self, other: &Point{D}) -> (r: Point{D})
        ensures r == line_proj(self.point, self.normal, *other)
    { unimplemented!() }
    #[verifier::external_body]
    pub fn scalar_projection(&self, other: &Point{D}) -> (r: f64)
        ensures rv(r) == line_param(self.point, self.normal, *other)
    { unimplemented!() }
    #[verifier::external_body]
    pub fn at_distance(&self, distance: f64) -> (r: Point{D})
        ensures r == line_point(self.point, self.normal, rv(distance))
    { unimplemented!() }
}
// std f64::clamp (assumed contract, real-number meaning; std panics when min > max)
pub assume_specification [f64::clamp] (x: f64, min: f64, max: f64) -> (r: f64)
    requires rv(min) <= rv(max)
    ensures rv(r) == clampr(rv(x), rv(min), rv(max));

// R8 target: `X.iter().map(|_| false).collect()`  (assumed std contract: one `false` per element)
#[verifier::external_body]
pub fn vf_all_false<T>(s: &[T]) -> (r: Vec<bool>)
    ensures r.len() == s.len(), forall|i: int| 0 <= i < r.len() ==> !#[trigger] r[i]
{ unimplemented!() }

// Vector / scalar (nalgebra `v / s`), scalar * after vector already in euclid.rs
impl DivSpecImpl<f64> for Vector{D} {
    open spec fn obeys_div_spec() -> bool { true }
    open spec fn div_req(self, rhs: f64) -> bool { rv(rhs) != 0real }
    open spec fn div_spec(self, rhs: f64) -> Vector{D} { v_scale(self, 1real / rv(rhs)) }
}
impl core::ops::Div<f64> for Vector{D} { type Output = Vector{D};
    #[verifier::external_body] fn div(self, rhs: f64) -> (r: Vector{D}) { unimplemented!() } }
impl<'a> AddSpecImpl<Vector{D}> for &'a Point{D} {
    open spec fn obeys_add_spec() -> bool { true }
    open spec fn add_req(self, rhs: Vector{D}) -> bool { true }
    open spec fn add_spec(self, rhs: Vector{D}) -> Point{D} { p_add(*self, rhs) }
}
impl<'a> core::ops::Add<Vector{D}> for &'a Point{D} { type Output = Point{D};
    #[verifier::external_body] fn add(self, rhs: Vector{D}) -> (r: Point{D}) { unimplemented!() } }

// scaling composes (vector-space axiom):  (w * a) * b == w * (a * b)
pub broadcast axiom fn ax_scale_scale(w: Vector{D}, a: real, b: real)
    ensures #[trigger] v_scale(v_scale(w, a), b) == v_scale(w, a * b);

// nalgebra vector methods a reasonable rewrite of the distance tests may use (ASSUMED contracts, real-number meaning):
//   norm_squared() == |v|^2 ;  amax() == the largest absolute coordinate, hence 0 <= amax <= |v| and |v|^2 <= D * amax^2.
// With these a `norm_squared()`-for-`norm()` or an `amax()`-for-`norm()` change goes THROUGH the verifier and fails the
// clause that depends on the Euclidean distance, instead of leaving the unit undecided.
impl Vector{D} {
    #[verifier::external_body]
    pub fn norm_squared(&self) -> (r: f64) ensures rv(r) == v_norm(*self) * v_norm(*self) { unimplemented!() }
    #[verifier::external_body]
    pub fn amax(&self) -> (r: f64)
        ensures 0real <= rv(r) <= v_norm(*self), v_norm(*self) * v_norm(*self) <= {D}real * rv(r) * rv(r)
    { unimplemented!() }
}
