// TRUSTED PRELUDE: the real-number model of f64 (DESIGN.md 2.3).
// Every `axiom fn` / `assume_specification` here is an ASSUMPTION, listed in each evidence file.
// f64 is treated as the ordered field of reals: no rounding, no overflow, no NaN/Inf, no -0.0.
pub uninterp spec fn rv(x: f64) -> real;

pub broadcast axiom fn ax_obeys_add() ensures #[trigger] <f64 as AddSpec<f64>>::obeys_add_spec();
pub broadcast axiom fn ax_add_req(a: f64, b: f64) ensures #[trigger] a.add_req(b);
pub broadcast axiom fn ax_add(a: f64, b: f64) ensures rv(#[trigger] a.add_spec(b)) == rv(a) + rv(b);
pub broadcast axiom fn ax_obeys_sub() ensures #[trigger] <f64 as SubSpec<f64>>::obeys_sub_spec();
pub broadcast axiom fn ax_sub_req(a: f64, b: f64) ensures #[trigger] a.sub_req(b);
pub broadcast axiom fn ax_sub(a: f64, b: f64) ensures rv(#[trigger] a.sub_spec(b)) == rv(a) - rv(b);
pub broadcast axiom fn ax_obeys_mul() ensures #[trigger] <f64 as MulSpec<f64>>::obeys_mul_spec();
pub broadcast axiom fn ax_mul_req(a: f64, b: f64) ensures #[trigger] a.mul_req(b);
pub broadcast axiom fn ax_mul(a: f64, b: f64) ensures rv(#[trigger] a.mul_spec(b)) == rv(a) * rv(b);
pub broadcast axiom fn ax_obeys_div() ensures #[trigger] <f64 as DivSpec<f64>>::obeys_div_spec();
pub broadcast axiom fn ax_div_req(a: f64, b: f64) ensures (#[trigger] a.div_req(b)) == (rv(b) != 0real);
pub broadcast axiom fn ax_div(a: f64, b: f64) ensures rv(b) != 0real ==> rv(#[trigger] a.div_spec(b)) == rv(a) / rv(b);
pub broadcast axiom fn ax_obeys_neg() ensures #[trigger] <f64 as NegSpec>::obeys_neg_spec();
pub broadcast axiom fn ax_neg_req(a: f64) ensures #[trigger] a.neg_req();
pub broadcast axiom fn ax_neg(a: f64) ensures rv(#[trigger] a.neg_spec()) == -rv(a);
pub broadcast axiom fn ax_obeys_cmp() ensures #[trigger] <f64 as PartialOrdSpec<f64>>::obeys_partial_cmp_spec();
pub broadcast axiom fn ax_cmp(a: f64, b: f64) ensures (#[trigger] a.partial_cmp_spec(&b)) == (if rv(a) < rv(b) { Some(Ordering::Less) } else if rv(a) > rv(b) { Some(Ordering::Greater) } else { Some(Ordering::Equal) });
pub broadcast axiom fn ax_obeys_eq() ensures #[trigger] <f64 as PartialEqSpec<f64>>::obeys_eq_spec();
pub broadcast axiom fn ax_eq(a: f64, b: f64) ensures (#[trigger] a.eq_spec(&b)) == (rv(a) == rv(b));

pub broadcast group f64_real_model {
    ax_obeys_add, ax_add_req, ax_add, ax_obeys_sub, ax_sub_req, ax_sub, ax_obeys_mul, ax_mul_req, ax_mul,
    ax_obeys_div, ax_div_req, ax_div, ax_obeys_neg, ax_neg_req, ax_neg, ax_obeys_cmp, ax_cmp, ax_obeys_eq, ax_eq,
}

// std float methods (assumed contracts, real-number meaning)
pub assume_specification [f64::sqrt] (x: f64) -> (r: f64)
    requires rv(x) >= 0real
    ensures rv(r) >= 0real, rv(r) * rv(r) == rv(x);
pub assume_specification [f64::abs] (x: f64) -> (r: f64)
    ensures rv(r) == (if rv(x) >= 0real { rv(x) } else { -rv(x) });
pub assume_specification [f64::min] (x: f64, y: f64) -> (r: f64)
    ensures rv(r) == (if rv(x) <= rv(y) { rv(x) } else { rv(y) }), r == x || r == y;
pub assume_specification [f64::max] (x: f64, y: f64) -> (r: f64)
    ensures rv(r) == (if rv(x) >= rv(y) { rv(x) } else { rv(y) }), r == x || r == y;
pub assume_specification [f64::powi] (x: f64, n: i32) -> (r: f64)
    ensures n == 2 ==> rv(r) == rv(x) * rv(x),
            n == 1 ==> rv(r) == rv(x),
            n == 0 ==> rv(r) == 1real;

pub open spec fn sorted(s: Seq<f64>) -> bool { forall|i: int, j: int| 0 <= i <= j < s.len() ==> rv(#[trigger] s[i]) <= rv(#[trigger] s[j]) }

// R1 target: `X.binary_search_by(|v| v.partial_cmp(&Y).unwrap())` (assumed std contract, sorted input only)
#[verifier::external_body]
pub fn vf_bsearch_f64(s: &Vec<f64>, x: f64) -> (r: core::result::Result<usize, usize>)
    requires sorted(s@)
    ensures match r {
        Ok(i) => i < s.len() && rv(s[i as int]) == rv(x),
        Err(i) => i <= s.len() && (forall|j: int| 0 <= j < i ==> rv(#[trigger] s[j]) < rv(x)) && (forall|j: int| i <= j < s.len() ==> rv(#[trigger] s[j]) > rv(x)),
    }
{ unimplemented!() }

// R4 target: integer `as f64`
pub uninterp spec fn usize_to_real(n: usize) -> real;
pub broadcast axiom fn ax_usize_to_real(n: usize) ensures #[trigger] usize_to_real(n) == n as real;
#[verifier::external_body]
pub fn vf_to_f64(n: usize) -> (r: f64) ensures rv(r) == n as real { unimplemented!() }

pub fn vf_min_usize(a: usize, b: usize) -> (r: usize) ensures r == (if a <= b { a } else { b }) { if a <= b { a } else { b } }
// unary minus on floats is not supported by this Verus build: `-x` is rewritten to vf_neg(x)
#[verifier::external_body]
pub fn vf_neg(a: f64) -> (r: f64) ensures rv(r) == -rv(a) { -a }

// R1b target: `X.partition_point(|v| *v < Y)` / `<= Y` (assumed std contract; sorted input)
#[verifier::external_body]
pub fn vf_partition_point_lt(s: &Vec<f64>, x: f64) -> (r: usize)
    requires sorted(s@)
    ensures r <= s.len(), forall|j: int| 0 <= j < r ==> rv(#[trigger] s[j]) < rv(x), forall|j: int| r <= j < s.len() ==> rv(#[trigger] s[j]) >= rv(x)
{ unimplemented!() }
#[verifier::external_body]
pub fn vf_partition_point_le(s: &Vec<f64>, x: f64) -> (r: usize)
    requires sorted(s@)
    ensures r <= s.len(), forall|j: int| 0 <= j < r ==> rv(#[trigger] s[j]) <= rv(x), forall|j: int| r <= j < s.len() ==> rv(#[trigger] s[j]) > rv(x)
{ unimplemented!() }
