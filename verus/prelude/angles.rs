// TRUSTED PRELUDE (angles): pi, fmod, atan2 in the real-number model.  All ASSUMED.
pub uninterp spec fn pi() -> real;
pub broadcast axiom fn ax_pi_bounds() ensures 3.14159real < #[trigger] pi() < 3.1416real;
pub open spec fn two_pi() -> real { 2real * pi() }
// R11: `PI` / `FRAC_PI_2` (std::f64::consts) -> these helpers; the constant is taken to be exactly pi
#[verifier::external_body] pub fn vf_pi() -> (r: f64) ensures rv(r) == pi() { std::f64::consts::PI }
#[verifier::external_body] pub fn vf_frac_pi_2() -> (r: f64) ensures rv(r) == pi() / 2real { std::f64::consts::FRAC_PI_2 }

// R5: `a % b` on f64 (fmod: result has the sign of a, |r| < |b|, a - r is an integer multiple of b)
pub uninterp spec fn rem_k(a: real, b: real) -> int;
pub open spec fn rem_spec(a: real, b: real) -> real { a - (rem_k(a, b) as real) * b }
pub broadcast axiom fn ax_rem(a: real, b: real)
    requires b > 0real
    ensures (a >= 0real ==> 0real <= #[trigger] rem_spec(a, b) < b), (a <= 0real ==> -b < rem_spec(a, b) <= 0real);
#[verifier::external_body]
pub fn vf_rem(a: f64, b: f64) -> (r: f64) requires rv(b) > 0real ensures rv(r) == rem_spec(rv(a), rv(b)) { a % b }

// atan2(y, x): only the closed range and the sign/zero facts engeom's code relies on
pub uninterp spec fn atan2_spec(y: real, x: real) -> real;
pub broadcast axiom fn ax_atan2_range(y: real, x: real) ensures -pi() <= #[trigger] atan2_spec(y, x) <= pi();
pub assume_specification [f64::atan2] (y: f64, x: f64) -> (r: f64) ensures rv(r) == atan2_spec(rv(y), rv(x));

pub broadcast group angle_axioms { ax_pi_bounds, ax_rem, ax_atan2_range }

// "denotes the same direction": x and y differ by an integer number of turns
pub open spec fn cong_k(x: real, y: real, k: int) -> bool { x - y == (k as real) * two_pi() }
pub open spec fn congruent(x: real, y: real) -> bool { exists|k: int| #[trigger] cong_k(x, y, k) }

// stand-in for nalgebra Vector2<f64> (field access v.x / v.y through Deref in the real type)
pub struct Vector2 { pub x: f64, pub y: f64 }
pub broadcast axiom fn ax_f64_field_Vector2_x(s: Vector2) ensures #[trigger] s.x == f64_typed(s, 0);
pub broadcast axiom fn ax_f64_field_Vector2_y(s: Vector2) ensures #[trigger] s.y == f64_typed(s, 1);
pub broadcast group vector2_fields { ax_f64_field_Vector2_x, ax_f64_field_Vector2_y }
