// TRUSTED PRELUDE (C11 / C06 / C09-circle): 2D coordinates over the real model + trigonometry.
// Stand-ins for nalgebra `Point2<f64>`, `Vector2<f64>`, `Unit<Vector2>`, `Isometry2<f64>` (rotation only), parry `Ray`
// and `Ball`.  Points and vectors are plain structs with public f64 coordinates (`p.x`, `p.y` as in nalgebra).
// ASSUMED CONTRACTS ON DEPENDENCIES (nalgebra / parry / std only; engeom's own code is never modelled here):
//   G1  p - q, p + v, p - v, v + w, v * s act coordinate-wise
//   G2  v.norm() = v.magnitude() = sqrt(x^2 + y^2) >= 0;  v.dot(w) = x x' + y y';  v.norm_squared() = v.magnitude_squared() = x^2 + y^2
//   G3  v.normalize(), Unit::new_normalize(v): REQUIRE |v| > 0 (nalgebra returns NaN coordinates for the zero vector:
//       this is the "no non-finite coordinate" obligation) and return v / |v| coordinate-wise
//   G4  Isometry2::rotation(a) * v = (cos a * x - sin a * y, sin a * x + cos a * y)
//   G5  Ray::new(o, d) stores o, d;  ray.point_at(t) = o + d * t
//   S1  r_sqrt(x) for x >= 0 is the non-negative root:  r_sqrt(x) >= 0, r_sqrt(x)^2 == x
//   T1  sin^2 a + cos^2 a == 1
//   T2  for -1 <= x <= 1:  sin(asin x) == x  and  cos(asin x) >= 0          (asin x in [-pi/2, pi/2])
//   T3  for -1 <= x <= 1:  cos(acos x) == x  and  sin(acos x) >= 0          (acos x in [0, pi])
//   T4  sin(a +- b) = sin a cos b +- cos a sin b ;  cos(a +- b) = cos a cos b -+ sin a sin b
//   T5  theta = atan2(y, x):  h cos(theta) == x and h sin(theta) == y  for h = sqrt(x^2 + y^2)
//   T6  sin(pi/2) == 1, cos(pi/2) == 0, pi > 0
//   F1  f64::{sin, cos, atan2} are total; f64::{asin, acos} REQUIRE -1 <= x <= 1 (NaN otherwise); values as above.
#[derive(Clone, Copy)] pub struct Point2 { pub x: f64, pub y: f64 }
#[derive(Clone, Copy)] pub struct Vector2 { pub x: f64, pub y: f64 }
#[derive(Clone, Copy)] pub struct UnitVec2 { pub v: Vector2 }
#[derive(Clone, Copy)] pub struct Ball { pub radius: f64 }
#[derive(Clone, Copy)] pub struct Ray { pub origin: Point2, pub dir: Vector2 }
#[verifier::external_body] #[derive(Clone, Copy)] pub struct Iso2 { _a: f64 }

pub uninterp spec fn r_sqrt(x: real) -> real;
pub broadcast axiom fn ax_r_sqrt(x: real) requires x >= 0real ensures (#[trigger] r_sqrt(x)) >= 0real, r_sqrt(x) * r_sqrt(x) == x;
pub proof fn lemma_sqrt_unique(a: real, b: real)
    requires a >= 0real, b >= 0real, a * a == b * b
    ensures a == b
{
    assert(a == b) by (nonlinear_arith) requires a >= 0real, b >= 0real, a * a == b * b;
}
// the value computed by f64::sqrt (prelude/f64.rs contract) is r_sqrt
pub proof fn lemma_sqrt_is(s: real, x: real)
    requires s >= 0real, s * s == x
    ensures s == r_sqrt(x)
{
    assert(x >= 0real) by (nonlinear_arith) requires s * s == x;
    ax_r_sqrt(x);
    lemma_sqrt_unique(s, r_sqrt(x));
}

impl Point2 {
    pub open spec fn rx(self) -> real { rv(self.x) }
    pub open spec fn ry(self) -> real { rv(self.y) }
    pub fn new(x: f64, y: f64) -> (r: Point2) ensures r.x == x, r.y == y { Point2 { x, y } }
}
impl Vector2 {
    pub open spec fn rx(self) -> real { rv(self.x) }
    pub open spec fn ry(self) -> real { rv(self.y) }
    pub open spec fn norm2(self) -> real { rv(self.x) * rv(self.x) + rv(self.y) * rv(self.y) }
    pub open spec fn rnorm(self) -> real { r_sqrt(self.norm2()) }
    pub open spec fn rdot(self, o: Vector2) -> real { rv(self.x) * rv(o.x) + rv(self.y) * rv(o.y) }
    pub fn new(x: f64, y: f64) -> (r: Vector2) ensures r.x == x, r.y == y { Vector2 { x, y } }
    #[verifier::external_body]
    pub fn norm(&self) -> (r: f64) ensures rv(r) == self.rnorm(), rv(r) >= 0real, rv(r) * rv(r) == self.norm2() { unimplemented!() }
    #[verifier::external_body]
    pub fn dot(&self, o: &Vector2) -> (r: f64) ensures rv(r) == self.rdot(*o) { unimplemented!() }
    // G2 (only reached by rewritten code): nalgebra norm_squared / magnitude_squared = x^2 + y^2, magnitude = norm
    #[verifier::external_body]
    pub fn norm_squared(&self) -> (r: f64) ensures rv(r) == self.norm2(), rv(r) >= 0real { unimplemented!() }
    #[verifier::external_body]
    pub fn magnitude_squared(&self) -> (r: f64) ensures rv(r) == self.norm2(), rv(r) >= 0real { unimplemented!() }
    #[verifier::external_body]
    pub fn magnitude(&self) -> (r: f64) ensures rv(r) == self.rnorm(), rv(r) >= 0real, rv(r) * rv(r) == self.norm2() { unimplemented!() }
    #[verifier::external_body]
    pub fn normalize(&self) -> (r: Vector2)
        requires self.norm2() > 0real
        ensures rv(r.x) * self.rnorm() == rv(self.x), rv(r.y) * self.rnorm() == rv(self.y), r.norm2() == 1real, self.rnorm() > 0real
    { unimplemented!() }
}
pub struct Unit;
impl Unit {
    #[verifier::external_body]
    pub fn new_normalize(v: Vector2) -> (r: UnitVec2)
        requires v.norm2() > 0real
        ensures rv(r.v.x) * v.rnorm() == rv(v.x), rv(r.v.y) * v.rnorm() == rv(v.y), r.v.norm2() == 1real, v.rnorm() > 0real
    { unimplemented!() }
}
impl UnitVec2 {
    #[verifier::external_body]
    pub fn new_normalize(v: Vector2) -> (r: UnitVec2)
        requires v.norm2() > 0real
        ensures rv(r.v.x) * v.rnorm() == rv(v.x), rv(r.v.y) * v.rnorm() == rv(v.y), r.v.norm2() == 1real, v.rnorm() > 0real
    { unimplemented!() }
    pub fn into_inner(self) -> (r: Vector2) ensures r == self.v { self.v }
}
impl Ray {
    pub fn new(origin: Point2, dir: Vector2) -> (r: Ray) ensures r.origin == origin, r.dir == dir { Ray { origin, dir } }
    #[verifier::external_body]
    pub fn point_at(&self, t: f64) -> (r: Point2)
        ensures rv(r.x) == rv(self.origin.x) + rv(self.dir.x) * rv(t), rv(r.y) == rv(self.origin.y) + rv(self.dir.y) * rv(t)
    { unimplemented!() }
}

// ---- trigonometry over the reals
pub uninterp spec fn r_sin(a: real) -> real;
pub uninterp spec fn r_cos(a: real) -> real;
pub uninterp spec fn r_asin(x: real) -> real;
pub uninterp spec fn r_acos(x: real) -> real;
pub uninterp spec fn r_atan2(y: real, x: real) -> real;
pub uninterp spec fn r_pi() -> real;
pub broadcast axiom fn ax_pythagoras(a: real) ensures (#[trigger] r_sin(a)) * r_sin(a) + r_cos(a) * r_cos(a) == 1real;
pub broadcast axiom fn ax_pythagoras_c(a: real) ensures r_sin(a) * r_sin(a) + (#[trigger] r_cos(a)) * r_cos(a) == 1real;
pub broadcast axiom fn ax_asin(x: real) requires -1real <= x <= 1real ensures r_sin(#[trigger] r_asin(x)) == x, r_cos(r_asin(x)) >= 0real;
pub broadcast axiom fn ax_acos(x: real) requires -1real <= x <= 1real ensures r_cos(#[trigger] r_acos(x)) == x, r_sin(r_acos(x)) >= 0real;
pub broadcast axiom fn ax_atan2(y: real, x: real)
    ensures r_sqrt(x * x + y * y) * r_cos(#[trigger] r_atan2(y, x)) == x, r_sqrt(x * x + y * y) * r_sin(r_atan2(y, x)) == y;
pub axiom fn ax_angle_add(a: real, b: real)
    ensures r_sin(a + b) == r_sin(a) * r_cos(b) + r_cos(a) * r_sin(b), r_cos(a + b) == r_cos(a) * r_cos(b) - r_sin(a) * r_sin(b);
pub axiom fn ax_angle_sub(a: real, b: real)
    ensures r_sin(a - b) == r_sin(a) * r_cos(b) - r_cos(a) * r_sin(b), r_cos(a - b) == r_cos(a) * r_cos(b) + r_sin(a) * r_sin(b);
pub broadcast axiom fn ax_half_pi() ensures r_sin(#[trigger] r_pi() / 2real) == 1real, r_cos(r_pi() / 2real) == 0real, r_pi() > 0real;
pub broadcast group c11_axioms { ax_r_sqrt, ax_pythagoras, ax_pythagoras_c, ax_asin, ax_acos, ax_atan2, ax_half_pi,
    ax_psub, ax_padd, ax_psubv, ax_vadd, ax_vscale, ax_rot }

pub assume_specification [f64::sin] (x: f64) -> (r: f64) ensures rv(r) == r_sin(rv(x));
pub assume_specification [f64::cos] (x: f64) -> (r: f64) ensures rv(r) == r_cos(rv(x));
pub assume_specification [f64::asin] (x: f64) -> (r: f64) requires -1real <= rv(x) <= 1real ensures rv(r) == r_asin(rv(x));
pub assume_specification [f64::acos] (x: f64) -> (r: f64) requires -1real <= rv(x) <= 1real ensures rv(r) == r_acos(rv(x));
pub assume_specification [f64::atan2] (y: f64, x: f64) -> (r: f64) ensures rv(r) == r_atan2(rv(y), rv(x));
// std::f64::consts::{FRAC_PI_2, PI} (constants are not supported by this Verus build: R12 subst)
#[verifier::external_body] pub fn vf_frac_pi_2() -> (r: f64) ensures rv(r) == r_pi() / 2real { core::f64::consts::FRAC_PI_2 }
#[verifier::external_body] pub fn vf_pi() -> (r: f64) ensures rv(r) == r_pi() { core::f64::consts::PI }
// f64::EPSILON / f64::MIN_POSITIVE / f64::MAX (associated constants are not supported by this Verus build: R12 subst);
// EPSILON is 2^-52 exactly; for the other two only the sign / a coarse bound is assumed
#[verifier::external_body] pub fn vf_f64_epsilon() -> (r: f64) ensures rv(r) == 1real / 4503599627370496real { f64::EPSILON }
#[verifier::external_body] pub fn vf_f64_min_positive() -> (r: f64) ensures 0real < rv(r) < 1real / 4503599627370496real { f64::MIN_POSITIVE }

// ---- rotation
impl Iso2 {
    pub uninterp spec fn ang(self) -> real;
    #[verifier::external_body]
    pub fn rotation(angle: f64) -> (r: Iso2) ensures r.ang() == rv(angle) { unimplemented!() }
}

// ---- operators (G1, G4): uninterpreted results + coordinate axioms
pub uninterp spec fn p_sub(a: Point2, b: Point2) -> Vector2;
pub uninterp spec fn p_add(p: Point2, v: Vector2) -> Point2;
pub uninterp spec fn p_subv(p: Point2, v: Vector2) -> Point2;
pub uninterp spec fn v_add(a: Vector2, b: Vector2) -> Vector2;
pub uninterp spec fn v_scale(v: Vector2, s: f64) -> Vector2;
pub uninterp spec fn v_rot(t: Iso2, v: Vector2) -> Vector2;
pub broadcast axiom fn ax_psub(a: Point2, b: Point2) ensures rv((#[trigger] p_sub(a, b)).x) == rv(a.x) - rv(b.x), rv(p_sub(a, b).y) == rv(a.y) - rv(b.y);
pub broadcast axiom fn ax_padd(p: Point2, v: Vector2) ensures rv((#[trigger] p_add(p, v)).x) == rv(p.x) + rv(v.x), rv(p_add(p, v).y) == rv(p.y) + rv(v.y);
pub broadcast axiom fn ax_psubv(p: Point2, v: Vector2) ensures rv((#[trigger] p_subv(p, v)).x) == rv(p.x) - rv(v.x), rv(p_subv(p, v).y) == rv(p.y) - rv(v.y);
pub broadcast axiom fn ax_vadd(a: Vector2, b: Vector2) ensures rv((#[trigger] v_add(a, b)).x) == rv(a.x) + rv(b.x), rv(v_add(a, b).y) == rv(a.y) + rv(b.y);
pub broadcast axiom fn ax_vscale(v: Vector2, s: f64) ensures rv((#[trigger] v_scale(v, s)).x) == rv(v.x) * rv(s), rv(v_scale(v, s).y) == rv(v.y) * rv(s);
pub broadcast axiom fn ax_rot(t: Iso2, v: Vector2)
    ensures rv((#[trigger] v_rot(t, v)).x) == r_cos(t.ang()) * rv(v.x) - r_sin(t.ang()) * rv(v.y),
            rv(v_rot(t, v).y) == r_sin(t.ang()) * rv(v.x) + r_cos(t.ang()) * rv(v.y);

impl SubSpecImpl<Point2> for Point2 {
    open spec fn obeys_sub_spec() -> bool { true }
    open spec fn sub_req(self, rhs: Point2) -> bool { true }
    open spec fn sub_spec(self, rhs: Point2) -> Vector2 { p_sub(self, rhs) }
}
impl core::ops::Sub<Point2> for Point2 { type Output = Vector2;
    #[verifier::external_body] fn sub(self, rhs: Point2) -> (r: Vector2) { unimplemented!() } }
impl<'a> SubSpecImpl<Point2> for &'a Point2 {
    open spec fn obeys_sub_spec() -> bool { true }
    open spec fn sub_req(self, rhs: Point2) -> bool { true }
    open spec fn sub_spec(self, rhs: Point2) -> Vector2 { p_sub(*self, rhs) }
}
impl<'a> core::ops::Sub<Point2> for &'a Point2 { type Output = Vector2;
    #[verifier::external_body] fn sub(self, rhs: Point2) -> (r: Vector2) { unimplemented!() } }
impl<'a, 'b> SubSpecImpl<&'b Point2> for &'a Point2 {
    open spec fn obeys_sub_spec() -> bool { true }
    open spec fn sub_req(self, rhs: &'b Point2) -> bool { true }
    open spec fn sub_spec(self, rhs: &'b Point2) -> Vector2 { p_sub(*self, *rhs) }
}
impl<'a, 'b> core::ops::Sub<&'b Point2> for &'a Point2 { type Output = Vector2;
    #[verifier::external_body] fn sub(self, rhs: &'b Point2) -> (r: Vector2) { unimplemented!() } }
impl AddSpecImpl<Vector2> for Point2 {
    open spec fn obeys_add_spec() -> bool { true }
    open spec fn add_req(self, rhs: Vector2) -> bool { true }
    open spec fn add_spec(self, rhs: Vector2) -> Point2 { p_add(self, rhs) }
}
impl core::ops::Add<Vector2> for Point2 { type Output = Point2;
    #[verifier::external_body] fn add(self, rhs: Vector2) -> (r: Point2) { unimplemented!() } }
impl SubSpecImpl<Vector2> for Point2 {
    open spec fn obeys_sub_spec() -> bool { true }
    open spec fn sub_req(self, rhs: Vector2) -> bool { true }
    open spec fn sub_spec(self, rhs: Vector2) -> Point2 { p_subv(self, rhs) }
}
impl core::ops::Sub<Vector2> for Point2 { type Output = Point2;
    #[verifier::external_body] fn sub(self, rhs: Vector2) -> (r: Point2) { unimplemented!() } }
impl AddSpecImpl<Vector2> for Vector2 {
    open spec fn obeys_add_spec() -> bool { true }
    open spec fn add_req(self, rhs: Vector2) -> bool { true }
    open spec fn add_spec(self, rhs: Vector2) -> Vector2 { v_add(self, rhs) }
}
impl core::ops::Add<Vector2> for Vector2 { type Output = Vector2;
    #[verifier::external_body] fn add(self, rhs: Vector2) -> (r: Vector2) { unimplemented!() } }
impl MulSpecImpl<f64> for Vector2 {
    open spec fn obeys_mul_spec() -> bool { true }
    open spec fn mul_req(self, rhs: f64) -> bool { true }
    open spec fn mul_spec(self, rhs: f64) -> Vector2 { v_scale(self, rhs) }
}
impl core::ops::Mul<f64> for Vector2 { type Output = Vector2;
    #[verifier::external_body] fn mul(self, rhs: f64) -> (r: Vector2) { unimplemented!() } }
impl MulSpecImpl<Vector2> for Iso2 {
    open spec fn obeys_mul_spec() -> bool { true }
    open spec fn mul_req(self, rhs: Vector2) -> bool { true }
    open spec fn mul_spec(self, rhs: Vector2) -> Vector2 { v_rot(self, rhs) }
}
impl core::ops::Mul<Vector2> for Iso2 { type Output = Vector2;
    #[verifier::external_body] fn mul(self, rhs: Vector2) -> (r: Vector2) { unimplemented!() } }

// parry Polyline over the coordinate Point2: only vertex access is used here
#[verifier::external_body] pub struct Polyline { _v: Vec<Point2> }
impl Polyline {
    pub uninterp spec fn verts(&self) -> Seq<Point2>;
    #[verifier::external_body]
    pub fn vertices(&self) -> (r: &[Point2]) ensures r@ == self.verts() { unimplemented!() }
}
impl Clone for Polyline {
    #[verifier::external_body]
    fn clone(&self) -> (r: Polyline) ensures r.verts() == self.verts() { unimplemented!() }
}

// R12 target: `(lo..=hi).contains(&t)` on f64 (std RangeInclusive::contains = lo <= t && t <= hi)
#[verifier::external_body]
pub fn vf_in_closed_range(lo: f64, hi: f64, t: f64) -> (r: bool) ensures r == (rv(lo) <= rv(t) <= rv(hi)) { (lo..=hi).contains(&t) }

// f64 typing facts for the all-f64 stand-in structs above (see vf/README.md Addenda; f64_typed is emitted at //@lits)
pub broadcast axiom fn ax_c11_typed_point_x(s: Point2) ensures #[trigger] s.x == f64_typed(s, 0);
pub broadcast axiom fn ax_c11_typed_point_y(s: Point2) ensures #[trigger] s.y == f64_typed(s, 1);
pub broadcast axiom fn ax_c11_typed_vector_x(s: Vector2) ensures #[trigger] s.x == f64_typed(s, 0);
pub broadcast axiom fn ax_c11_typed_vector_y(s: Vector2) ensures #[trigger] s.y == f64_typed(s, 1);
pub broadcast axiom fn ax_c11_typed_ball(s: Ball) ensures #[trigger] s.radius == f64_typed(s, 0);
pub broadcast group c11_typing { ax_c11_typed_point_x, ax_c11_typed_point_y, ax_c11_typed_vector_x, ax_c11_typed_vector_y, ax_c11_typed_ball }

// parry Aabb (mins / maxs corners, Aabb::new stores them) and Ball::new
#[derive(Clone, Copy)] pub struct Aabb2 { pub mins: Point2, pub maxs: Point2 }
impl Aabb2 { pub fn new(mins: Point2, maxs: Point2) -> (r: Aabb2) ensures r.mins == mins, r.maxs == maxs { Aabb2 { mins, maxs } } }
impl<'a> SubSpecImpl<Vector2> for &'a Point2 {
    open spec fn obeys_sub_spec() -> bool { true }
    open spec fn sub_req(self, rhs: Vector2) -> bool { true }
    open spec fn sub_spec(self, rhs: Vector2) -> Point2 { p_subv(*self, rhs) }
}
impl<'a> core::ops::Sub<Vector2> for &'a Point2 { type Output = Point2;
    #[verifier::external_body] fn sub(self, rhs: Vector2) -> (r: Point2) { unimplemented!() } }
impl<'a> AddSpecImpl<Vector2> for &'a Point2 {
    open spec fn obeys_add_spec() -> bool { true }
    open spec fn add_req(self, rhs: Vector2) -> bool { true }
    open spec fn add_spec(self, rhs: Vector2) -> Point2 { p_add(*self, rhs) }
}
impl<'a> core::ops::Add<Vector2> for &'a Point2 { type Output = Point2;
    #[verifier::external_body] fn add(self, rhs: Vector2) -> (r: Point2) { unimplemented!() } }
impl Ball { pub fn new(radius: f64) -> (r: Ball) ensures r.radius == radius { Ball { radius } } }
