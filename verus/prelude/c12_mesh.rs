// TRUSTED PRELUDE (C12): stand-ins for nalgebra Point3 and the parry-backed Mesh; only the index structure is modelled.
// ASSUMED (parry3d `TriMesh::new` without flags): the mesh stores the triangle list and the vertex list it was given, unchanged.
#[verifier::external_body] #[derive(Clone, Copy)] pub struct Point3 { _p: [f64; 3] }
impl Point3 {
    #[verifier::external_body]
    pub fn new(x: f64, y: f64, z: f64) -> (r: Point3) { unimplemented!() }
}
#[verifier::external_body] pub struct Mesh { _m: [u32; 0] }
impl Mesh {
    pub uninterp spec fn spec_faces(&self) -> Seq<[u32; 3]>;
    pub uninterp spec fn spec_nverts(&self) -> nat;
    #[verifier::external_body]
    pub fn new(vertices: Vec<Point3>, triangles: Vec<[u32; 3]>, is_solid: bool) -> (r: Mesh)
        ensures r.spec_faces() == triangles@, r.spec_nverts() == vertices.len(),
    { unimplemented!() }
    #[verifier::external_body]
    pub fn faces(&self) -> (r: &[[u32; 3]])
        ensures r@ == self.spec_faces(),
    { unimplemented!() }
}
// stand-in for the float computation of a cylinder vertex position `(radius*cos(2*pi*i/steps), radius*sin(..))` (R11);
// vertex coordinates are not part of any C12 contract
#[verifier::external_body]
pub fn vf_circle_xy(radius: f64, i: usize, steps: usize) -> (r: (f64, f64)) { unimplemented!() }
