// TRUSTED PRELUDE (C06): candidate collection and std sort/dedup idioms used by polyline_intersections / spanning_ray.
// ASSUMED CONTRACTS (parry / std):
//   Q1  parry Qbvh::traverse_depth_first with engeom's RayVisitor collects leaf data only, and the leaf data of a Polyline's
//       QBVH are its segment indices: every collected index i satisfies i + 1 < number of vertices.  (SOUNDNESS side only;
//       that no edge meeting the line is pruned -- completeness -- is NOT assumed and NOT claimed.)
//   S1  results.sort_by(|a, b| a.0.partial_cmp(&b.0).unwrap()): the result is a permutation of the input (same length, every
//       output element is an input element and vice versa), ascending in the first component (NaN panic dropped)
//   S2  results.dedup_by(|a, b| BODY) is NOT assumed any more: R12 rewrites it (frags/c06_hits.inc) to the explicit loop that
//       std documents -- walk the list, call BODY with a = the current element and b = the last KEPT element, keep the current
//       element iff BODY is false -- so that BODY (whatever tolerance expression it uses) is verified as code
pub struct RayVisitor { pub collector: Vec<u32> }
#[verifier::external_body]
pub fn vf_bvh_candidates(polyline: &Polyline, ray: &Ray) -> (r: RayVisitor)
    ensures forall|k: int| 0 <= k < r.collector.len() ==> (#[trigger] r.collector[k]) as int + 1 < polyline.verts().len()
{ unimplemented!() }

// first component (the line parameter) of entry i
pub open spec fn prm(s: Seq<(f64, usize)>, i: int) -> real { rv(s[i].0) }
pub open spec fn sorted_by_param(s: Seq<(f64, usize)>) -> bool {
    forall|i: int, j: int| 0 <= i <= j < s.len() ==> #[trigger] prm(s, i) <= #[trigger] prm(s, j)
}
// `out` is `inp` rearranged by the index map perm (injective, hence a permutation since the lengths agree)
pub open spec fn rearranged(out: Seq<(f64, usize)>, inp: Seq<(f64, usize)>, perm: Seq<int>) -> bool {
    &&& perm.len() == out.len() && out.len() == inp.len()
    &&& forall|i: int| 0 <= i < perm.len() ==> 0 <= #[trigger] perm[i] < inp.len() && out[i] == inp[perm[i]]
    &&& forall|i: int, j: int| 0 <= i < j < perm.len() ==> #[trigger] perm[i] != #[trigger] perm[j]
}
// `out` is the subsequence of `inp` selected by the strictly increasing index map idx
pub open spec fn subsequence(out: Seq<(f64, usize)>, inp: Seq<(f64, usize)>, idx: Seq<int>) -> bool {
    &&& idx.len() == out.len()
    &&& forall|i: int| 0 <= i < idx.len() ==> 0 <= #[trigger] idx[i] < inp.len() && out[i] == inp[idx[i]]
    &&& forall|i: int, j: int| 0 <= i < j < idx.len() ==> #[trigger] idx[i] < #[trigger] idx[j]
}
#[verifier::external_body]
pub fn vf_sort_by_param(v: &mut Vec<(f64, usize)>)
    ensures
        exists|perm: Seq<int>| #[trigger] rearranged(final(v)@, old(v)@, perm),
        sorted_by_param(final(v)@),
{ unimplemented!() }

// ---- derived answers (max_intersection, farthest_point_direction_distance, Curve2 surface-point intersection)
//   M1  v.iter().map(|(t, _)| *t).collect::<Vec<f64>>(): the first components, in order (R8)
//   M2  ts.iter().max_by(|a, b| a.partial_cmp(b).unwrap()).cloned(): None iff the list is empty, otherwise an element of
//       the list that is >= every element (NaN panic dropped) (R12)
//   M3  f64::MIN: some f64 value; NO order property is assumed (the real model has no least element, and assuming one
//       would be inconsistent with the closure of the model under subtraction) (R12)
#[verifier::external_body]
pub fn vf_first_components(v: &Vec<(f64, usize)>) -> (r: Vec<f64>)
    ensures r.len() == v.len(), forall|k: int| 0 <= k < r.len() ==> #[trigger] r[k] == v[k].0
{ v.iter().map(|(t, _)| *t).collect() }
#[verifier::external_body]
pub fn vf_max_by_partial_cmp(v: &Vec<f64>) -> (r: Option<f64>)
    ensures
        r.is_none() <==> v.len() == 0,
        r.is_some() ==> (exists|k: int| 0 <= k < v.len() && #[trigger] v[k] == r.unwrap())
            && (forall|k: int| 0 <= k < v.len() ==> rv(#[trigger] v[k]) <= rv(r.unwrap())),
{ v.iter().max_by(|a, b| a.partial_cmp(b).unwrap()).cloned() }
#[verifier::external_body]
pub fn vf_f64_lowest() -> (r: f64) { f64::MIN }
