// TRUSTED PRELUDE (C06): candidate collection and std sort/dedup idioms used by polyline_intersections / spanning_ray.
// ASSUMED CONTRACTS (parry / std):
//   Q1  parry Qbvh::traverse_depth_first with engeom's RayVisitor collects leaf data only, and the leaf data of a Polyline's
//       QBVH are its segment indices: every collected index i satisfies i + 1 < number of vertices.  (SOUNDNESS side only;
//       that no edge meeting the line is pruned -- completeness -- is NOT assumed and NOT claimed.)
//   S1  results.sort_by(|a, b| a.0.partial_cmp(&b.0).unwrap()): the result is a permutation of the input (same length, every
//       output element is an input element and vice versa), ascending in the first component (NaN panic dropped)
//   S2  results.dedup_by(|a, b| (a.0 - b.0).abs() < tol): std semantics -- the result is a subsequence (in order) of the
//       input that keeps the first element, and each kept element differs from the previously kept one by >= tol in the
//       first component
pub struct RayVisitor { pub collector: Vec<u32> }
#[verifier::external_body]
pub fn vf_bvh_candidates(polyline: &Polyline, ray: &Ray) -> (r: RayVisitor)
    ensures forall|k: int| 0 <= k < r.collector.len() ==> (#[trigger] r.collector[k]) as int + 1 < polyline.verts().len()
{ unimplemented!() }

pub open spec fn sorted_by_param(s: Seq<(f64, usize)>) -> bool {
    forall|i: int, j: int| 0 <= i <= j < s.len() ==> rv((#[trigger] s[i]).0) <= rv((#[trigger] s[j]).0)
}
#[verifier::external_body]
pub fn vf_sort_by_param(v: &mut Vec<(f64, usize)>)
    ensures
        final(v).len() == old(v).len(),
        forall|k: int| 0 <= k < final(v).len() ==> exists|j: int| 0 <= j < old(v).len() && #[trigger] final(v)[k] == #[trigger] old(v)[j],
        forall|j: int| 0 <= j < old(v).len() ==> exists|k: int| 0 <= k < final(v).len() && #[trigger] final(v)[k] == #[trigger] old(v)[j],
        sorted_by_param(final(v)@),
{ unimplemented!() }
#[verifier::external_body]
pub fn vf_dedup_by_param(v: &mut Vec<(f64, usize)>, tol: f64)
    ensures
        final(v).len() <= old(v).len(),
        old(v).len() > 0 ==> final(v).len() > 0 && final(v)[0] == old(v)[0],
        exists|idx: Seq<int>| idx.len() == final(v).len()
            && (forall|i: int| 0 <= i < idx.len() ==> 0 <= #[trigger] idx[i] < old(v).len() && final(v)[i] == old(v)[idx[i]])
            && (forall|i: int, j: int| 0 <= i < j < idx.len() ==> idx[i] < idx[j]),
        forall|i: int| 0 <= i < final(v).len() - 1 ==> {
            let d = rv((#[trigger] final(v)[i + 1]).0) - rv(final(v)[i].0);
            (if d >= 0real { d } else { -d }) >= rv(tol) },
{ unimplemented!() }
