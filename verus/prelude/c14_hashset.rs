// TRUSTED PRELUDE (C14): R12 helpers -- std HashSet idioms outside Verus' subset, with ASSUMED std contracts.
// `S.iter().copied().collect::<Vec<usize>>()`: every element exactly once, in an UNSPECIFIED order (hash iteration order)
#[verifier::external_body]
pub fn vf_hashset_to_vec(s: &HashSet<usize>) -> (r: Vec<usize>)
    ensures r@.no_duplicates(), forall|i: usize| r@.contains(i) <==> s@.contains(i)
{ s.iter().copied().collect() }
// `V.into_iter().collect::<HashSet<usize>>()`
#[verifier::external_body]
pub fn vf_vec_to_hashset(v: Vec<usize>) -> (r: HashSet<usize>)
    ensures forall|i: usize| r@.contains(i) <==> v@.contains(i)
{ v.into_iter().collect() }
// `S.retain(|i| O.contains(i))` (keep_contained = true) / `S.retain(|i| !O.contains(i))` (keep_contained = false)
#[verifier::external_body]
pub fn vf_hashset_retain_contains(s: &mut HashSet<usize>, o: &HashSet<usize>, keep_contained: bool)
    ensures final(s)@ == (if keep_contained { old(s)@.intersect(o@) } else { old(s)@.difference(o@) })
{ s.retain(|i| o.contains(i) == keep_contained) }
