// TRUSTED PRELUDE (C14): R12 helpers -- std HashSet idioms outside Verus' subset, with ASSUMED std contracts.
// `S.iter().copied().collect::<Vec<usize>>()`: every element exactly once, in an UNSPECIFIED order (hash iteration order)
#[verifier::external_body]
pub fn vf_hashset_to_vec(s: &HashSet<usize>) -> (r: Vec<usize>)
    ensures r@.no_duplicates(), forall|i: usize| r@.contains(i) <==> s@.contains(i)
{ s.iter().copied().collect() }
// `V.into_iter().collect::<HashSet<usize>>()`
#[verifier::external_body]
pub fn vf_vec_to_hashset(v: Vec<usize>) -> (r: HashSet<usize>)
    ensures forall|i: usize| r@.contains(i) <==> v@.contains(i)
{ v.into_iter().collect() }
// `S.retain(|i| O.contains(i))` (keep_contained = true) / `S.retain(|i| !O.contains(i))` (keep_contained = false)
#[verifier::external_body]
pub fn vf_hashset_retain_contains(s: &mut HashSet<usize>, o: &HashSet<usize>, keep_contained: bool)
    ensures final(s)@ == (if keep_contained { old(s)@.intersect(o@) } else { old(s)@.difference(o@) })
{ s.retain(|i| o.contains(i) == keep_contained) }
// `S.iter().copied().collect_vec()` on a HashSet<u32>: every element exactly once, unspecified order
#[verifier::external_body]
pub fn vf_hashset_u32_to_vec(s: &HashSet<u32>) -> (r: Vec<u32>)
    ensures r@.no_duplicates(), forall|i: u32| r@.contains(i) <==> s@.contains(i)
{ s.iter().copied().collect() }
// `V.sort_unstable()` on Vec<u32>: a non-decreasing permutation of the input
#[verifier::external_body]
pub fn vf_sort_unstable_u32(v: &mut Vec<u32>)
    ensures
        final(v)@.len() == old(v)@.len(),
        forall|a: int, b: int| 0 <= a < b < final(v)@.len() ==> final(v)@[a] <= final(v)@[b],
        forall|x: u32| final(v)@.contains(x) <==> old(v)@.contains(x),
        old(v)@.no_duplicates() ==> final(v)@.no_duplicates(),
{ v.sort_unstable() }
// `S.retain(|&i| F(i, M))` (keep_if = true) / `S.retain(|&i| !F(i, M))` (keep_if = false): every element is passed to F
// exactly once, the result b obeys F's postcondition, and the element stays iff b == keep_if; nothing is added.
#[verifier::external_body]
pub fn vf_hashset_retain_fn<M, F: Fn(usize, &M) -> bool>(s: &mut HashSet<usize>, f: &F, m: &M, keep_if: bool)
    requires forall|i: usize| old(s)@.contains(i) ==> call_requires(*f, (i, m)),
    ensures
        forall|i: usize| final(s)@.contains(i) ==> old(s)@.contains(i),
        forall|i: usize| old(s)@.contains(i) ==> exists|b: bool| call_ensures(*f, (i, m), b) && (final(s)@.contains(i) <==> b == keep_if),
{ s.retain(|&i| f(i, m) == keep_if) }
// `S.into_iter().collect::<Vec<usize>>()` / `.collect_vec()` on an owned HashSet<usize>: every element exactly once, in
// an UNSPECIFIED order (hash iteration order)
#[verifier::external_body]
pub fn vf_hashset_into_vec(s: HashSet<usize>) -> (r: Vec<usize>)
    ensures r@.no_duplicates(), forall|i: usize| r@.contains(i) <==> s@.contains(i)
{ s.into_iter().collect() }
