// TRUSTED PRELUDE (C15, mesh sampling): stand-ins for the parry TriMesh / Triangle API used by Mesh::sample_uniform and
// for the RNG. ASSUMED CONTRACTS ON DEPENDENCIES; nothing here models engeom's own code.
//  * `TriMesh::triangles()` yields `triangle(0), triangle(1), ..` in face order (R2 turns the iterator loop into an index loop);
//  * `Triangle::area()` is an uninterpreted non-negative function of the triangle, `Triangle::normal()` an uninterpreted
//    partial function that is defined whenever the area is positive (real-number idealisation of parry's epsilon test);
//  * `rand::random::<f64>()` returns some value in [0, 1) (nothing about its distribution is assumed or claimed).
#[derive(Clone, Copy)] pub struct Triangle { pub a: Point3, pub b: Point3, pub c: Point3 }
#[verifier::external_body] pub struct TriMesh { _p: [u8; 0] }
#[verifier::external_body] pub struct UvMapping { _p: [u8; 0] }
impl Clone for TriMesh { #[verifier::external_body] fn clone(&self) -> (r: TriMesh) ensures r == *self { unimplemented!() } }
impl Clone for UvMapping { #[verifier::external_body] fn clone(&self) -> (r: UvMapping) { unimplemented!() } }
pub uninterp spec fn t_area(t: Triangle) -> real;
pub uninterp spec fn t_normal(t: Triangle) -> Option<UnitVec3>;
pub uninterp spec fn p_vec(p: Point3) -> Vector3;            // Point3::coords
pub uninterp spec fn pt_of(v: Vector3) -> Point3;            // Point3::from(Vector3)
pub broadcast axiom fn ax_area_nonneg(t: Triangle) ensures #[trigger] t_area(t) >= 0real;
pub broadcast axiom fn ax_area_normal(t: Triangle) requires t_area(t) > 0real ensures (#[trigger] t_normal(t)).is_some();
impl Triangle {
    #[verifier::external_body]
    pub fn area(&self) -> (r: f64) ensures rv(r) == t_area(*self) { unimplemented!() }
    #[verifier::external_body]
    pub fn normal(&self) -> (r: Option<UnitVec3>) ensures r == t_normal(*self) { unimplemented!() }
}
impl TriMesh {
    pub uninterp spec fn tris(&self) -> Seq<Triangle>;
    #[verifier::external_body]
    pub fn triangle(&self, i: u32) -> (r: Triangle)
        requires (i as int) < self.tris().len()          // parry panics otherwise
        ensures r == self.tris()[i as int] { unimplemented!() }
    // R2 target: number of items `triangles()` yields
    #[verifier::external_body]
    pub fn vf_num_triangles(&self) -> (r: usize) ensures r == self.tris().len(), r <= u32::MAX { unimplemented!() }
}
pub broadcast group c15_mesh_axioms { ax_area_nonneg, ax_area_normal }
// R11 targets
#[verifier::external_body]
pub fn vf_coords3(p: Point3) -> (r: Vector3) ensures r == p_vec(p) { unimplemented!() }
#[verifier::external_body]
pub fn vf_point_from(v: Vector3) -> (r: Point3) ensures r == pt_of(v) { unimplemented!() }
// R12 target: rand::random::<f64>()
#[verifier::external_body]
pub fn vf_rand_unit() -> (r: f64) ensures 0real <= rv(r) < 1real { unimplemented!() }
// R12 target: `Result<usize, usize>::unwrap_or_else(|i| i)`
pub fn vf_ok_or_err(x: core::result::Result<usize, usize>) -> (r: usize)
    ensures r == (match x { Ok(i) => i, Err(i) => i })
{ match x { Ok(i) => i, Err(i) => i } }
// R12 target: `x.sqrt()` as a FUNCTION of x (f64::sqrt is deterministic; the shared assumed spec in prelude/f64.rs only
// says "some non-negative root", which cannot relate two calls on the same argument)
pub uninterp spec fn r_sqrt(x: real) -> real;
#[verifier::external_body]
pub fn vf_sqrt(x: f64) -> (r: f64)
    requires rv(x) >= 0real
    ensures rv(r) == r_sqrt(rv(x)), r_sqrt(rv(x)) >= 0real, r_sqrt(rv(x)) * r_sqrt(rv(x)) == rv(x)
{ x.sqrt() }
