// TRUSTED PRELUDE (C20, conformal flattening): trigonometry over the real model and the mesh stand-in.
// ASSUMED CONTRACTS ON DEPENDENCIES (std only; engeom's own code is never modelled here):
//   A1  f64::acos REQUIRES -1 <= x <= 1 (NaN otherwise: this is how "no NaN angle" becomes a proof obligation) and returns the
//       angle t in [0, pi] with cos t == x                     (r_cos / r_acos / r_pi are uninterpreted)
//   A2  cos 0 == 1, cos pi == -1, pi > 0
//   A3  `1.0 / t.tan()` for 0 < t < pi is the cotangent r_cot(t) (uninterpreted; R12 target vf_cot).  REQUIRES 0 < t < pi:
//       at t == 0 the float expression is +inf, at t == pi it is about -8e15 (the source maps a degenerate face to the
//       angles (pi, 0, 0)); this is how "no non-finite weight" becomes a proof obligation
//   A4  std::f64::consts::PI is pi (R12 target vf_pi; constants are not supported by this Verus build)
// No other trigonometric identity is assumed (in particular NOT "the three angles of a triangle sum to pi").
pub uninterp spec fn r_cos(a: real) -> real;
pub uninterp spec fn r_acos(x: real) -> real;
pub uninterp spec fn r_cot(a: real) -> real;
pub uninterp spec fn r_pi() -> real;
pub broadcast axiom fn ax_c20_acos(x: real) requires -1real <= x <= 1real
    ensures r_cos(#[trigger] r_acos(x)) == x, 0real <= r_acos(x) <= r_pi();
pub broadcast axiom fn ax_c20_pi() ensures #[trigger] r_pi() > 3real, r_cos(r_pi()) == -1real, r_cos(0real) == 1real;
pub broadcast group c20_trig { ax_c20_acos, ax_c20_pi }
pub assume_specification [f64::acos] (x: f64) -> (r: f64) requires -1real <= rv(x) <= 1real ensures rv(r) == r_acos(rv(x));
#[verifier::external_body] pub fn vf_pi() -> (r: f64) ensures rv(r) == r_pi() { core::f64::consts::PI }
#[verifier::external_body] pub fn vf_cot(t: f64) -> (r: f64) requires 0real < rv(t) < r_pi() ensures rv(r) == r_cot(rv(t)) { 1.0 / t.tan() }
