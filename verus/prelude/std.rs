// TRUSTED PRELUDE: error type stand-in (R3) -- error *messages* are dropped, the Ok/Err shape is kept.
#[derive(Debug)]
pub struct VErr;
pub type Result<T> = core::result::Result<T, VErr>;
