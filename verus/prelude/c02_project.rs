// TRUSTED PRELUDE (C02, curves, dimension {D}): stand-in for parry's point projection onto a Polyline.
// ASSUMED CONTRACT ON A DEPENDENCY (parry{D}d-f64 0.18 `PointQueryWithLocation for Polyline`): the pruned BVH search is
// third-party code and is NOT verified.  Nothing here models engeom's own code.
//   `Polyline::project_local_point_and_get_location(&self, pt, solid) -> (PointProjection, (u32, SegmentPointLocation))`
// What is assumed of the result (e = segment id, t = barycentric_coordinates()[1]):
//   (a) it is a function of (polyline, point, solid flag)                                   [determinism]
//   (b) e is a segment of the polyline: e + 1 < number of vertices (segments are consecutive vertex pairs, because
//       engeom builds every Polyline with `indices = None`)
//   (c) barycentric_coordinates() == [1 - t, t] with 0 <= t <= 1
//   (d) the projection point is (1-t)*v[e] + t*v[e+1]
//   (e) GLOBAL OPTIMALITY: no point of any segment of the polyline is nearer to the query than the projection point.
// (e) is the bulk of property C02 and it is an assumption here, not a result.
#[derive(Clone, Copy)] pub struct PointProjection { pub is_inside: bool, pub point: Point{D} }
#[verifier::external_body] #[derive(Clone, Copy)] pub struct SegmentPointLocation { _p: [u8; 0] }

pub uninterp spec fn spl_t(l: SegmentPointLocation) -> real;
impl SegmentPointLocation {
    #[verifier::external_body]
    pub fn barycentric_coordinates(&self) -> (r: [f64; 2])
        ensures rv(r[0]) == 1real - spl_t(*self), rv(r[1]) == spl_t(*self), 0real <= spl_t(*self) <= 1real
    { unimplemented!() }
}

pub uninterp spec fn pl_project(line: &Polyline, p: Point{D}, solid: bool) -> (PointProjection, (u32, SegmentPointLocation));

// the point of segment k at parameter s
pub open spec fn pl_seg_point(line: &Polyline, k: int, s: real) -> Point{D} { p_lerp(line.verts()[k], line.verts()[k + 1], s) }

// "q is a nearest point of the polyline to p": no point of any segment is nearer
pub open spec fn pl_nearest(line: &Polyline, p: Point{D}, q: Point{D}) -> bool {
    forall|k: int, s: real| 0 <= k && k + 1 < line.verts().len() && 0real <= s <= 1real
        ==> p_dist(q, p) <= p_dist(#[trigger] pl_seg_point(line, k, s), p)
}

// R11 target: `X.project_local_point_and_get_location(p, solid)` with X a parry Polyline
#[verifier::external_body]
pub fn vf_project(line: &Polyline, pt: &Point{D}, solid: bool) -> (r: (PointProjection, (u32, SegmentPointLocation)))
    requires line.verts().len() >= 2,                      // a polyline without a segment has no projection (parry panics)
    ensures
        r == pl_project(line, *pt, solid),
        (r.1.0 as int) + 1 < line.verts().len(),
        0real <= spl_t(r.1.1) <= 1real,
        r.0.point == pl_seg_point(line, r.1.0 as int, spl_t(r.1.1)),
        pl_nearest(line, *pt, r.0.point),                  // ASSUMED global optimality
{ unimplemented!() }
