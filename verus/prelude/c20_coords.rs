// TRUSTED PRELUDE (C20, UV maps): coordinate stand-ins for nalgebra Point2 / Point3 (`p.coords`), Vector2 / Vector3
// (`v.x`, `v.y`, `v.z`) and for the parry2d / parry3d TriMesh, Triangle, PointProjection, TrianglePointLocation.
// ASSUMED CONTRACTS ON DEPENDENCIES (nalgebra / parry only; engeom's own code is never modelled here):
//   G1  v * s, v + w, p - q act coordinate-wise; Point::from(v) / v.into() is the point with coordinates v
//   P1  TriMesh::triangle(i) REQUIRES i < number of faces (parry indexes its face buffer) and returns the three vertices of
//       face i in the order of the index triple;  TriMesh::indices() is the face list
//   P2  2D TriMesh::project_local_point_and_get_location(pt, solid) is a function of (mesh, point, flag) (`tm2_project`);
//       the reported face id is a face of the mesh
//   P3  a reported location WITH barycentric coordinates w (OnVertex / OnEdge / OnFace) denotes the reported point: the
//       w-combination of the corners of the reported face, and w sums to 1
//   P4  a location WITHOUT coordinates (parry: OnSolid) is reported only with solid == true for a query inside the
//       reported triangle, which is then its own projection (reported point == query)
//   P5  Triangle::normal() is a function of the triangle (None: degenerate)
// NOT assumed: which face parry reports for a given point (see lemma c20_uv_round_trip: it is a hypothesis there).
#[derive(Clone, Copy)] pub struct Vector2 { pub x: f64, pub y: f64 }
#[derive(Clone, Copy)] pub struct Point2 { pub coords: Vector2 }
#[derive(Clone, Copy)] pub struct Vector3 { pub x: f64, pub y: f64, pub z: f64 }
#[derive(Clone, Copy)] pub struct Point3 { pub coords: Vector3 }
#[verifier::external_body] #[derive(Clone, Copy)] pub struct UnitVec3 { _p: [f64; 3] }
#[derive(Clone, Copy)] pub struct Triangle2 { pub a: Point2, pub b: Point2, pub c: Point2 }
#[derive(Clone, Copy)] pub struct Triangle3 { pub a: Point3, pub b: Point3, pub c: Point3 }
#[derive(Clone, Copy)] pub struct PointProjection2 { pub is_inside: bool, pub point: Point2 }
#[verifier::external_body] #[derive(Clone, Copy)] pub struct TrianglePointLocation { _p: [u8; 0] }
#[verifier::external_body] pub struct TriMesh2 { _p: [u8; 0] }
#[verifier::external_body] pub struct TriMesh { _p: [u8; 0] }
impl Clone for TriMesh2 { #[verifier::external_body] fn clone(&self) -> (r: TriMesh2) ensures r == *self { unimplemented!() } }
impl Clone for TriMesh { #[verifier::external_body] fn clone(&self) -> (r: TriMesh) ensures r == *self { unimplemented!() } }

// f64 typing facts for the all-f64 stand-in structs (see vf/README.md Addenda; f64_typed is emitted at //@lits)
pub broadcast axiom fn ax_c20_typed_v2x(s: Vector2) ensures #[trigger] s.x == f64_typed(s, 0);
pub broadcast axiom fn ax_c20_typed_v2y(s: Vector2) ensures #[trigger] s.y == f64_typed(s, 1);
pub broadcast axiom fn ax_c20_typed_v3x(s: Vector3) ensures #[trigger] s.x == f64_typed(s, 0);
pub broadcast axiom fn ax_c20_typed_v3y(s: Vector3) ensures #[trigger] s.y == f64_typed(s, 1);
pub broadcast axiom fn ax_c20_typed_v3z(s: Vector3) ensures #[trigger] s.z == f64_typed(s, 2);

// ---- G1 operators
pub uninterp spec fn v2_scale(v: Vector2, s: f64) -> Vector2;
pub uninterp spec fn v2_add(a: Vector2, b: Vector2) -> Vector2;
pub uninterp spec fn p2_sub(a: Point2, b: Point2) -> Vector2;
pub uninterp spec fn v3_scale(v: Vector3, s: f64) -> Vector3;
pub uninterp spec fn v3_add(a: Vector3, b: Vector3) -> Vector3;
pub broadcast axiom fn ax_v2_scale(v: Vector2, s: f64) ensures rv((#[trigger] v2_scale(v, s)).x) == rv(v.x) * rv(s), rv(v2_scale(v, s).y) == rv(v.y) * rv(s);
pub broadcast axiom fn ax_v2_add(a: Vector2, b: Vector2) ensures rv((#[trigger] v2_add(a, b)).x) == rv(a.x) + rv(b.x), rv(v2_add(a, b).y) == rv(a.y) + rv(b.y);
pub broadcast axiom fn ax_p2_sub(a: Point2, b: Point2) ensures rv((#[trigger] p2_sub(a, b)).x) == rv(a.coords.x) - rv(b.coords.x), rv(p2_sub(a, b).y) == rv(a.coords.y) - rv(b.coords.y);
pub broadcast axiom fn ax_v3_scale(v: Vector3, s: f64) ensures rv((#[trigger] v3_scale(v, s)).x) == rv(v.x) * rv(s), rv(v3_scale(v, s).y) == rv(v.y) * rv(s), rv(v3_scale(v, s).z) == rv(v.z) * rv(s);
pub broadcast axiom fn ax_v3_add(a: Vector3, b: Vector3) ensures rv((#[trigger] v3_add(a, b)).x) == rv(a.x) + rv(b.x), rv(v3_add(a, b).y) == rv(a.y) + rv(b.y), rv(v3_add(a, b).z) == rv(a.z) + rv(b.z);
pub broadcast group c20_coords { ax_c20_typed_v2x, ax_c20_typed_v2y, ax_c20_typed_v3x, ax_c20_typed_v3y, ax_c20_typed_v3z,
    ax_v2_scale, ax_v2_add, ax_p2_sub, ax_v3_scale, ax_v3_add, ax_tm2_len, ax_tm3_len }

impl MulSpecImpl<f64> for Vector2 {
    open spec fn obeys_mul_spec() -> bool { true }
    open spec fn mul_req(self, rhs: f64) -> bool { true }
    open spec fn mul_spec(self, rhs: f64) -> Vector2 { v2_scale(self, rhs) }
}
impl core::ops::Mul<f64> for Vector2 { type Output = Vector2;
    #[verifier::external_body] fn mul(self, rhs: f64) -> (r: Vector2) { unimplemented!() } }
impl AddSpecImpl<Vector2> for Vector2 {
    open spec fn obeys_add_spec() -> bool { true }
    open spec fn add_req(self, rhs: Vector2) -> bool { true }
    open spec fn add_spec(self, rhs: Vector2) -> Vector2 { v2_add(self, rhs) }
}
impl core::ops::Add<Vector2> for Vector2 { type Output = Vector2;
    #[verifier::external_body] fn add(self, rhs: Vector2) -> (r: Vector2) { unimplemented!() } }
impl SubSpecImpl<Point2> for Point2 {
    open spec fn obeys_sub_spec() -> bool { true }
    open spec fn sub_req(self, rhs: Point2) -> bool { true }
    open spec fn sub_spec(self, rhs: Point2) -> Vector2 { p2_sub(self, rhs) }
}
impl core::ops::Sub<Point2> for Point2 { type Output = Vector2;
    #[verifier::external_body] fn sub(self, rhs: Point2) -> (r: Vector2) { unimplemented!() } }
impl<'a> SubSpecImpl<Point2> for &'a Point2 {
    open spec fn obeys_sub_spec() -> bool { true }
    open spec fn sub_req(self, rhs: Point2) -> bool { true }
    open spec fn sub_spec(self, rhs: Point2) -> Vector2 { p2_sub(*self, rhs) }
}
impl<'a> core::ops::Sub<Point2> for &'a Point2 { type Output = Vector2;
    #[verifier::external_body] fn sub(self, rhs: Point2) -> (r: Vector2) { unimplemented!() } }
impl MulSpecImpl<f64> for Vector3 {
    open spec fn obeys_mul_spec() -> bool { true }
    open spec fn mul_req(self, rhs: f64) -> bool { true }
    open spec fn mul_spec(self, rhs: f64) -> Vector3 { v3_scale(self, rhs) }
}
impl core::ops::Mul<f64> for Vector3 { type Output = Vector3;
    #[verifier::external_body] fn mul(self, rhs: f64) -> (r: Vector3) { unimplemented!() } }
impl AddSpecImpl<Vector3> for Vector3 {
    open spec fn obeys_add_spec() -> bool { true }
    open spec fn add_req(self, rhs: Vector3) -> bool { true }
    open spec fn add_spec(self, rhs: Vector3) -> Vector3 { v3_add(self, rhs) }
}
impl core::ops::Add<Vector3> for Vector3 { type Output = Vector3;
    #[verifier::external_body] fn add(self, rhs: Vector3) -> (r: Vector3) { unimplemented!() } }
// R11 targets: `Point2::from(v)`, `v.into()` (nalgebra From<Vector> for Point)
pub fn vf_p2_from(v: Vector2) -> (r: Point2) ensures r.coords == v { Point2 { coords: v } }
pub fn vf_p3_from(v: Vector3) -> (r: Point3) ensures r.coords == v { Point3 { coords: v } }

// ---- barycentric combinations (coordinates as reals)
pub open spec fn comb2(t: Triangle2, w: [f64; 3]) -> (real, real) {
    (rv(t.a.coords.x) * rv(w[0]) + rv(t.b.coords.x) * rv(w[1]) + rv(t.c.coords.x) * rv(w[2]),
     rv(t.a.coords.y) * rv(w[0]) + rv(t.b.coords.y) * rv(w[1]) + rv(t.c.coords.y) * rv(w[2]))
}
pub open spec fn comb3(t: Triangle3, w: [f64; 3]) -> (real, real, real) {
    (rv(t.a.coords.x) * rv(w[0]) + rv(t.b.coords.x) * rv(w[1]) + rv(t.c.coords.x) * rv(w[2]),
     rv(t.a.coords.y) * rv(w[0]) + rv(t.b.coords.y) * rv(w[1]) + rv(t.c.coords.y) * rv(w[2]),
     rv(t.a.coords.z) * rv(w[0]) + rv(t.b.coords.z) * rv(w[1]) + rv(t.c.coords.z) * rv(w[2]))
}
pub open spec fn p2r(p: Point2) -> (real, real) { (rv(p.coords.x), rv(p.coords.y)) }
pub open spec fn p3r(p: Point3) -> (real, real, real) { (rv(p.coords.x), rv(p.coords.y), rv(p.coords.z)) }
pub open spec fn wsum(w: [f64; 3]) -> real { rv(w[0]) + rv(w[1]) + rv(w[2]) }
// twice the signed area of a UV triangle
pub open spec fn den2(t: Triangle2) -> real {
    (rv(t.b.coords.x) - rv(t.a.coords.x)) * (rv(t.c.coords.y) - rv(t.a.coords.y)) - (rv(t.c.coords.x) - rv(t.a.coords.x)) * (rv(t.b.coords.y) - rv(t.a.coords.y))
}

// ---- parry
pub uninterp spec fn tl_bary(l: TrianglePointLocation) -> Option<[f64; 3]>;
impl TrianglePointLocation {
    #[verifier::external_body]
    pub fn barycentric_coordinates(&self) -> (r: Option<[f64; 3]>) ensures r == tl_bary(*self) { unimplemented!() }
}
pub uninterp spec fn t3_normal(t: Triangle3) -> Option<UnitVec3>;
impl Triangle3 {
    #[verifier::external_body]
    pub fn normal(&self) -> (r: Option<UnitVec3>) ensures r == t3_normal(*self) { unimplemented!() }
}
pub uninterp spec fn tm2_project(m: &TriMesh2, p: Point2, solid: bool) -> (PointProjection2, (u32, TrianglePointLocation));
impl TriMesh2 {
    pub uninterp spec fn verts(&self) -> Seq<Point2>;
    pub uninterp spec fn faces(&self) -> Seq<[u32; 3]>;
    pub open spec fn tri(&self, i: int) -> Triangle2 {
        Triangle2 { a: self.verts()[self.faces()[i][0] as int], b: self.verts()[self.faces()[i][1] as int], c: self.verts()[self.faces()[i][2] as int] }
    }
    #[verifier::external_body]
    pub fn indices(&self) -> (r: &[[u32; 3]]) ensures r@ == self.faces() { unimplemented!() }
    #[verifier::external_body]
    pub fn triangle(&self, i: u32) -> (r: Triangle2)
        requires (i as int) < self.faces().len()
        ensures r == self.tri(i as int) { unimplemented!() }
    #[verifier::external_body]
    pub fn project_local_point_and_get_location(&self, pt: &Point2, solid: bool) -> (r: (PointProjection2, (u32, TrianglePointLocation)))
        ensures
            r == tm2_project(self, *pt, solid),
            (r.1.0 as int) < self.faces().len(),
            tl_bary(r.1.1).is_some() ==> comb2(self.tri(r.1.0 as int), tl_bary(r.1.1).unwrap()) == p2r(r.0.point) && wsum(tl_bary(r.1.1).unwrap()) == 1real,
            tl_bary(r.1.1).is_none() ==> solid && p2r(r.0.point) == p2r(*pt),
    { unimplemented!() }
}
impl TriMesh {
    pub uninterp spec fn verts(&self) -> Seq<Point3>;
    pub uninterp spec fn faces(&self) -> Seq<[u32; 3]>;
    pub open spec fn tri(&self, i: int) -> Triangle3 {
        Triangle3 { a: self.verts()[self.faces()[i][0] as int], b: self.verts()[self.faces()[i][1] as int], c: self.verts()[self.faces()[i][2] as int] }
    }
    #[verifier::external_body]
    pub fn vertices(&self) -> (r: &[Point3]) ensures r@ == self.verts() { unimplemented!() }
    #[verifier::external_body]
    pub fn indices(&self) -> (r: &[[u32; 3]]) ensures r@ == self.faces() { unimplemented!() }
    #[verifier::external_body]
    pub fn triangle(&self, i: u32) -> (r: Triangle3)
        requires (i as int) < self.faces().len()
        ensures r == self.tri(i as int) { unimplemented!() }
}
// parry addresses faces with u32 ids
pub broadcast axiom fn ax_tm2_len(m: &TriMesh2) ensures #[trigger] m.faces().len() <= u32::MAX;
pub broadcast axiom fn ax_tm3_len(m: &TriMesh) ensures #[trigger] m.faces().len() <= u32::MAX;
