// TRUSTED PRELUDE (C13, split): stand-in for parry's plane split of a TriMesh.  Needs prelude/euclid.rs D=3 and prelude/c02_mesh.rs.
// ASSUMED CONTRACT ON A DEPENDENCY (parry3d-f64 0.18 `TriMesh::local_split`): third-party code, NOT verified.
// Nothing here models engeom's own code.  What is assumed:
//   (a) the answer is a function of (mesh, plane normal, plane offset, epsilon): `tm_local_split`        [determinism]
//   (b) Pair(a, b): a lies on the closed NEGATIVE side of the plane, b on the closed POSITIVE side (parry documents the
//       pair in this order); area(a) + area(b) == area(mesh) PROVIDED the mesh carries no pseudo-normals (`!tm_capped`):
//       parry's local_split triangulates the cross-section and adds it as a CAP to both halves exactly when
//       `self.pseudo_normals().is_some()` (split_trimesh.rs), and then the areas sum to the original plus twice the cap;
//       Negative / Positive: the whole mesh lies on that side.
//       `tm_side` and `tm_area` are UNINTERPRETED: the geometry is parry's business and is only passed through.
//   (c) pseudo-normals exist exactly when the mesh was built with (or later given) the flag TriMeshFlags::ORIENTED
//       (trimesh.rs: set_flags computes them iff the flag is requested); TriMesh::new uses no flags; construction from
//       a NON-EMPTY index list without flags cannot fail (the only error of the flag-less path is EmptyIndices).
pub enum SplitResult<T> { Pair(T, T), Negative, Positive }

pub uninterp spec fn tm_local_split(m: &TriMesh, n: UnitVec3, d: real, eps: real) -> SplitResult<TriMesh>;
pub uninterp spec fn tm_side(m: &TriMesh, n: UnitVec3, d: real, positive: bool) -> bool;   // every point of m on that closed side
pub uninterp spec fn tm_area(m: &TriMesh) -> real;
pub uninterp spec fn tm_capped(m: &TriMesh) -> bool;      // the mesh carries pseudo-normals: parry's split caps both halves

// parry TriMeshFlags (bitflags): only the ORIENTED bit is modelled, the other bits are irrelevant to the split.
// R11: `TriMeshFlags::NAME` -> `TriMeshFlags::NAME()`;  R10: `flags |= X;` -> `flags = flags.union(X);`
#[derive(Clone, Copy)] pub struct TriMeshFlags { pub oriented: bool }
#[allow(non_snake_case)]
impl TriMeshFlags {
    pub fn empty() -> (r: TriMeshFlags) ensures !r.oriented { TriMeshFlags { oriented: false } }
    pub fn union(self, o: TriMeshFlags) -> (r: TriMeshFlags) ensures r.oriented == (self.oriented || o.oriented) { TriMeshFlags { oriented: self.oriented || o.oriented } }
    pub fn HALF_EDGE_TOPOLOGY() -> (r: TriMeshFlags) ensures !r.oriented { TriMeshFlags { oriented: false } }
    pub fn CONNECTED_COMPONENTS() -> (r: TriMeshFlags) ensures !r.oriented { TriMeshFlags { oriented: false } }
    pub fn DELETE_BAD_TOPOLOGY_TRIANGLES() -> (r: TriMeshFlags) ensures !r.oriented { TriMeshFlags { oriented: false } }
    pub fn MERGE_DUPLICATE_VERTICES() -> (r: TriMeshFlags) ensures !r.oriented { TriMeshFlags { oriented: false } }
    pub fn DELETE_DEGENERATE_TRIANGLES() -> (r: TriMeshFlags) ensures !r.oriented { TriMeshFlags { oriented: false } }
    pub fn DELETE_DUPLICATE_TRIANGLES() -> (r: TriMeshFlags) ensures !r.oriented { TriMeshFlags { oriented: false } }
    pub fn ORIENTED() -> (r: TriMeshFlags) ensures r.oriented { TriMeshFlags { oriented: true } }
    pub fn FIX_INTERNAL_EDGES() -> (r: TriMeshFlags) ensures r.oriented { TriMeshFlags { oriented: true } }   // contains ORIENTED
}

impl TriMesh {
    #[verifier::external_body]
    pub fn with_flags(vertices: Vec<Point3>, indices: Vec<[u32; 3]>, flags: TriMeshFlags) -> (r: Result<TriMesh>)
        ensures r matches Ok(m) ==> tm_capped(&m) == flags.oriented,
    { unimplemented!() }
    #[verifier::external_body]
    pub fn new(vertices: Vec<Point3>, indices: Vec<[u32; 3]>) -> (r: Result<TriMesh>)
        ensures r matches Ok(m) ==> !tm_capped(&m), indices@.len() > 0 ==> r.is_ok(),
    { unimplemented!() }
    #[verifier::external_body]
    pub fn local_split(&self, normal: &UnitVec3, bias: f64, epsilon: f64) -> (r: SplitResult<TriMesh>)
        ensures
            r == tm_local_split(self, *normal, rv(bias), rv(epsilon)),
            r matches SplitResult::Pair(a, b) ==> tm_side(&a, *normal, rv(bias), false) && tm_side(&b, *normal, rv(bias), true)
                && (!tm_capped(self) ==> tm_area(&a) + tm_area(&b) == tm_area(self)),
            r is Negative ==> tm_side(self, *normal, rv(bias), false),
            r is Positive ==> tm_side(self, *normal, rv(bias), true),
    { unimplemented!() }
}
