// TRUSTED PRELUDE (C13, split): stand-in for parry's plane split of a TriMesh.  Needs prelude/euclid.rs D=3 and prelude/c02_mesh.rs.
// ASSUMED CONTRACT ON A DEPENDENCY (parry3d-f64 0.18 `TriMesh::local_split`): third-party code, NOT verified.
// Nothing here models engeom's own code.  What is assumed:
//   (a) the answer is a function of (mesh, plane normal, plane offset, epsilon): `tm_local_split`        [determinism]
//   (b) Pair(a, b): a lies on the closed NEGATIVE side of the plane, b on the closed POSITIVE side (parry documents the
//       pair in this order) and area(a) + area(b) == area(mesh) (a mesh without pseudo-normals is not capped);
//       Negative / Positive: the whole mesh lies on that side.
//       `tm_side` and `tm_area` are UNINTERPRETED: the geometry is parry's business and is only passed through.
pub enum SplitResult<T> { Pair(T, T), Negative, Positive }

pub uninterp spec fn tm_local_split(m: &TriMesh, n: UnitVec3, d: real, eps: real) -> SplitResult<TriMesh>;
pub uninterp spec fn tm_side(m: &TriMesh, n: UnitVec3, d: real, positive: bool) -> bool;   // every point of m on that closed side
pub uninterp spec fn tm_area(m: &TriMesh) -> real;

impl TriMesh {
    #[verifier::external_body]
    pub fn local_split(&self, normal: &UnitVec3, bias: f64, epsilon: f64) -> (r: SplitResult<TriMesh>)
        ensures
            r == tm_local_split(self, *normal, rv(bias), rv(epsilon)),
            r matches SplitResult::Pair(a, b) ==> tm_side(&a, *normal, rv(bias), false) && tm_side(&b, *normal, rv(bias), true)
                && tm_area(&a) + tm_area(&b) == tm_area(self),
            r is Negative ==> tm_side(self, *normal, rv(bias), false),
            r is Positive ==> tm_side(self, *normal, rv(bias), true),
    { unimplemented!() }
}
