// TRUSTED PRELUDE (C12): assumed contracts of std Vec/slice idioms outside Verus' subset (rule class R12/R8).
// `<[T]>::to_vec()` : a copy of the slice
pub assume_specification<T: Clone> [<[T]>::to_vec] (s: &[T]) -> (r: Vec<T>)
    ensures r@ == s@;

// `(0..len).collect::<Vec<_>>()` : the identity index vector 0, 1, .., len-1
#[verifier::external_body]
pub fn vf_range_vec(len: usize) -> (r: Vec<usize>)
    ensures r.len() == len, forall|i: int| 0 <= i < len ==> r[i] == i,
{ (0..len).collect::<Vec<_>>() }
