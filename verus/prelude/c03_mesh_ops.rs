// TRUSTED PRELUDE (C03 on top of prelude/euclid.rs D=3): the mixed reference / value forms of `Point3 - Point3`
// (nalgebra implements all four; euclid.rs has value-value and ref-ref).  Same meaning: p_sub.
impl<'a> SubSpecImpl<Point3> for &'a Point3 {
    open spec fn obeys_sub_spec() -> bool { true }
    open spec fn sub_req(self, rhs: Point3) -> bool { true }
    open spec fn sub_spec(self, rhs: Point3) -> Vector3 { p_sub(*self, rhs) }
}
impl<'a> core::ops::Sub<Point3> for &'a Point3 { type Output = Vector3;
    #[verifier::external_body] fn sub(self, rhs: Point3) -> (r: Vector3) { unimplemented!() } }
impl<'b> SubSpecImpl<&'b Point3> for Point3 {
    open spec fn obeys_sub_spec() -> bool { true }
    open spec fn sub_req(self, rhs: &'b Point3) -> bool { true }
    open spec fn sub_spec(self, rhs: &'b Point3) -> Vector3 { p_sub(self, *rhs) }
}
impl<'b> core::ops::Sub<&'b Point3> for Point3 { type Output = Vector3;
    #[verifier::external_body] fn sub(self, rhs: &'b Point3) -> (r: Vector3) { unimplemented!() } }
