// TRUSTED PRELUDE (C16): assumed contracts on std items that the C16 units meet and vstd does not cover.
// Nothing here models engeom code.

// `<[T]>::is_empty` / `<[T]>::len` reached through `Deref<Target = [T]>` (auto-deref made explicit by an R12 subst)
pub assume_specification<T> [<[T]>::is_empty] (s: &[T]) -> (r: bool)
    ensures r == (s@.len() == 0);

// NaN is kept as an uninterpreted predicate (DESIGN 2.3): the real-number model has no NaN value, the predicate only
// lets `assert!(!x.is_nan())` in engeom code become a definedness obligation that callers must discharge.
pub uninterp spec fn f64_is_nan(x: f64) -> bool;
pub assume_specification [f64::is_nan] (x: f64) -> (r: bool)
    ensures r == f64_is_nan(x);

// `assert!(c)` panics when c is false: rewritten (R12) to vf_assert(c), whose precondition is the no-panic obligation.
#[verifier::external_body]
pub fn vf_assert(c: bool)
    requires c
{ assert!(c) }
