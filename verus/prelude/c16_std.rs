// TRUSTED PRELUDE (C16): assumed contracts on std items that the C16 units meet and vstd does not cover.
// Nothing here models engeom code.

// NaN is kept as an uninterpreted predicate (DESIGN 2.3): the real-number model has no NaN value, the predicate only
// lets `assert!(!x.is_nan())` in engeom code become a definedness obligation that callers must discharge.
pub uninterp spec fn f64_is_nan(x: f64) -> bool;
pub assume_specification [f64::is_nan] (x: f64) -> (r: bool)
    ensures r == f64_is_nan(x);

// `assert!(c)` panics when c is false: rewritten (R12) to vf_assert(c), whose precondition is the no-panic obligation.
#[verifier::external_body]
pub fn vf_assert(c: bool)
    requires c
{ assert!(c) }
