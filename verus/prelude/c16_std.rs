// TRUSTED PRELUDE (C16): assumed contracts on std items that the C16 units meet and vstd does not cover.
// Nothing here models engeom code.

// NaN is kept as an uninterpreted predicate (DESIGN 2.3): the real-number model has no NaN value, the predicate only
// lets `assert!(!x.is_nan())` in engeom code become a definedness obligation that callers must discharge.
pub uninterp spec fn f64_is_nan(x: f64) -> bool;
pub assume_specification [f64::is_nan] (x: f64) -> (r: bool)
    ensures r == f64_is_nan(x);

// `assert!(c)` panics when c is false: rewritten (R12) to vf_assert(c), whose precondition is the no-panic obligation.
#[verifier::external_body]
pub fn vf_assert(c: bool)
    requires c
{ assert!(c) }

// `f64::EPSILON` (associated const, not supported by this Verus build): rewritten (R12) to vf_f64_epsilon().
// ASSUMED std contract: the value is 2^-52.
#[verifier::external_body]
pub fn vf_f64_epsilon() -> (r: f64)
    ensures rv(r) == 1real / 4503599627370496real
{ f64::EPSILON }

// R1b targets on a slice (`let values = self.domain.values(); values.partition_point(|v| *v < x)`): same ASSUMED std
// contract as vf_partition_point_lt / _le in prelude/f64.rs, stated for `&[f64]`.
#[verifier::external_body]
pub fn vf_partition_point_lt_slice(s: &[f64], x: f64) -> (r: usize)
    requires sorted(s@)
    ensures r <= s@.len(), forall|j: int| 0 <= j < r ==> rv(#[trigger] s@[j]) < rv(x), forall|j: int| r <= j < s@.len() ==> rv(#[trigger] s@[j]) >= rv(x)
{ unimplemented!() }
#[verifier::external_body]
pub fn vf_partition_point_le_slice(s: &[f64], x: f64) -> (r: usize)
    requires sorted(s@)
    ensures r <= s@.len(), forall|j: int| 0 <= j < r ==> rv(#[trigger] s@[j]) <= rv(x), forall|j: int| r <= j < s@.len() ==> rv(#[trigger] s@[j]) > rv(x)
{ unimplemented!() }
// `a.max(b)` / `a.min(b)` on usize (core::cmp::Ord): rewritten (R12) where the operands are index expressions
pub fn vf_max_usize(a: usize, b: usize) -> (r: usize) ensures r == (if a >= b { a } else { b }) { if a >= b { a } else { b } }
