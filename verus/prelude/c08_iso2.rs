// TRUSTED PRELUDE (C08, extension of prelude/c07_param2.rs): ASSUMED CONTRACT ON nalgebra ONLY.
//  N5  Isometry2::inverse(): the inverse of (rotation R = (re, im), translation t) is (conjugate rotation (re, -im),
//      translation -(R^T t)); the conjugate of a unit complex number is a unit complex number.
//      (R11 target of `<expr>.inverse()`; prelude/c07_param2.rs keeps an OPAQUE Iso2::inverse, so an inverse that is
//      obtained in any other way is unconstrained and the invariant below cannot be shown for it.)
pub open spec fn iso_inv_form(t: Iso2, i: Iso2) -> bool {
    iso_is(i, rv(t.rotation.re), -rv(t.rotation.im),
        -(rv(t.rotation.re) * rv(t.translation.vector.x) + rv(t.rotation.im) * rv(t.translation.vector.y)),
        -(rv(t.rotation.re) * rv(t.translation.vector.y) - rv(t.rotation.im) * rv(t.translation.vector.x)))
}
#[verifier::external_body]
pub fn vf_iso2_inverse(t: &Iso2) -> (r: Iso2)
    ensures iso_inv_form(*t, r), t.rotation.is_unit() ==> r.rotation.is_unit()
{ unimplemented!() }
// f64 addition by name (used by the template's verified client only; same meaning as `+` in prelude/f64.rs)
#[verifier::external_body]
pub fn vf_t2_add(x: f64, y: f64) -> (r: f64) ensures rv(r) == rv(x) + rv(y) { unimplemented!() }
