// TRUSTED PRELUDE (C07, cache coherence of the alignment problem).  Needs prelude/euclid.rs D=3, prelude/c02_project.rs D=3
// and prelude/c02_mesh.rs (Iso3, iso_p, TriMesh) before it.
// ASSUMED CONTRACTS ON DEPENDENCIES (nalgebra, levenberg-marquardt, std).  Nothing here models engeom's own code.
//  * nalgebra `Isometry3 * Point3` is the uninterpreted iso_p; `Unit<Vector3>::dot` (deref to the vector) is v_dot
//  * nalgebra `DVector<f64>` (`Matrix<f64, Dyn, U1, Owned<..>>`) is a stand-in `DVec` with a Seq<f64> view:
//    zeros(n), element assignment (R7: `res[i] = e` -> `res.vset(i, e)`, panics out of range), as_slice()
//  * `Vector6<f64>` (T3Storage), `RotationMatrices`, the LM report types are opaque
impl MulSpecImpl<Point3> for Iso3 {
    open spec fn obeys_mul_spec() -> bool { true }
    open spec fn mul_req(self, rhs: Point3) -> bool { true }
    open spec fn mul_spec(self, rhs: Point3) -> Point3 { iso_p(self, rhs) }
}
impl core::ops::Mul<Point3> for Iso3 { type Output = Point3;
    #[verifier::external_body] fn mul(self, rhs: Point3) -> (r: Point3) { unimplemented!() } }

// R11 target: `other - self.point` with other: &Point3 (nalgebra `&Point - Point`)
#[verifier::external_body]
pub fn vf_sub_ref(a: &Point3, b: Point3) -> (r: Vector3) ensures r == p_sub(*a, b) { unimplemented!() }

impl UnitVec3 {
    #[verifier::external_body]
    pub fn dot(&self, o: &Vector3) -> (r: f64) ensures rv(r) == v_dot(u_vec(*self), *o) { unimplemented!() }
}

#[verifier::external_body] #[derive(Clone, Copy)] pub struct T3Storage { _p: [f64; 6] }
#[verifier::external_body] pub struct RotationMatrices { _p: [u8; 0] }
impl Clone for RotationMatrices { #[verifier::external_body] fn clone(&self) -> (r: RotationMatrices) { unimplemented!() } }

#[verifier::external_body] pub struct DVec { _v: Vec<f64> }
impl DVec {
    pub uninterp spec fn view(&self) -> Seq<f64>;
    #[verifier::external_body]
    pub fn zeros(n: usize) -> (r: DVec)
        ensures r@.len() == n, forall|i: int| 0 <= i < n ==> rv(#[trigger] r@[i]) == 0real { unimplemented!() }
    #[verifier::external_body]
    pub fn vset(&mut self, i: usize, v: f64)
        requires (i as int) < old(self)@.len()                 // nalgebra panics on an out-of-range index
        ensures final(self)@ == old(self)@.update(i as int, v) { unimplemented!() }
    #[verifier::external_body]
    pub fn as_slice(&self) -> (r: &[f64]) ensures r@ == self@ { unimplemented!() }
}

pub assume_specification<T: Clone> [<[T]>::to_vec] (s: &[T]) -> (r: Vec<T>)
    ensures r@ == s@;

// levenberg-marquardt 0.14 report types, mirrored variant by variant so that code that matches on the termination reason
// still goes through the verifier; was_successful() is the crate's `matches!(self, ResidualsZero | Orthogonal | Converged{..})`.
// NOTHING is assumed about which reason the driver reports.
pub enum TerminationReason {
    User(&'static str), Numerical(&'static str), ResidualsZero, Orthogonal, Converged { ftol: bool, xtol: bool },
    NoImprovementPossible(&'static str), LostPatience, NoParameters, NoResiduals, WrongDimensions(&'static str),
}
impl TerminationReason {
    #[verifier::external_body]
    pub fn was_successful(&self) -> (r: bool)
        ensures r == (*self is ResidualsZero || *self is Orthogonal || *self is Converged)
    { unimplemented!() }
}
pub struct MinimizationReport { pub termination: TerminationReason, pub number_of_evaluations: usize, pub objective_function: f64 }
pub struct LevenbergMarquardt { _p: u8 }
impl LevenbergMarquardt {
    #[verifier::external_body]
    pub fn new() -> (r: LevenbergMarquardt) { unimplemented!() }
}
