// TRUSTED PRELUDE (C03 / C19): stand-ins for the nalgebra types engeom passes around, dimension {D}:
// Point{D} (= nalgebra OPoint { coords }), Vector{D}, UnitVec{D} (= Unit<Vector>), Iso{D} (= Isometry).
// ASSUMED CONTRACTS ON DEPENDENCIES.  engeom's own code is never modelled here.
// Every axiom is an identity of a real inner-product space / of its rigid motions; one trigger each.
//
//   real vector space            V1  a + b == b + a                         V2  (a + b) + c == a + (b + c)
//                                V3  a + 0 == a                             V4  a + (-1)a == 0
//                                V5  s(a + b) == sa + sb                    V6  sa + ta == (s + t)a
//                                V7  t(sa) == (st)a                         V8  1a == a
//   inner product                D1  a.b == b.a                             D2  (a + b).c == a.c + b.c
//                                D3  (sa).b == s(a.b)
//   norm                         N1  |v| >= 0                               N2  |v||v| == v.v
//   Unit<Vector>                 U1  |v| > 0  ==>  vec(unit v) == (1/|v|) v  (new_normalize)
//                                U2  vec(-u) == (-1) vec(u)                  (Neg for Unit)
//   isometry T = (R, translation) I1  T(p + v) == T(p) + R(v)                I2  R(a + b) == R(a) + R(b)
//                                I3  R(sa) == s R(a)                        I4  R(a).R(b) == a.b
//                                I5  vec(T * u) == R(vec u)                  (Isometry * Unit rotates only)
//                                I6  T^-1(T(p)) == p                        I7  R^-1(R(v)) == v
//                                I8  (T o S)(p) == T(S(p))                  I9  (R_T R_S)(v) == R_T(R_S(v))
//                                I10 T(T^-1(p)) == p                        I11 R(R^-1(v)) == v
//                                I12 T.translation.vector == T(origin)       (public field of Isometry)
//                                I13 T.rotation * v == R(v), vec(T.rotation * u) == R(vec u)   (public field of Isometry)
// Derived (proved below, not assumed): a*0 == 0, cancellation laws, right-linearity of dot, |R v| == |v|,
// unit(v).unit(v) == 1, T(a) - T(b) == R(a - b).
// "unit-ness" of a UnitVec value is NOT assumed (Unit::new_unchecked / deserialisation / new_normalize(0) exist):
// it is the explicit predicate u_ok(u), established by new_normalize of a non-zero vector and preserved by - and T*.
#[verifier::external_body] #[derive(Clone, Copy)] pub struct Vector{D} { _p: [f64; {D}] }
#[verifier::external_body] #[derive(Clone, Copy)] pub struct UnitVec{D} { _p: [f64; {D}] }
#[derive(Clone, Copy)] pub struct Point{D} { pub coords: Vector{D} }
// Isometry { rotation, translation: Translation { vector } } with nalgebra's public fields (a closed-form rewrite of a
// transform may read `iso.translation.vector` / `iso.rotation`); the rotation stays opaque
#[verifier::external_body] #[derive(Clone, Copy)] pub struct Rot{D} { _p: [f64; 9] }
#[derive(Clone, Copy)] pub struct Translation{D} { pub vector: Vector{D} }
#[derive(Clone, Copy)] pub struct Iso{D} { pub rotation: Rot{D}, pub translation: Translation{D} }

pub uninterp spec fn v_zero() -> Vector{D};
pub uninterp spec fn v_add(a: Vector{D}, b: Vector{D}) -> Vector{D};
pub uninterp spec fn v_scale(v: Vector{D}, s: real) -> Vector{D};
pub uninterp spec fn v_dot(a: Vector{D}, b: Vector{D}) -> real;
pub uninterp spec fn v_norm(v: Vector{D}) -> real;
pub uninterp spec fn v_unit(v: Vector{D}) -> UnitVec{D};     // Unit::new_normalize
pub uninterp spec fn u_vec(u: UnitVec{D}) -> Vector{D};      // Unit::into_inner / deref
pub uninterp spec fn u_neg(u: UnitVec{D}) -> UnitVec{D};     // Neg for Unit
pub uninterp spec fn iso_p(t: Iso{D}, p: Point{D}) -> Point{D};     // Isometry * Point  (rotation + translation)
pub uninterp spec fn iso_v(t: Iso{D}, v: Vector{D}) -> Vector{D};   // Isometry * Vector (rotation only)
pub uninterp spec fn iso_u(t: Iso{D}, u: UnitVec{D}) -> UnitVec{D}; // Isometry * Unit<Vector> (rotation only)
pub uninterp spec fn iso_inv(t: Iso{D}) -> Iso{D};
pub uninterp spec fn iso_mul(t: Iso{D}, s: Iso{D}) -> Iso{D};

pub uninterp spec fn rot_v(r: Rot{D}, v: Vector{D}) -> Vector{D};    // Rotation * Vector
pub uninterp spec fn rot_u(r: Rot{D}, u: UnitVec{D}) -> UnitVec{D};  // Rotation * Unit<Vector>

pub open spec fn v_neg(v: Vector{D}) -> Vector{D} { v_scale(v, -1real) }
pub open spec fn p_origin() -> Point{D} { Point{D} { coords: v_zero() } }
// the translation part of T: the image of the origin
pub open spec fn iso_t(t: Iso{D}) -> Vector{D} { iso_p(t, p_origin()).coords }
pub open spec fn v_sub(a: Vector{D}, b: Vector{D}) -> Vector{D} { v_add(a, v_neg(b)) }
pub open spec fn p_from(v: Vector{D}) -> Point{D} { Point{D} { coords: v } }
pub open spec fn p_sub(a: Point{D}, b: Point{D}) -> Vector{D} { v_sub(a.coords, b.coords) }
pub open spec fn p_add(p: Point{D}, v: Vector{D}) -> Point{D} { Point{D} { coords: v_add(p.coords, v) } }
pub open spec fn p_subv(p: Point{D}, v: Vector{D}) -> Point{D} { p_add(p, v_neg(v)) }
pub open spec fn p_dist(a: Point{D}, b: Point{D}) -> real { v_norm(p_sub(a, b)) }
pub open spec fn u_ok(u: UnitVec{D}) -> bool { v_dot(u_vec(u), u_vec(u)) == 1real }

pub broadcast axiom fn ax_add_comm(a: Vector{D}, b: Vector{D}) ensures #[trigger] v_add(a, b) == v_add(b, a);
pub broadcast axiom fn ax_add_assoc(a: Vector{D}, b: Vector{D}, c: Vector{D}) ensures #[trigger] v_add(v_add(a, b), c) == v_add(a, v_add(b, c));
pub broadcast axiom fn ax_add_zero(a: Vector{D}) ensures #[trigger] v_add(a, v_zero()) == a;
pub broadcast axiom fn ax_add_neg(a: Vector{D}) ensures #[trigger] v_add(a, v_scale(a, -1real)) == v_zero();
pub broadcast axiom fn ax_scale_add(a: Vector{D}, b: Vector{D}, s: real) ensures #[trigger] v_scale(v_add(a, b), s) == v_add(v_scale(a, s), v_scale(b, s));
pub broadcast axiom fn ax_scale_sum(a: Vector{D}, s: real, t: real) ensures #[trigger] v_add(v_scale(a, s), v_scale(a, t)) == v_scale(a, s + t);
pub broadcast axiom fn ax_scale_scale(a: Vector{D}, s: real, t: real) ensures #[trigger] v_scale(v_scale(a, s), t) == v_scale(a, s * t);
pub broadcast axiom fn ax_scale_one(a: Vector{D}) ensures #[trigger] v_scale(a, 1real) == a;
pub broadcast axiom fn ax_dot_sym(a: Vector{D}, b: Vector{D}) ensures #[trigger] v_dot(a, b) == v_dot(b, a);
pub broadcast axiom fn ax_dot_add(a: Vector{D}, b: Vector{D}, c: Vector{D}) ensures #[trigger] v_dot(v_add(a, b), c) == v_dot(a, c) + v_dot(b, c);
pub broadcast axiom fn ax_dot_scale(a: Vector{D}, s: real, b: Vector{D}) ensures #[trigger] v_dot(v_scale(a, s), b) == s * v_dot(a, b);
pub broadcast axiom fn ax_norm_nonneg(v: Vector{D}) ensures #[trigger] v_norm(v) >= 0real;
pub broadcast axiom fn ax_norm_sq(v: Vector{D}) ensures #[trigger] v_norm(v) * v_norm(v) == v_dot(v, v);
pub broadcast axiom fn ax_unit_vec(v: Vector{D}) requires v_norm(v) > 0real ensures #[trigger] u_vec(v_unit(v)) == v_scale(v, 1real / v_norm(v));
pub broadcast axiom fn ax_u_neg(u: UnitVec{D}) ensures #[trigger] u_vec(u_neg(u)) == v_scale(u_vec(u), -1real);
pub broadcast axiom fn ax_iso_p_add(t: Iso{D}, p: Point{D}, v: Vector{D}) ensures #[trigger] iso_p(t, p_add(p, v)) == p_add(iso_p(t, p), iso_v(t, v));
pub broadcast axiom fn ax_iso_v_add(t: Iso{D}, a: Vector{D}, b: Vector{D}) ensures #[trigger] iso_v(t, v_add(a, b)) == v_add(iso_v(t, a), iso_v(t, b));
pub broadcast axiom fn ax_iso_v_scale(t: Iso{D}, a: Vector{D}, s: real) ensures #[trigger] iso_v(t, v_scale(a, s)) == v_scale(iso_v(t, a), s);
pub broadcast axiom fn ax_iso_dot(t: Iso{D}, a: Vector{D}, b: Vector{D}) ensures #[trigger] v_dot(iso_v(t, a), iso_v(t, b)) == v_dot(a, b);
pub broadcast axiom fn ax_iso_u(t: Iso{D}, u: UnitVec{D}) ensures #[trigger] u_vec(iso_u(t, u)) == iso_v(t, u_vec(u));
pub broadcast axiom fn ax_iso_inv_p(t: Iso{D}, p: Point{D}) ensures #[trigger] iso_p(iso_inv(t), iso_p(t, p)) == p;
pub broadcast axiom fn ax_iso_inv_v(t: Iso{D}, v: Vector{D}) ensures #[trigger] iso_v(iso_inv(t), iso_v(t, v)) == v;
pub broadcast axiom fn ax_iso_mul_p(t: Iso{D}, s: Iso{D}, p: Point{D}) ensures #[trigger] iso_p(iso_mul(t, s), p) == iso_p(t, iso_p(s, p));
pub broadcast axiom fn ax_iso_mul_v(t: Iso{D}, s: Iso{D}, v: Vector{D}) ensures #[trigger] iso_v(iso_mul(t, s), v) == iso_v(t, iso_v(s, v));
pub broadcast axiom fn ax_iso_inv_p2(t: Iso{D}, p: Point{D}) ensures #[trigger] iso_p(t, iso_p(iso_inv(t), p)) == p;
pub broadcast axiom fn ax_iso_inv_v2(t: Iso{D}, v: Vector{D}) ensures #[trigger] iso_v(t, iso_v(iso_inv(t), v)) == v;

pub broadcast axiom fn ax_iso_translation(t: Iso{D}) ensures #[trigger] t.translation.vector == iso_t(t);
pub broadcast axiom fn ax_iso_rotation_v(t: Iso{D}, v: Vector{D}) ensures #[trigger] rot_v(t.rotation, v) == iso_v(t, v);
pub broadcast axiom fn ax_iso_rotation_u(t: Iso{D}, u: UnitVec{D}) ensures #[trigger] u_vec(rot_u(t.rotation, u)) == iso_v(t, u_vec(u));

// broadcast by default in units: only the rewriting-to-smaller-terms axioms (no AC / distributivity: those are
// invoked explicitly by the lemmas below)
pub broadcast group vec{D}_axioms {
    ax_add_zero, ax_scale_scale, ax_scale_one, ax_dot_sym, ax_dot_add, ax_dot_scale, ax_norm_nonneg, ax_norm_sq,
    ax_unit_vec, ax_u_neg, ax_iso_p_add, ax_iso_v_add, ax_iso_v_scale, ax_iso_dot, ax_iso_u,
    ax_iso_inv_p, ax_iso_inv_v, ax_iso_mul_p, ax_iso_mul_v, ax_iso_inv_p2, ax_iso_inv_v2,
    ax_iso_translation, ax_iso_rotation_v, ax_iso_rotation_u,
}

// ---------------------------------------------------------------- derived facts (PROVED from the axioms above)
pub proof fn lemma_scale_zero(a: Vector{D})
    ensures v_scale(a, 0real) == v_zero()
{
    ax_scale_sum(a, 1real, -1real);
    ax_scale_one(a);
    ax_add_neg(a);
}
pub proof fn lemma_neg_zero_scale(a: Vector{D})
    ensures v_neg(v_scale(a, 0real)) == v_zero()
{
    ax_scale_scale(a, 0real, -1real);
    lemma_scale_zero(a);
}
// b + (a - b) == a
pub proof fn lemma_add_sub_cancel(a: Vector{D}, b: Vector{D})
    ensures v_add(b, v_sub(a, b)) == a
{
    ax_add_comm(a, v_neg(b));
    ax_add_assoc(b, v_neg(b), a);
    ax_add_neg(b);
    ax_add_comm(v_zero(), a);
    ax_add_zero(a);
}
// (x + y) - x == y
pub proof fn lemma_sub_add_cancel(x: Vector{D}, y: Vector{D})
    ensures v_sub(v_add(x, y), x) == y
{
    ax_add_comm(x, y);
    ax_add_assoc(y, x, v_neg(x));
    ax_add_neg(x);
    ax_add_zero(y);
}
pub proof fn lemma_dot_sub_right(a: Vector{D}, b: Vector{D}, c: Vector{D})
    ensures v_dot(a, v_sub(b, c)) == v_dot(a, b) - v_dot(a, c)
{
    ax_dot_sym(a, v_sub(b, c));
    ax_dot_add(b, v_neg(c), a);
    ax_dot_scale(c, -1real, a);
    ax_dot_sym(b, a);
    ax_dot_sym(c, a);
}
pub proof fn lemma_dot_add_right(a: Vector{D}, b: Vector{D}, c: Vector{D})
    ensures v_dot(a, v_add(b, c)) == v_dot(a, b) + v_dot(a, c)
{
    ax_dot_sym(a, v_add(b, c));
    ax_dot_add(b, c, a);
    ax_dot_sym(b, a);
    ax_dot_sym(c, a);
}
pub proof fn lemma_dot_scale_right(a: Vector{D}, b: Vector{D}, s: real)
    ensures v_dot(a, v_scale(b, s)) == s * v_dot(a, b)
{
    ax_dot_sym(a, v_scale(b, s));
    ax_dot_scale(b, s, a);
    ax_dot_sym(b, a);
}
pub proof fn lemma_sq_inj(x: real, y: real)
    requires x >= 0real, y >= 0real, x * x == y * y
    ensures x == y
{
    assert((x - y) * (x + y) == 0real) by (nonlinear_arith) requires x * x == y * y;
    assert(x - y == 0real || x + y == 0real) by (nonlinear_arith) requires (x - y) * (x + y) == 0real;
}
pub proof fn lemma_iso_norm(t: Iso{D}, v: Vector{D})
    ensures v_norm(iso_v(t, v)) == v_norm(v)
{
    ax_iso_dot(t, v, v);
    ax_norm_sq(v); ax_norm_sq(iso_v(t, v));
    ax_norm_nonneg(v); ax_norm_nonneg(iso_v(t, v));
    lemma_sq_inj(v_norm(iso_v(t, v)), v_norm(v));
}
pub proof fn lemma_unit_ok(v: Vector{D})
    requires v_norm(v) > 0real
    ensures u_ok(v_unit(v))
{
    let n = v_norm(v); let k = 1real / n;
    ax_unit_vec(v);
    ax_dot_scale(v, k, v_scale(v, k));
    lemma_dot_scale_right(v, v, k);
    ax_norm_sq(v);
    assert(k * (k * (n * n)) == 1real) by (nonlinear_arith) requires n > 0real, k == 1real / n;
}
pub proof fn lemma_u_neg_ok(u: UnitVec{D})
    requires u_ok(u)
    ensures u_ok(u_neg(u))
{
    ax_u_neg(u);
    ax_dot_scale(u_vec(u), -1real, v_scale(u_vec(u), -1real));
    lemma_dot_scale_right(u_vec(u), u_vec(u), -1real);
}
pub proof fn lemma_iso_u_ok(t: Iso{D}, u: UnitVec{D})
    requires u_ok(u)
    ensures u_ok(iso_u(t, u))
{
    ax_iso_u(t, u);
    ax_iso_dot(t, u_vec(u), u_vec(u));
}
// T(a) - T(b) == R(a - b)
pub proof fn lemma_iso_p_sub(t: Iso{D}, a: Point{D}, b: Point{D})
    ensures p_sub(iso_p(t, a), iso_p(t, b)) == iso_v(t, p_sub(a, b))
{
    lemma_add_sub_cancel(a.coords, b.coords);
    assert(a == p_add(b, p_sub(a, b)));
    ax_iso_p_add(t, b, p_sub(a, b));
    lemma_sub_add_cancel(iso_p(t, b).coords, iso_v(t, p_sub(a, b)));
}
pub proof fn lemma_iso_dist(t: Iso{D}, a: Point{D}, b: Point{D})
    ensures p_dist(iso_p(t, a), iso_p(t, b)) == p_dist(a, b)
{
    lemma_iso_p_sub(t, a, b);
    lemma_iso_norm(t, p_sub(a, b));
}
// T(p - v) == T(p) - R(v)
pub proof fn lemma_iso_p_subv(t: Iso{D}, p: Point{D}, v: Vector{D})
    ensures iso_p(t, p_subv(p, v)) == p_subv(iso_p(t, p), iso_v(t, v))
{
    ax_iso_p_add(t, p, v_neg(v));
    ax_iso_v_scale(t, v, -1real);
}
// T(p) == T(origin) + R(p - origin):  the coordinates of a moved point are translation part + rotated coordinates
pub proof fn lemma_iso_p_decomp(t: Iso{D}, p: Point{D})
    ensures iso_p(t, p).coords == v_add(iso_t(t), iso_v(t, p.coords))
{
    ax_add_comm(v_zero(), p.coords);
    ax_add_zero(p.coords);
    assert(p == p_add(p_origin(), p.coords));
    ax_iso_p_add(t, p_origin(), p.coords);
}
// (R n).(T p) == n.p + (R n).t :  how the offset of a plane / the scalar projection on a rotated direction moves
pub proof fn lemma_iso_dot_moved(t: Iso{D}, n: Vector{D}, p: Point{D})
    ensures v_dot(iso_v(t, n), iso_p(t, p).coords) == v_dot(n, p.coords) + v_dot(iso_v(t, n), iso_t(t))
{
    lemma_iso_p_decomp(t, p);
    lemma_dot_add_right(iso_v(t, n), iso_t(t), iso_v(t, p.coords));
    ax_iso_dot(t, n, p.coords);
}
// ---------------------------------------------------------------- exec operators (nalgebra), spec = the functions above
impl SubSpecImpl<Point{D}> for Point{D} {
    open spec fn obeys_sub_spec() -> bool { true }
    open spec fn sub_req(self, rhs: Point{D}) -> bool { true }
    open spec fn sub_spec(self, rhs: Point{D}) -> Vector{D} { p_sub(self, rhs) }
}
impl core::ops::Sub<Point{D}> for Point{D} { type Output = Vector{D};
    #[verifier::external_body] fn sub(self, rhs: Point{D}) -> (r: Vector{D}) { unimplemented!() } }
impl<'a, 'b> SubSpecImpl<&'b Point{D}> for &'a Point{D} {
    open spec fn obeys_sub_spec() -> bool { true }
    open spec fn sub_req(self, rhs: &'b Point{D}) -> bool { true }
    open spec fn sub_spec(self, rhs: &'b Point{D}) -> Vector{D} { p_sub(*self, *rhs) }
}
impl<'a, 'b> core::ops::Sub<&'b Point{D}> for &'a Point{D} { type Output = Vector{D};
    #[verifier::external_body] fn sub(self, rhs: &'b Point{D}) -> (r: Vector{D}) { unimplemented!() } }
impl<'a> SubSpecImpl<Point{D}> for &'a Point{D} {
    open spec fn obeys_sub_spec() -> bool { true }
    open spec fn sub_req(self, rhs: Point{D}) -> bool { true }
    open spec fn sub_spec(self, rhs: Point{D}) -> Vector{D} { p_sub(*self, rhs) }
}
impl<'a> core::ops::Sub<Point{D}> for &'a Point{D} { type Output = Vector{D};
    #[verifier::external_body] fn sub(self, rhs: Point{D}) -> (r: Vector{D}) { unimplemented!() } }
impl<'b> SubSpecImpl<&'b Point{D}> for Point{D} {
    open spec fn obeys_sub_spec() -> bool { true }
    open spec fn sub_req(self, rhs: &'b Point{D}) -> bool { true }
    open spec fn sub_spec(self, rhs: &'b Point{D}) -> Vector{D} { p_sub(self, *rhs) }
}
impl<'b> core::ops::Sub<&'b Point{D}> for Point{D} { type Output = Vector{D};
    #[verifier::external_body] fn sub(self, rhs: &'b Point{D}) -> (r: Vector{D}) { unimplemented!() } }
impl SubSpecImpl<Vector{D}> for Point{D} {
    open spec fn obeys_sub_spec() -> bool { true }
    open spec fn sub_req(self, rhs: Vector{D}) -> bool { true }
    open spec fn sub_spec(self, rhs: Vector{D}) -> Point{D} { p_subv(self, rhs) }
}
impl core::ops::Sub<Vector{D}> for Point{D} { type Output = Point{D};
    #[verifier::external_body] fn sub(self, rhs: Vector{D}) -> (r: Point{D}) { unimplemented!() } }
impl<'a> SubSpecImpl<Vector{D}> for &'a Point{D} {
    open spec fn obeys_sub_spec() -> bool { true }
    open spec fn sub_req(self, rhs: Vector{D}) -> bool { true }
    open spec fn sub_spec(self, rhs: Vector{D}) -> Point{D} { p_subv(*self, rhs) }
}
impl<'a> core::ops::Sub<Vector{D}> for &'a Point{D} { type Output = Point{D};
    #[verifier::external_body] fn sub(self, rhs: Vector{D}) -> (r: Point{D}) { unimplemented!() } }
impl AddSpecImpl<Vector{D}> for Point{D} {
    open spec fn obeys_add_spec() -> bool { true }
    open spec fn add_req(self, rhs: Vector{D}) -> bool { true }
    open spec fn add_spec(self, rhs: Vector{D}) -> Point{D} { p_add(self, rhs) }
}
impl core::ops::Add<Vector{D}> for Point{D} { type Output = Point{D};
    #[verifier::external_body] fn add(self, rhs: Vector{D}) -> (r: Point{D}) { unimplemented!() } }
impl<'a> AddSpecImpl<Vector{D}> for &'a Point{D} {
    open spec fn obeys_add_spec() -> bool { true }
    open spec fn add_req(self, rhs: Vector{D}) -> bool { true }
    open spec fn add_spec(self, rhs: Vector{D}) -> Point{D} { p_add(*self, rhs) }
}
impl<'a> core::ops::Add<Vector{D}> for &'a Point{D} { type Output = Point{D};
    #[verifier::external_body] fn add(self, rhs: Vector{D}) -> (r: Point{D}) { unimplemented!() } }
impl AddSpecImpl<Vector{D}> for Vector{D} {
    open spec fn obeys_add_spec() -> bool { true }
    open spec fn add_req(self, rhs: Vector{D}) -> bool { true }
    open spec fn add_spec(self, rhs: Vector{D}) -> Vector{D} { v_add(self, rhs) }
}
impl core::ops::Add<Vector{D}> for Vector{D} { type Output = Vector{D};
    #[verifier::external_body] fn add(self, rhs: Vector{D}) -> (r: Vector{D}) { unimplemented!() } }
impl SubSpecImpl<Vector{D}> for Vector{D} {
    open spec fn obeys_sub_spec() -> bool { true }
    open spec fn sub_req(self, rhs: Vector{D}) -> bool { true }
    open spec fn sub_spec(self, rhs: Vector{D}) -> Vector{D} { v_sub(self, rhs) }
}
impl core::ops::Sub<Vector{D}> for Vector{D} { type Output = Vector{D};
    #[verifier::external_body] fn sub(self, rhs: Vector{D}) -> (r: Vector{D}) { unimplemented!() } }
impl MulSpecImpl<f64> for Vector{D} {
    open spec fn obeys_mul_spec() -> bool { true }
    open spec fn mul_req(self, rhs: f64) -> bool { true }
    open spec fn mul_spec(self, rhs: f64) -> Vector{D} { v_scale(self, rv(rhs)) }
}
impl core::ops::Mul<f64> for Vector{D} { type Output = Vector{D};
    #[verifier::external_body] fn mul(self, rhs: f64) -> (r: Vector{D}) { unimplemented!() } }
impl<'a> MulSpecImpl<f64> for &'a Vector{D} {
    open spec fn obeys_mul_spec() -> bool { true }
    open spec fn mul_req(self, rhs: f64) -> bool { true }
    open spec fn mul_spec(self, rhs: f64) -> Vector{D} { v_scale(*self, rv(rhs)) }
}
impl<'a> core::ops::Mul<f64> for &'a Vector{D} { type Output = Vector{D};
    #[verifier::external_body] fn mul(self, rhs: f64) -> (r: Vector{D}) { unimplemented!() } }
impl<'a> MulSpecImpl<Point{D}> for &'a Iso{D} {
    open spec fn obeys_mul_spec() -> bool { true }
    open spec fn mul_req(self, rhs: Point{D}) -> bool { true }
    open spec fn mul_spec(self, rhs: Point{D}) -> Point{D} { iso_p(*self, rhs) }
}
impl<'a> core::ops::Mul<Point{D}> for &'a Iso{D} { type Output = Point{D};
    #[verifier::external_body] fn mul(self, rhs: Point{D}) -> (r: Point{D}) { unimplemented!() } }
impl<'a, 'b> MulSpecImpl<&'b Point{D}> for &'a Iso{D} {
    open spec fn obeys_mul_spec() -> bool { true }
    open spec fn mul_req(self, rhs: &'b Point{D}) -> bool { true }
    open spec fn mul_spec(self, rhs: &'b Point{D}) -> Point{D} { iso_p(*self, *rhs) }
}
impl<'a, 'b> core::ops::Mul<&'b Point{D}> for &'a Iso{D} { type Output = Point{D};
    #[verifier::external_body] fn mul(self, rhs: &'b Point{D}) -> (r: Point{D}) { unimplemented!() } }
impl<'a> MulSpecImpl<Vector{D}> for &'a Iso{D} {
    open spec fn obeys_mul_spec() -> bool { true }
    open spec fn mul_req(self, rhs: Vector{D}) -> bool { true }
    open spec fn mul_spec(self, rhs: Vector{D}) -> Vector{D} { iso_v(*self, rhs) }
}
impl<'a> core::ops::Mul<Vector{D}> for &'a Iso{D} { type Output = Vector{D};
    #[verifier::external_body] fn mul(self, rhs: Vector{D}) -> (r: Vector{D}) { unimplemented!() } }
impl<'a> MulSpecImpl<UnitVec{D}> for &'a Iso{D} {
    open spec fn obeys_mul_spec() -> bool { true }
    open spec fn mul_req(self, rhs: UnitVec{D}) -> bool { true }
    open spec fn mul_spec(self, rhs: UnitVec{D}) -> UnitVec{D} { iso_u(*self, rhs) }
}
impl<'a> core::ops::Mul<UnitVec{D}> for &'a Iso{D} { type Output = UnitVec{D};
    #[verifier::external_body] fn mul(self, rhs: UnitVec{D}) -> (r: UnitVec{D}) { unimplemented!() } }
impl MulSpecImpl<Iso{D}> for Iso{D} {
    open spec fn obeys_mul_spec() -> bool { true }
    open spec fn mul_req(self, rhs: Iso{D}) -> bool { true }
    open spec fn mul_spec(self, rhs: Iso{D}) -> Iso{D} { iso_mul(self, rhs) }
}
impl core::ops::Mul<Iso{D}> for Iso{D} { type Output = Iso{D};
    #[verifier::external_body] fn mul(self, rhs: Iso{D}) -> (r: Iso{D}) { unimplemented!() } }
impl<'a, 'b> MulSpecImpl<&'b Iso{D}> for &'a Iso{D} {
    open spec fn obeys_mul_spec() -> bool { true }
    open spec fn mul_req(self, rhs: &'b Iso{D}) -> bool { true }
    open spec fn mul_spec(self, rhs: &'b Iso{D}) -> Iso{D} { iso_mul(*self, *rhs) }
}
impl<'a, 'b> core::ops::Mul<&'b Iso{D}> for &'a Iso{D} { type Output = Iso{D};
    #[verifier::external_body] fn mul(self, rhs: &'b Iso{D}) -> (r: Iso{D}) { unimplemented!() } }
// nalgebra: OPoint * scalar scales the coordinates; Vector / scalar (scalar != 0 in the real-number model)
impl MulSpecImpl<f64> for Point{D} {
    open spec fn obeys_mul_spec() -> bool { true }
    open spec fn mul_req(self, rhs: f64) -> bool { true }
    open spec fn mul_spec(self, rhs: f64) -> Point{D} { p_from(v_scale(self.coords, rv(rhs))) }
}
impl core::ops::Mul<f64> for Point{D} { type Output = Point{D};
    #[verifier::external_body] fn mul(self, rhs: f64) -> (r: Point{D}) { unimplemented!() } }
impl DivSpecImpl<f64> for Vector{D} {
    open spec fn obeys_div_spec() -> bool { true }
    open spec fn div_req(self, rhs: f64) -> bool { rv(rhs) != 0real }
    open spec fn div_spec(self, rhs: f64) -> Vector{D} { v_scale(self, 1real / rv(rhs)) }
}
impl core::ops::Div<f64> for Vector{D} { type Output = Vector{D};
    #[verifier::external_body] fn div(self, rhs: f64) -> (r: Vector{D}) { unimplemented!() } }
// (Verus resolves `&A op &B` against the by-value impl `A op B`: every reference impl needs its by-value twin)
impl MulSpecImpl<Point{D}> for Iso{D} {
    open spec fn obeys_mul_spec() -> bool { true }
    open spec fn mul_req(self, rhs: Point{D}) -> bool { true }
    open spec fn mul_spec(self, rhs: Point{D}) -> Point{D} { iso_p(self, rhs) }
}
impl core::ops::Mul<Point{D}> for Iso{D} { type Output = Point{D};
    #[verifier::external_body] fn mul(self, rhs: Point{D}) -> (r: Point{D}) { unimplemented!() } }
impl MulSpecImpl<Vector{D}> for Iso{D} {
    open spec fn obeys_mul_spec() -> bool { true }
    open spec fn mul_req(self, rhs: Vector{D}) -> bool { true }
    open spec fn mul_spec(self, rhs: Vector{D}) -> Vector{D} { iso_v(self, rhs) }
}
impl core::ops::Mul<Vector{D}> for Iso{D} { type Output = Vector{D};
    #[verifier::external_body] fn mul(self, rhs: Vector{D}) -> (r: Vector{D}) { unimplemented!() } }
impl MulSpecImpl<UnitVec{D}> for Iso{D} {
    open spec fn obeys_mul_spec() -> bool { true }
    open spec fn mul_req(self, rhs: UnitVec{D}) -> bool { true }
    open spec fn mul_spec(self, rhs: UnitVec{D}) -> UnitVec{D} { iso_u(self, rhs) }
}
impl core::ops::Mul<UnitVec{D}> for Iso{D} { type Output = UnitVec{D};
    #[verifier::external_body] fn mul(self, rhs: UnitVec{D}) -> (r: UnitVec{D}) { unimplemented!() } }
impl NegSpecImpl for UnitVec{D} {
    open spec fn obeys_neg_spec() -> bool { true }
    open spec fn neg_req(self) -> bool { true }
    open spec fn neg_spec(self) -> UnitVec{D} { u_neg(self) }
}
impl core::ops::Neg for UnitVec{D} { type Output = UnitVec{D};
    #[verifier::external_body] fn neg(self) -> (r: UnitVec{D}) { unimplemented!() } }
impl NegSpecImpl for Vector{D} {
    open spec fn obeys_neg_spec() -> bool { true }
    open spec fn neg_req(self) -> bool { true }
    open spec fn neg_spec(self) -> Vector{D} { v_neg(self) }
}
impl core::ops::Neg for Vector{D} { type Output = Vector{D};
    #[verifier::external_body] fn neg(self) -> (r: Vector{D}) { unimplemented!() } }
impl MulSpecImpl<Vector{D}> for Rot{D} {
    open spec fn obeys_mul_spec() -> bool { true }
    open spec fn mul_req(self, rhs: Vector{D}) -> bool { true }
    open spec fn mul_spec(self, rhs: Vector{D}) -> Vector{D} { rot_v(self, rhs) }
}
impl core::ops::Mul<Vector{D}> for Rot{D} { type Output = Vector{D};
    #[verifier::external_body] fn mul(self, rhs: Vector{D}) -> (r: Vector{D}) { unimplemented!() } }
impl MulSpecImpl<UnitVec{D}> for Rot{D} {
    open spec fn obeys_mul_spec() -> bool { true }
    open spec fn mul_req(self, rhs: UnitVec{D}) -> bool { true }
    open spec fn mul_spec(self, rhs: UnitVec{D}) -> UnitVec{D} { rot_u(self, rhs) }
}
impl core::ops::Mul<UnitVec{D}> for Rot{D} { type Output = UnitVec{D};
    #[verifier::external_body] fn mul(self, rhs: UnitVec{D}) -> (r: UnitVec{D}) { unimplemented!() } }
// Point::from(vector) / vector.into()
impl vstd::std_specs::convert::FromSpecImpl<Vector{D}> for Point{D} {
    open spec fn obeys_from_spec() -> bool { true }
    open spec fn from_spec(v: Vector{D}) -> Point{D} { Point{D} { coords: v } }
}
impl From<Vector{D}> for Point{D} { fn from(v: Vector{D}) -> (r: Point{D}) { Point{D} { coords: v } } }

// `x.dot(&y)`: y may be a Vector or (through Deref) a Unit<Vector>
pub trait VecLike{D} { spec fn vec(&self) -> Vector{D}; }
impl VecLike{D} for Vector{D} { open spec fn vec(&self) -> Vector{D} { *self } }
impl VecLike{D} for UnitVec{D} { open spec fn vec(&self) -> Vector{D} { u_vec(*self) } }
impl Vector{D} {
    #[verifier::external_body]
    pub fn norm(&self) -> (r: f64) ensures rv(r) == v_norm(*self) { unimplemented!() }
    #[verifier::external_body]
    pub fn dot<T: VecLike{D}>(&self, o: &T) -> (r: f64) ensures rv(r) == v_dot(*self, o.vec()) { unimplemented!() }
    #[verifier::external_body]
    pub fn zeros() -> (r: Vector{D}) ensures r == v_zero() { unimplemented!() }
    // robustness stand-ins (nalgebra): |v|^2 = v.v -- so that a rewrite of a length through squared norms stays inside the
    // verifier's subset and is judged against the contract instead of being undecided
    #[verifier::external_body]
    pub fn norm_squared(&self) -> (r: f64) ensures rv(r) == v_dot(*self, *self) { unimplemented!() }
    #[verifier::external_body]
    pub fn magnitude_squared(&self) -> (r: f64) ensures rv(r) == v_dot(*self, *self) { unimplemented!() }
    #[verifier::external_body]
    pub fn magnitude(&self) -> (r: f64) ensures rv(r) == v_norm(*self) { unimplemented!() }
}
impl UnitVec{D} {
    #[verifier::external_body]
    pub fn into_inner(self) -> (r: Vector{D}) ensures r == u_vec(self) { unimplemented!() }
    #[verifier::external_body]
    pub fn as_ref(&self) -> (r: &Vector{D}) ensures *r == u_vec(*self) { unimplemented!() }
    #[verifier::external_body]
    pub fn dot<T: VecLike{D}>(&self, o: &T) -> (r: f64) ensures rv(r) == v_dot(u_vec(*self), o.vec()) { unimplemented!() }
    #[verifier::external_body]
    pub fn new_normalize(v: Vector{D}) -> (r: UnitVec{D}) ensures r == v_unit(v) { unimplemented!() }
}
pub struct Unit;
impl Unit {
    #[verifier::external_body]
    pub fn new_normalize(v: Vector{D}) -> (r: UnitVec{D}) ensures r == v_unit(v) { unimplemented!() }
}
impl Iso{D} {
    #[verifier::external_body]
    pub fn transform_point(&self, p: &Point{D}) -> (r: Point{D}) ensures r == iso_p(*self, *p) { unimplemented!() }
    #[verifier::external_body]
    pub fn transform_vector(&self, v: &Vector{D}) -> (r: Vector{D}) ensures r == iso_v(*self, *v) { unimplemented!() }
    #[verifier::external_body]
    pub fn inverse(&self) -> (r: Iso{D}) ensures r == iso_inv(*self) { unimplemented!() }
}
