#!/bin/bash
# MANIFEST.setup_cmd: pre-build the Kani target dir (dependencies + engeom) and the native replay runner
# into /verif/.cache so that quick checks do not pay the first-build cost. Offline.
cd "$(dirname "$0")"
export CARGO_NET_OFFLINE=true
mkdir -p .cache evidence replays
python3 - <<'PY'
import sys
sys.path.insert(0, "/verif")
from vf import kanirun
r = kanirun.run_kani("/repo", ["verif_kani::interval::proofs::interval_contains"], jobs=1, timeout=2400)
print("kani warm-up rc", r["rc"], r["wall_s"], "s")
n = kanirun.native_replay("/repo", "interval_contains", [[0]*8, [0]*8, [0]*8])
print("replay runner:", n)
PY
verus --version >/dev/null 2>&1 || echo "verus missing"
exit 0
