//! C18: AngleInterval::{contains, intersects} - MODULAR and bit-precise for their own arithmetic.
//! The callee angle_to_2pi uses `%`, which CBMC does not model bit-exactly (DESIGN.md section 8; probed again here:
//! CBMC's `3.158 % 2pi` is not 3.158), so nothing in this file goes through CBMC's fmod: angle_to_2pi is always replaced
//! by its verified contract (`stub_verified`: precondition checked, result = ANY double in [0, 2pi]).
//! Stated without naming the value the stub returned (`interval_contains_fullturn`, quick tier):
//!   * no panic / overflow / NaN for every start, extent and every normalised angle in [0, 2pi];
//!   * a full-turn interval (extent == 2pi) contains every angle and intersects every interval.
//! `interval_contains_modular` proves the full two-representative definition (Verus unit `angles`, `sp_contains`, there over
//! the reals; here in double arithmetic with the association order of the code): the value the stubbed angle_to_2pi
//! returned is read back from `angles::LAST_TO_2PI`, which its postcondition predicate stores (Kani only), so the claim
//! holds for EVERY normalised angle t in [0, 2pi], every start in [0, 2pi] and every extent.
//! `interval_intersects_modular`: no panic, full-turn clause; `interval_intersects_wiring` (not registered: > 20 min): intersects
//! is wired to the two membership tests (short circuit observed through the log).
use super::angles::{in_domain, in_quick, post_to_2pi};
use super::Src;
use crate::common::{angle_to_2pi, AngleInterval};
use std::f64::consts::PI;

/// the documented membership tolerance (src/common/angles.rs ANGLE_TOL, private to that module)
pub const ANGLE_TOL: f64 = 1.0e-12;

/// well-formed interval: what AngleInterval::new establishes (angles::post_interval_new)
pub fn wf(start: f64, extent: f64) -> bool { start >= 0.0 && start <= 2.0 * PI && extent >= 0.0 && extent <= 2.0 * PI }
/// x lies in the widened range, evaluated in double arithmetic with the association order of the code
pub fn in_range(start: f64, extent: f64, x: f64) -> bool { x >= start - ANGLE_TOL && x <= start + extent + ANGLE_TOL }
/// two-representative membership of a NORMALISED angle t in [0, 2pi]
pub fn two_rep(start: f64, extent: f64, t: f64) -> bool { in_range(start, extent, t) || in_range(start, extent, t + 2.0 * PI) }

// ---- in-place postconditions (src/common/angles.rs)
pub fn post_contains(extent: f64, r: bool) -> bool { !(extent == 2.0 * PI) || r }
pub fn post_intersects(e0: f64, e1: f64, r: bool) -> bool { !(e0 == 2.0 * PI || e1 == 2.0 * PI) || r }

/// natively realisable argument whose normalisation is t (t in [0, 2pi): fixed point of angle_to_2pi; 2pi: reached from -tiny)
fn realise(t: f64) -> f64 { if t >= 2.0 * PI { -1.0e-300 } else { t } }

/// Native replay of the modular contains harness: a, e, x are the harness inputs; st, t the two values returned by the
/// stubbed angle_to_2pi (start of the interval, normalised query angle) - fed back as direct arguments.
pub fn h_contains_modular_replay<S: Src>(s: &mut S) {
    let _a = s.f64();
    let e = s.f64();
    let _x = s.f64();
    let st = s.f64();
    let t = s.f64();
    s.assume(e >= -64.0 && e <= 64.0 && post_to_2pi(st) && post_to_2pi(t));
    let i = AngleInterval::new(realise(st), e.abs());
    s.assume(i.start() == st && angle_to_2pi(realise(t)) == t);
    let r = i.contains(realise(t));
    s.check(wf(i.start(), i.angle()), "AngleInterval::new: start and extent in [0, 2pi]");
    check_contains(s, st, i.angle(), t, r);
}
/// the two-representative definition and its set-level consequences, for a normalised angle t
fn check_contains<S: Src>(s: &mut S, st: f64, e: f64, t: f64, r: bool) {
    s.check(r == two_rep(st, e, t), "contains <=> the normalised angle or its +2pi representative lies in [start - TOL, start + extent + TOL]");
    s.check(post_contains(e, r), "a full-turn interval contains every angle");
    if t == st { s.check(r, "an interval contains its own start"); }
    if t >= st && t <= st + e { s.check(r, "an angle of the exact swept set [start, start + extent] is contained"); }
    if t + 2.0 * PI >= st && t + 2.0 * PI <= st + e { s.check(r, "an angle whose +2pi representative is in the exact swept set is contained"); }
}
/// direct form (through the real `%` natively / CBMC's fmod model under Kani): the two-representative definition
pub fn h_contains_direct<S: Src>(s: &mut S, dom: f64) {
    let a = s.f64();
    let e = s.f64();
    let x = s.f64();
    s.assume(a >= -dom && a <= dom && e >= 0.0 && e <= 2.0 * PI && x >= -dom && x <= dom);
    let i = AngleInterval::new(a, e);
    let r = i.contains(x);
    let t = angle_to_2pi(x);
    let (st, e) = (i.start(), i.angle());
    s.check(r == two_rep(st, e, t), "contains <=> the normalised angle or its +2pi representative lies in [start - TOL, start + extent + TOL]");
    if t >= st && t <= st + e { s.check(r, "an angle of the exact swept set [start, start + extent] is contained"); }
}
pub fn h_intersects_direct<S: Src>(s: &mut S, dom: f64) {
    let a0 = s.f64();
    let e0 = s.f64();
    let a1 = s.f64();
    let e1 = s.f64();
    s.assume(a0 >= -dom && a0 <= dom && e0 >= 0.0 && e0 <= 2.0 * PI && a1 >= -dom && a1 <= dom && e1 >= 0.0 && e1 <= 2.0 * PI);
    let i = AngleInterval::new(a0, e0);
    let j = AngleInterval::new(a1, e1);
    let r = i.intersects(&j);
    s.check(post_intersects(i.angle(), j.angle(), r), "a full-turn interval intersects every interval");
    s.check(r == (i.contains(j.start()) || j.contains(i.start())), "intersects <=> one interval contains the other's start");
}

pub fn dispatch<S: Src>(name: &str, s: &mut S) -> bool {
    match name {
        "interval_contains_modular" => h_contains_modular_replay(s),
        "interval_contains_direct" => h_contains_direct(s, 8.0),
        "interval_intersects_direct" => h_intersects_direct(s, 8.0),
        _ => return false,
    }
    true
}

#[cfg(kani)]
mod proofs {
    use super::*;
    use crate::verif_kani::Sym;

    fn any_interval_modular() -> AngleInterval {
        let a: f64 = kani::any(); let e: f64 = kani::any();
        kani::assume(in_quick(a) && in_quick(e)); // negative extents included: new() folds them
        let i = AngleInterval::new(a, e);
        assert!(wf(i.start(), i.angle()), "AngleInterval::new: start and extent in [0, 2pi]");
        i
    }

    // no in-place contract lines for contains / intersects: the store into LAST_TO_2PI happens inside them under
    // stub_verified(angle_to_2pi) and would have to be declared in a `modifies` clause of each (and of their callers)
    // the same two statements as plain harnesses (replayable), plus absence of panics on the whole domain
    #[kani::proof] #[kani::stub_verified(angle_to_2pi)]
    fn interval_contains_modular() {
        let a: f64 = kani::any(); let e: f64 = kani::any(); let x: f64 = kani::any();
        kani::assume(in_quick(a) && in_quick(e) && in_quick(x));
        let i = AngleInterval::new(a, e);
        let r = i.contains(x);
        // the value the stubbed angle_to_2pi returned inside contains (logged by its postcondition predicate)
        let t = unsafe { crate::verif_kani::angles::LAST_TO_2PI };
        kani::cover!(r && i.angle() < 1.0 && t < i.start());
        kani::cover!(!r);
        assert!(wf(i.start(), i.angle()), "AngleInterval::new: start and extent in [0, 2pi]");
        assert!(post_to_2pi(t), "logged value is a normalised angle");
        check_contains(&mut Sym, i.start(), i.angle(), t, r);
    }
    #[kani::proof] #[kani::stub_verified(angle_to_2pi)]
    fn interval_intersects_modular() {
        let i = any_interval_modular();
        let j = any_interval_modular();
        let r = i.intersects(&j);
        kani::cover!(r && i.angle() < 1.0 && j.angle() < 1.0);
        kani::cover!(!r);
        assert!(post_intersects(i.angle(), j.angle(), r), "a full-turn interval intersects every interval");
    }
    /// intersects is wired to the two membership tests (slow: > 20 min of CBMC time; finds a dropped `+ 2pi` quickly)
    #[kani::proof] #[kani::stub_verified(angle_to_2pi)]
    fn interval_intersects_wiring() {
        let i = any_interval_modular();
        let j = any_interval_modular();
        let r = i.intersects(&j);
        // the LAST normalised value: of the first membership test when it succeeded (short circuit), else of the second
        let t = unsafe { crate::verif_kani::angles::LAST_TO_2PI };
        kani::cover!(r && i.angle() < 1.0 && j.angle() < 1.0);
        kani::cover!(!r);
        if r { assert!(two_rep(i.start(), i.angle(), t) || two_rep(j.start(), j.angle(), t), "intersects is true only if one of the two membership tests holds"); }
        else { assert!(!two_rep(j.start(), j.angle(), t), "intersects is false only if the second membership test fails"); }
    }
    #[kani::proof] #[kani::stub_verified(angle_to_2pi)]
    fn interval_contains_fullturn() {
        let a: f64 = kani::any(); let e: f64 = kani::any(); let x: f64 = kani::any(); // same draw order as the replay body
        kani::assume(in_quick(a) && in_quick(e) && in_quick(x));
        let i = AngleInterval::new(a, e);
        assert!(wf(i.start(), i.angle()), "AngleInterval::new: start and extent in [0, 2pi]");
        let r = i.contains(x);
        kani::cover!(r && i.angle() < 1.0);
        kani::cover!(!r);
        assert!(post_contains(i.angle(), r), "a full-turn interval contains every angle");
    }

    // (direct harnesses through CBMC's fmod - h_contains_direct / h_intersects_direct with |angles| <= 8 - did not finish in
    //  28 minutes and are not compiled as proofs; the bodies stay available to the native replay)
}
