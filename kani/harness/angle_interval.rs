//! C18: AngleInterval::{contains, intersects}, bit-precise for their OWN arithmetic (the comparisons against
//! start -/+ ANGLE_TOL and the +2pi representative), modular in angle_to_2pi:
//!  * `interval_contains_modular` / `interval_intersects_modular`: `stub_verified(angle_to_2pi)` - the callee is replaced by
//!    its verified contract (any value in [0, 2pi]); the values it returned are read back from the log kept by its
//!    postcondition predicate (angles::TO_2PI_LOG), so that the result can be compared with the two-representative definition used by the
//!    Verus unit `angles` (`sp_contains`: the normalised angle t or t + 2pi lies in [start - TOL, start + extent + TOL]);
//!  * `contract_interval_contains`: the in-place contract, direct (goes through CBMC's fmod model, |angle| <= 64);
//!  * `contract_interval_intersects`: in-place contract proved against contains' contract only (stub_verified).
use super::angles::{in_domain, in_quick, post_to_2pi};
use super::Src;
use crate::common::{angle_to_2pi, AngleInterval};
use std::f64::consts::PI;

/// the documented membership tolerance (src/common/angles.rs ANGLE_TOL, private to that module)
pub const ANGLE_TOL: f64 = 1.0e-12;

/// well-formed interval: what AngleInterval::new establishes (angles::post_interval_new)
pub fn wf(start: f64, extent: f64) -> bool { start >= 0.0 && start <= 2.0 * PI && extent >= 0.0 && extent <= 2.0 * PI }
/// x lies in the widened range, evaluated in double arithmetic with the association order of the code
pub fn in_range(start: f64, extent: f64, x: f64) -> bool { x >= start - ANGLE_TOL && x <= start + extent + ANGLE_TOL }
/// two-representative membership of a NORMALISED angle t in [0, 2pi]
pub fn two_rep(start: f64, extent: f64, t: f64) -> bool { in_range(start, extent, t) || in_range(start, extent, t + 2.0 * PI) }

// ---- in-place postconditions (src/common/angles.rs)
pub fn post_contains(start: f64, extent: f64, t: f64, r: bool) -> bool { r == two_rep(start, extent, t) }
pub fn post_intersects(s0: f64, e0: f64, s1: f64, e1: f64, t_other: f64, t_self: f64, r: bool) -> bool {
    r == (two_rep(s0, e0, t_other) || two_rep(s1, e1, t_self))
}

/// natively realisable argument whose normalisation is the stub's value t (t in [0, 2pi): fixed point; 2pi: reached from -tiny)
fn realise(t: f64) -> f64 { if t >= 2.0 * PI { -1.0e-300 } else { t } }

/// Native replay of the modular contains harness: a, e, x are the harness inputs, s and t the two values returned by the
/// stubbed angle_to_2pi (start of the interval, normalised query angle).
pub fn h_contains_modular_replay<S: Src>(s: &mut S) {
    let _a = s.f64();
    let e = s.f64();
    let _x = s.f64();
    let st = s.f64();
    let t = s.f64();
    s.assume(e >= 0.0 && e <= 2.0 * PI && post_to_2pi(st) && post_to_2pi(t));
    let i = AngleInterval::new(realise(st), e);
    s.assume(i.start() == st && angle_to_2pi(realise(t)) == t);
    let r = i.contains(realise(t));
    check_contains(s, st, i.angle(), t, r);
}
fn check_contains<S: Src>(s: &mut S, st: f64, e: f64, t: f64, r: bool) {
    s.check(post_contains(st, e, t, r), "contains <=> the normalised angle or its +2pi representative lies in [start - TOL, start + extent + TOL]");
    if e == 2.0 * PI { s.check(r, "a full-turn interval contains every angle"); }
    if t == st { s.check(r, "an interval contains its own start"); }
    if t >= st && t <= st + e { s.check(r, "an angle of the exact swept set [start, start + extent] is contained"); }
    if t + 2.0 * PI >= st && t + 2.0 * PI <= st + e { s.check(r, "an angle whose +2pi representative is in the exact swept set is contained"); }
}
/// direct (non-modular) form, used as replay of the in-place contract harness
pub fn h_contains_direct<S: Src>(s: &mut S, dom: f64) {
    let a = s.f64();
    let e = s.f64();
    let x = s.f64();
    s.assume(a >= -dom && a <= dom && e >= 0.0 && e <= 2.0 * PI && x >= -dom && x <= dom);
    let i = AngleInterval::new(a, e);
    let r = i.contains(x);
    s.check(post_contains(i.start(), i.angle(), angle_to_2pi(x), r), "contains <=> two-representative membership of angle_to_2pi(angle)");
}
pub fn h_intersects_direct<S: Src>(s: &mut S, dom: f64) {
    let a0 = s.f64();
    let e0 = s.f64();
    let a1 = s.f64();
    let e1 = s.f64();
    s.assume(a0 >= -dom && a0 <= dom && e0 >= 0.0 && e0 <= 2.0 * PI && a1 >= -dom && a1 <= dom && e1 >= 0.0 && e1 <= 2.0 * PI);
    let i = AngleInterval::new(a0, e0);
    let j = AngleInterval::new(a1, e1);
    let r = i.intersects(&j);
    s.check(post_intersects(i.start(), i.angle(), j.start(), j.angle(), angle_to_2pi(j.start()), angle_to_2pi(i.start()), r), "intersects <=> one interval contains the other's start");
    s.check(r == j.intersects(&i), "intersects is symmetric");
}

pub fn dispatch<S: Src>(name: &str, s: &mut S) -> bool {
    match name {
        "interval_contains_modular" => h_contains_modular_replay(s),
        "angle_interval_contains" => h_contains_direct(s, 64.0),
        "angle_interval_intersects" => h_intersects_direct(s, 64.0),
        _ => return false,
    }
    true
}

#[cfg(kani)]
mod proofs {
    use super::*;
    use crate::verif_kani::Sym;

    use crate::verif_kani::angles::{TO_2PI_LOG, TO_2PI_N};

    #[kani::proof] #[kani::stub_verified(angle_to_2pi)]
    fn interval_contains_modular() {
        let a: f64 = kani::any(); let e: f64 = kani::any(); let x: f64 = kani::any();
        kani::assume(in_quick(a) && in_quick(x) && e >= 0.0 && e <= 2.0 * PI);
        let i = AngleInterval::new(a, e);
        let r = i.contains(x);
        let (st, t, n) = unsafe { (TO_2PI_LOG[0], TO_2PI_LOG[1], TO_2PI_N) };
        assert!(n == 2 && i.start() == st && wf(i.start(), i.angle()));
        kani::cover!(r && t < st);
        kani::cover!(!r);
        check_contains(&mut Sym, st, i.angle(), t, r);
    }
    #[kani::proof] #[kani::stub_verified(angle_to_2pi)]
    fn interval_intersects_modular() {
        let a0: f64 = kani::any(); let e0: f64 = kani::any(); let a1: f64 = kani::any(); let e1: f64 = kani::any();
        kani::assume(in_quick(a0) && in_quick(a1) && e0 >= 0.0 && e0 <= 2.0 * PI && e1 >= 0.0 && e1 <= 2.0 * PI);
        let i = AngleInterval::new(a0, e0);
        let j = AngleInterval::new(a1, e1);
        let r = i.intersects(&j);
        let (s0, s1, t0, t1, n) = unsafe { (TO_2PI_LOG[0], TO_2PI_LOG[1], TO_2PI_LOG[2], TO_2PI_LOG[3], TO_2PI_N) };
        assert!(i.start() == s0 && j.start() == s1 && (n == 3 || n == 4));
        kani::cover!(r && n == 4);
        kani::cover!(!r);
        // short-circuit: the second normalisation happens only when the first membership test is false
        if n == 3 { assert!(r && two_rep(s0, i.angle(), t0), "intersects: first disjunct true => result true"); }
        else { assert!(!two_rep(s0, i.angle(), t0) && r == two_rep(s1, j.angle(), t1), "intersects <=> one interval contains the other's (normalised) start"); }
    }

    // in-place contracts
    #[kani::proof_for_contract(AngleInterval::contains)]
    fn contract_interval_contains() {
        let a: f64 = kani::any(); let e: f64 = kani::any(); let x: f64 = kani::any();
        kani::assume(in_quick(a) && in_quick(x) && e >= 0.0 && e <= 2.0 * PI);
        let i = AngleInterval::new(a, e);
        kani::cover!(i.start() > 6.0);
        i.contains(x);
    }
    #[kani::proof_for_contract(AngleInterval::intersects)] #[kani::stub_verified(AngleInterval::contains)]
    fn contract_interval_intersects() {
        let a0: f64 = kani::any(); let e0: f64 = kani::any(); let a1: f64 = kani::any(); let e1: f64 = kani::any();
        kani::assume(in_quick(a0) && in_quick(a1) && e0 >= 0.0 && e0 <= 2.0 * PI && e1 >= 0.0 && e1 <= 2.0 * PI);
        let i = AngleInterval::new(a0, e0);
        let j = AngleInterval::new(a1, e1);
        kani::cover!(i.start() > j.start());
        i.intersects(&j);
    }
}
