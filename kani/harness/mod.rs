//! Harness code compiled INSIDE the engeom crate (src/lib.rs hook, cfg(any(kani, engeom_verif))).
//! * under `cargo kani` (cfg(kani)): proof_for_contract / proof harnesses over symbolic inputs;
//! * under `--cfg engeom_verif` (native): `replay(name, bytes)` re-runs the *same* harness body on the
//!   concrete counterexample bytes printed by Kani, against the real code.
//! Postcondition predicates (`post_*`) are plain Rust, referenced by the in-place
//! `#[cfg_attr(kani, kani::ensures(..))]` lines in /repo and by the native replay.
#![allow(dead_code, unused_imports, clippy::all)]

/// Source of harness inputs: symbolic under Kani, counterexample bytes natively.
pub trait Src {
    fn f64(&mut self) -> f64;
    fn bool(&mut self) -> bool;
    fn u8(&mut self) -> u8;
    fn usize(&mut self) -> usize;
    /// assumption: under Kani `kani::assume`; natively a violated assumption aborts the replay as "not applicable"
    fn assume(&mut self, c: bool);
    /// an assertion of the harness: under Kani `assert!`; natively recorded
    fn check(&mut self, c: bool, what: &'static str);
}

#[cfg(kani)]
pub struct Sym;
#[cfg(kani)]
impl Src for Sym {
    fn f64(&mut self) -> f64 { kani::any() }
    fn bool(&mut self) -> bool { kani::any() }
    fn u8(&mut self) -> u8 { kani::any() }
    fn usize(&mut self) -> usize { kani::any() }
    fn assume(&mut self, c: bool) { kani::assume(c) }
    fn check(&mut self, c: bool, what: &'static str) { assert!(c, "{}", what) }
}

pub struct Concrete {
    pub vals: Vec<Vec<u8>>,
    pub pos: usize,
    pub failed: Vec<&'static str>,
    pub assumption_violated: bool,
}
impl Concrete {
    pub fn new(vals: Vec<Vec<u8>>) -> Self { Concrete { vals, pos: 0, failed: vec![], assumption_violated: false } }
    fn next(&mut self, n: usize) -> Vec<u8> {
        let v = self.vals.get(self.pos).cloned().unwrap_or_else(|| vec![0; n]);
        self.pos += 1;
        let mut v = v;
        v.resize(n, 0);
        v
    }
}
impl Src for Concrete {
    fn f64(&mut self) -> f64 { let b = self.next(8); f64::from_le_bytes([b[0], b[1], b[2], b[3], b[4], b[5], b[6], b[7]]) }
    fn bool(&mut self) -> bool { self.next(1)[0] != 0 }
    fn u8(&mut self) -> u8 { self.next(1)[0] }
    fn usize(&mut self) -> usize { let b = self.next(8); usize::from_le_bytes([b[0], b[1], b[2], b[3], b[4], b[5], b[6], b[7]]) }
    fn assume(&mut self, c: bool) { if !c { self.assumption_violated = true; } }
    fn check(&mut self, c: bool, what: &'static str) { if !c && !self.assumption_violated { self.failed.push(what); } }
}

#[cfg(not(kani))]
pub mod bounded;
pub mod interval;
pub mod angles;
pub mod tolerance;
pub mod deviations;
pub mod domain;
pub mod angle_interval;
pub mod meshbox;
pub mod lines;

/// Native replay entry (cfg(engeom_verif)): returns Err(list of failed checks) when the violation reproduces.
pub fn replay(name: &str, vals: Vec<Vec<u8>>) -> Result<String, String> {
    let mut c = Concrete::new(vals);
    let known = interval::dispatch(name, &mut c) || angles::dispatch(name, &mut c)
        || tolerance::dispatch(name, &mut c) || deviations::dispatch(name, &mut c) || domain::dispatch(name, &mut c)
        || angle_interval::dispatch(name, &mut c) || meshbox::dispatch(name, &mut c) || lines::dispatch(name, &mut c);
    if !known {
        return Ok(format!("unknown harness {}", name));
    }
    if c.assumption_violated {
        return Ok("assumption violated by these inputs (not a counterexample natively)".to_string());
    }
    if c.failed.is_empty() { Ok("no check failed natively".to_string()) } else { Err(c.failed.join("; ")) }
}
