//! C18: scalar intervals. Full domain of IEEE-754 doubles (incl. +-inf, +-0, subnormals), NaN excluded
//! where the API documents it as excluded.
use super::Src;
use crate::common::Interval;

pub fn finite(i: &Interval) -> bool { i.min.is_finite() && i.max.is_finite() }
pub fn valid(i: &Interval) -> bool { !i.min.is_nan() && !i.max.is_nan() && i.min <= i.max }

// ---- postcondition predicates (used by the in-place kani::ensures and by native replay)
pub fn post_new(min: f64, max: f64, r: &Interval) -> bool {
    // bounds ordered on construction; the two bounds are the two arguments
    r.min <= r.max && ((r.min == min && r.max == max) || (r.min == max && r.max == min))
}
pub fn post_contains(i: &Interval, x: f64, r: bool) -> bool { r == (i.min <= x && x <= i.max) }
pub fn post_contains_interval(a: &Interval, b: &Interval, r: bool) -> bool {
    r == (a.min <= b.min && b.min <= a.max && a.min <= b.max && b.max <= a.max)
}
pub fn post_overlaps(a: &Interval, b: &Interval, r: bool) -> bool {
    // set definition with the witness max(mins): they share a point iff max of mins <= min of maxes
    let lo = if a.min >= b.min { a.min } else { b.min };
    let hi = if a.max <= b.max { a.max } else { b.max };
    r == (lo <= hi)
}
pub fn post_intersection(a: &Interval, b: &Interval, r: &Option<Interval>) -> bool {
    let lo = if a.min >= b.min { a.min } else { b.min };
    let hi = if a.max <= b.max { a.max } else { b.max };
    match r {
        None => !(lo <= hi),
        Some(i) => lo <= hi && i.min == lo && i.max == hi,
    }
}
pub fn post_clamp(i: &Interval, x: f64, r: f64) -> bool {
    i.min <= r && r <= i.max && (!(i.min <= x && x <= i.max) || r == x) && (!(x < i.min) || r == i.min) && (!(x > i.max) || r == i.max)
}
pub fn post_length(i: &Interval, r: f64) -> bool {
    r == i.max - i.min && (!(i.min < i.max) || r > 0.0)
}

fn any_interval<S: Src>(s: &mut S) -> Interval {
    let a = s.f64();
    let b = s.f64();
    let i = Interval::new_unchecked(a, b);
    s.assume(valid(&i));
    i
}

// ---- harness bodies (shared by Kani and native replay)
pub fn h_new<S: Src>(s: &mut S) {
    let a = s.f64();
    let b = s.f64();
    s.assume(!a.is_nan() && !b.is_nan());
    let r = Interval::new(a, b);
    s.check(post_new(a, b, &r), "Interval::new orders its bounds and keeps both arguments");
    s.check(valid(&r), "Interval::new result is a valid interval");
}
pub fn h_try_new<S: Src>(s: &mut S) {
    let a = s.f64();
    let b = s.f64();
    match Interval::try_new(a, b) {
        Ok(r) => {
            s.check(!a.is_nan() && !b.is_nan(), "try_new accepts only NaN-free bounds");
            s.check(post_new(a, b, &r), "try_new orders its bounds");
        }
        Err(e) => {
            // Kani cannot model the drop of Box<dyn Error> built from a &str; leak it (irrelevant to the property)
            core::mem::forget(e);
            s.check(a.is_nan() || b.is_nan(), "try_new rejects only NaN bounds")
        }
    }
}
pub fn h_contains<S: Src>(s: &mut S) {
    let i = any_interval(s);
    let x = s.f64();
    let r = i.contains(x);
    s.check(post_contains(&i, x, r), "contains(x) <=> min <= x <= max");
}
pub fn h_contains_interval<S: Src>(s: &mut S) {
    let a = any_interval(s);
    let b = any_interval(s);
    let r = a.contains_interval(&b);
    s.check(post_contains_interval(&a, &b, r), "contains_interval <=> both bounds inside");
    // set definition: every point of b is a point of a
    let x = s.f64();
    if r && b.contains(x) {
        s.check(a.contains(x), "contains_interval => every point of other is contained");
    }
}
pub fn h_overlaps<S: Src>(s: &mut S) {
    let a = any_interval(s);
    let b = any_interval(s);
    let r = a.overlaps(&b);
    s.check(post_overlaps(&a, &b, r), "overlaps <=> max(mins) <= min(maxes)");
    s.check(r == b.overlaps(&a), "overlaps is symmetric");
    // (<=) any common point forces overlaps ; (=>) the witness max(mins) is a common point
    let x = s.f64();
    if a.contains(x) && b.contains(x) {
        s.check(r, "a common point exists but overlaps() is false");
    }
    if r {
        let w = if a.min >= b.min { a.min } else { b.min };
        s.check(a.contains(w) && b.contains(w), "overlaps() is true but the witness max(mins) is not common");
    }
}
pub fn h_intersection<S: Src>(s: &mut S) {
    let a = any_interval(s);
    let b = any_interval(s);
    let r = a.intersection(&b);
    s.check(post_intersection(&a, &b, &r), "intersection = [max(mins), min(maxes)] or None");
    s.check(r.is_none() == !a.overlaps(&b), "intersection is None exactly when the intervals do not overlap");
    let r2 = b.intersection(&a);
    match (&r, &r2) {
        (None, None) => {}
        (Some(i), Some(j)) => s.check(i.min == j.min && i.max == j.max, "intersection is commutative"),
        _ => s.check(false, "intersection is commutative (Some/None)"),
    }
    let x = s.f64();
    if let Some(i) = &r {
        s.check(valid(i), "intersection is a valid interval");
        s.check(a.contains_interval(i) && b.contains_interval(i), "intersection is contained in both operands");
        s.check(i.contains(x) == (a.contains(x) && b.contains(x)), "x in intersection <=> x in both");
    } else {
        s.check(!(a.contains(x) && b.contains(x)), "no intersection but a common point exists");
    }
}
pub fn h_clamp<S: Src>(s: &mut S) {
    let i = any_interval(s);
    let x = s.f64();
    s.assume(!x.is_nan());
    let r = i.clamp(x);
    s.check(post_clamp(&i, x, r), "clamp lands in the interval and is the identity inside");
}
pub fn h_length<S: Src>(s: &mut S) {
    let i = any_interval(s);
    s.assume(finite(&i)); // [inf, inf] has length inf - inf = NaN; length is only claimed for finite bounds
    let r = i.length();
    s.check(post_length(&i, r), "length == max - min, positive for min < max");
}

pub fn dispatch<S: Src>(name: &str, s: &mut S) -> bool {
    match name {
        "interval_new" => h_new(s),
        "interval_try_new" => h_try_new(s),
        "interval_contains" => h_contains(s),
        "interval_contains_interval" => h_contains_interval(s),
        "interval_overlaps" => h_overlaps(s),
        "interval_intersection" => h_intersection(s),
        "interval_clamp" => h_clamp(s),
        "interval_length" => h_length(s),
        _ => return false,
    }
    true
}

#[cfg(kani)]
mod proofs {
    use super::*;
    use crate::verif_kani::Sym;

    // ---- contracts annotated in place (src/common/interval.rs), proved for every input
    #[kani::proof_for_contract(Interval::new)]
    fn contract_interval_new() { let a: f64 = kani::any(); let b: f64 = kani::any(); kani::cover!(a > b); Interval::new(a, b); }
    #[kani::proof_for_contract(Interval::contains)]
    fn contract_interval_contains() { let i = any_interval(&mut Sym); let x: f64 = kani::any(); i.contains(x); }
    #[kani::proof_for_contract(Interval::contains_interval)]
    fn contract_interval_contains_interval() { let a = any_interval(&mut Sym); let b = any_interval(&mut Sym); a.contains_interval(&b); }
    #[kani::proof_for_contract(Interval::overlaps)]
    fn contract_interval_overlaps() { let a = any_interval(&mut Sym); let b = any_interval(&mut Sym); a.overlaps(&b); }
    #[kani::proof_for_contract(Interval::intersection)]
    fn contract_interval_intersection() { let a = any_interval(&mut Sym); let b = any_interval(&mut Sym); a.intersection(&b); }
    #[kani::proof_for_contract(Interval::clamp)]
    fn contract_interval_clamp() { let i = any_interval(&mut Sym); let x: f64 = kani::any(); i.clamp(x); }
    #[kani::proof_for_contract(Interval::length)]
    fn contract_interval_length() { let i = any_interval(&mut Sym); i.length(); }

    // ---- set-definition harnesses (loop-free, full domain => complete proofs)
    #[kani::proof] fn interval_new() { h_new(&mut Sym); kani::cover!(true); }
    #[kani::proof] fn interval_try_new() { h_try_new(&mut Sym); kani::cover!(true); }
    #[kani::proof] fn interval_contains() { h_contains(&mut Sym); kani::cover!(true); }
    #[kani::proof] fn interval_contains_interval() { h_contains_interval(&mut Sym); kani::cover!(true); }
    #[kani::proof] fn interval_overlaps() { h_overlaps(&mut Sym); kani::cover!(true); }
    #[kani::proof] fn interval_intersection() { h_intersection(&mut Sym); kani::cover!(true); }
    #[kani::proof] fn interval_clamp() { h_clamp(&mut Sym); kani::cover!(true); }
    #[kani::proof] fn interval_length() { h_length(&mut Sym); kani::cover!(true); }
    #[kani::proof] #[kani::should_panic]
    fn interval_new_nan_panics() { let a: f64 = kani::any(); let b: f64 = kani::any(); kani::assume(a.is_nan() || b.is_nan()); Interval::new(a, b); }
}
