//! C06 / C11: degenerate-input guards of `geom2::intersection_param` and `Circle2::from_3_points`, bit-precise.
//! Only the guard (None/Err exactly when the determinant is below the documented threshold) and the absence of
//! NaN/overflow on a bounded input box are claimed here; the algebraic identities are the Verus units' business.
use super::Src;
use crate::geom2::intersection_param;
use crate::{Circle2, Point2, Vector2};

pub const BOX: f64 = 1.0e3;
fn in_box(x: f64) -> bool { x >= -BOX && x <= BOX }

/// the determinant exactly as the code forms it (same operation order, double arithmetic)
pub fn det_param(ad: &Vector2, bd: &Vector2) -> f64 { bd.x * ad.y - bd.y * ad.x }
pub fn pre_param(a0: &Point2, ad: &Vector2, b0: &Point2, bd: &Vector2) -> bool {
    in_box(a0.x) && in_box(a0.y) && in_box(ad.x) && in_box(ad.y) && in_box(b0.x) && in_box(b0.y) && in_box(bd.x) && in_box(bd.y)
}
/// None <=> |det| < 1e-12 ; Some => both parameters finite (coordinates within +-1e3: |numerator| <= 8e6, |det| >= 1e-12)
pub fn post_param(ad: &Vector2, bd: &Vector2, r: &Option<(f64, f64)>) -> bool {
    let d = det_param(ad, bd);
    match r {
        None => d.abs() < 1e-12,
        Some((t0, t1)) => !(d.abs() < 1e-12) && t0.is_finite() && t1.is_finite(),
    }
}
pub fn post_param_guard(ad: &Vector2, bd: &Vector2, r: &Option<(f64, f64)>) -> bool {
    r.is_none() == (det_param(ad, bd).abs() < 1e-12)
}

pub fn det_3pt(p0: &Point2, p1: &Point2, p2: &Point2) -> f64 { (p0.x - p1.x) * (p1.y - p2.y) - (p1.x - p2.x) * (p0.y - p1.y) }

fn any_vec<S: Src>(s: &mut S) -> (f64, f64) { (s.f64(), s.f64()) }

pub fn h_param_guard<S: Src>(s: &mut S) {
    let (a0, ad, b0, bd) = (any_vec(s), any_vec(s), any_vec(s), any_vec(s));
    let (a0, ad, b0, bd) = (Point2::new(a0.0, a0.1), Vector2::new(ad.0, ad.1), Point2::new(b0.0, b0.1), Vector2::new(bd.0, bd.1));
    s.assume(pre_param(&a0, &ad, &b0, &bd));
    let r = intersection_param(&a0, &ad, &b0, &bd);
    s.check(post_param_guard(&ad, &bd, &r), "intersection_param is None exactly when |det| < 1e-12");
}
pub fn h_param_finite<S: Src>(s: &mut S) {
    let (a0, ad, b0, bd) = (any_vec(s), any_vec(s), any_vec(s), any_vec(s));
    let (a0, ad, b0, bd) = (Point2::new(a0.0, a0.1), Vector2::new(ad.0, ad.1), Point2::new(b0.0, b0.1), Vector2::new(bd.0, bd.1));
    s.assume(pre_param(&a0, &ad, &b0, &bd));
    let r = intersection_param(&a0, &ad, &b0, &bd);
    s.check(post_param(&ad, &bd, &r), "intersection_param: None <=> |det| < 1e-12, parameters finite when Some");
}
pub fn h_3pt_guard<S: Src>(s: &mut S) {
    let (p0, p1, p2) = (any_vec(s), any_vec(s), any_vec(s));
    let (p0, p1, p2) = (Point2::new(p0.0, p0.1), Point2::new(p1.0, p1.1), Point2::new(p2.0, p2.1));
    s.assume(in_box(p0.x) && in_box(p0.y) && in_box(p1.x) && in_box(p1.y) && in_box(p2.x) && in_box(p2.y));
    let d = det_3pt(&p0, &p1, &p2);
    match Circle2::from_3_points(p0, p1, p2) {
        Ok(c) => {
            s.check(!(d.abs() < 1.0e-6), "from_3_points accepts only |det| >= 1e-6");
            core::mem::forget(c);
        }
        Err(e) => {
            core::mem::forget(e);
            s.check(d.abs() < 1.0e-6, "from_3_points rejects only |det| < 1e-6");
        }
    }
}

pub fn dispatch<S: Src>(name: &str, s: &mut S) -> bool {
    match name {
        "intersection_param_guard" => h_param_guard(s),
        "intersection_param_finite" => h_param_finite(s),
        "from_3_points_guard" => h_3pt_guard(s),
        _ => return false,
    }
    true
}

#[cfg(kani)]
mod proofs {
    use super::*;
    use crate::verif_kani::Sym;

    #[kani::proof] fn intersection_param_guard() { h_param_guard(&mut Sym); kani::cover!(true); }
    #[kani::proof] fn intersection_param_finite() { h_param_finite(&mut Sym); kani::cover!(true); }
    #[kani::proof] fn from_3_points_guard() { h_3pt_guard(&mut Sym); kani::cover!(true); }
}
