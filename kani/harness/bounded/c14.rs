//! C14 bounded: mesh face selection is set algebra over a per-face predicate; the mesh built from a selection.
//!
//! Input space (all enumerated, no RNG): three meshes -- the unit box (12 faces), a 1x2x3 box carrying two vertices
//! that no face uses, and a 5-face mesh with one exactly zero-area (collinear) face; the reference mesh of the
//! near-mesh criterion is the same mesh shifted by (1/8, 1/16, 1/32). Criteria: facing(+z, 0.1 rad), facing(+x, pi/2),
//! near_mesh with distance tolerance in {0.1, 0.2} x planar tolerance in {None, 0.05} x angle tolerance in {None, 0.2}
//! x all_points in {true, false} (18 criteria). Steps: {Add, Remove, Keep} x criteria. Starting selections: None, All,
//! {0}, {1,2,3}, {2,2,4} (duplicated id), the odd faces, all faces in reverse order. Chains: every chain of 1 and of 2
//! steps from every starting selection.
//!
//! Clauses (from the C14 statement):
//! * whether a face satisfies a criterion is evaluated one face at a time through the public API (Keep on the
//!   single-face selection {i}); the same verdict must come out of Add from the empty selection and of Remove on {i};
//! * the result of every chain equals the union / difference / intersection with those per-face sets, step by step,
//!   and is the same on a repeated run (fresh hash sets, so a different hash-iteration order);
//! * independent oracles for the verdict itself: facing == angle(normal, direction) < angle and false for a face
//!   without a normal (normal recomputed from the coordinates); near_mesh without planar / angle tolerance ==
//!   all / any vertex within the distance of the reference surface by exhaustive point-triangle distance; with
//!   tolerances == the per-vertex test (cap, in-plane distance to the projection, angle between the face normal and
//!   the reference face normal) on the projection reported by Mesh::project_with_max_dist. Verdicts within 1e-9 of a
//!   threshold are not compared (the statement does not fix the boundary);
//! * create_mesh at the end of a chain / create_from_indices on an index list: exactly the selected triangles
//!   (coordinates bit for bit, winding up to rotation of the triple), every vertex used, and as many vertices as the
//!   selected triangles use in the source. The EMPTY selection is skipped: it panics (known finding of unit
//!   mesh_from_indices: parry rejects an empty index buffer).
//! * storage rotation of the faces (wave 3): each of the three meshes is rebuilt with every face triple stored rotated
//!   by 1, by 2, and by (k + s) % 3 for face k and s in {0, 1, 2} -- so that every face occurs with its lowest vertex
//!   index stored first, second and third (checked, not assumed). On each of these 15 meshes create_from_indices is
//!   evaluated on every single face, every ordered pair of faces, the full list, the reversed full list and the odd
//!   faces, and create_mesh on All and on every single-face selection: the same built-mesh clauses (winding identical
//!   up to rotation of the triple, never reversed).
use super::Report;
use crate::{Mesh, Point3, SelectOp, Selection, Vector3};
use std::collections::BTreeSet;
use std::panic::{catch_unwind, AssertUnwindSafe};

#[derive(Clone, Copy, Debug)]
enum Crit {
    Facing(usize, f64),                          // direction id, angle
    Near(bool, f64, Option<f64>, Option<f64>),   // all_points, distance, planar, angle
}
const MODES: [SelectOp; 3] = [SelectOp::Add, SelectOp::Remove, SelectOp::Keep];

fn dir(id: usize) -> Vector3 {
    match id {
        0 => Vector3::new(0.0, 0.0, 1.0),
        2 => Vector3::new(0.0, 0.0, -1.0),
        3 => Vector3::new(1.0, 1.0, 1.0),          // oblique, not unit length
        4 => Vector3::new(0.0, 0.0, 5.0),          // long
        5 => Vector3::new(-1.0e-3, 0.0, 2.0e-3),   // short and oblique
        _ => Vector3::new(1.0, 0.0, 0.0),
    }
}

fn criteria() -> Vec<Crit> {
    let mut v = vec![Crit::Facing(0, 0.1), Crit::Facing(1, std::f64::consts::FRAC_PI_2)];
    for d in [0.1, 0.2] { for p in [None, Some(0.05)] { for a in [None, Some(0.2)] { for all in [true, false] {
        v.push(Crit::Near(all, d, p, a));
    } } } }
    v
}

fn step<'a>(f: crate::geom3::mesh::filtering::TriangleFilter<'a>, reference: &Mesh, c: Crit, mode: SelectOp) -> crate::geom3::mesh::filtering::TriangleFilter<'a> {
    match c {
        Crit::Facing(d, a) => f.facing(&dir(d), a, mode),
        Crit::Near(all, d, p, a) => f.near_mesh(reference, all, d, p, a, mode),
    }
}

fn run_chain(mesh: &Mesh, reference: &Mesh, start: &Selection, chain: &[(Crit, SelectOp)]) -> BTreeSet<usize> {
    let mut f = mesh.face_select(start.clone());
    for (c, m) in chain.iter() { f = step(f, reference, *c, *m); }
    f.collect().into_iter().collect()
}

fn start_set(n: usize, s: &Selection) -> BTreeSet<usize> {
    match s { Selection::None => BTreeSet::new(), Selection::All => (0..n).collect(), Selection::Indices(v) => v.iter().copied().collect() }
}

fn apply(sel: &BTreeSet<usize>, p: &[bool], mode: SelectOp) -> BTreeSet<usize> {
    let pset: BTreeSet<usize> = (0..p.len()).filter(|&i| p[i]).collect();
    match mode {
        SelectOp::Add => sel.union(&pset).copied().collect(),
        SelectOp::Remove => sel.difference(&pset).copied().collect(),
        SelectOp::Keep => sel.intersection(&pset).copied().collect(),
    }
}

// ---------------------------------------------------------------- independent geometry
fn tri_pts(m: &Mesh, i: usize) -> (Point3, Point3, Point3) {
    let t = m.faces()[i];
    (m.vertices()[t[0] as usize], m.vertices()[t[1] as usize], m.vertices()[t[2] as usize])
}
fn face_normal(m: &Mesh, i: usize) -> Option<Vector3> {
    let (a, b, c) = tri_pts(m, i);
    let n = (b - a).cross(&(c - a));
    if n.norm() < 1e-12 { None } else { Some(n / n.norm()) }
}
fn seg_dist(p: &Point3, a: &Point3, b: &Point3) -> f64 {
    let ab = b - a;
    let l2 = ab.norm_squared();
    let t = if l2 == 0.0 { 0.0 } else { ((p - a).dot(&ab) / l2).clamp(0.0, 1.0) };
    (p - (a + ab * t)).norm()
}
fn tri_dist(p: &Point3, a: &Point3, b: &Point3, c: &Point3) -> f64 {
    let mut best = seg_dist(p, a, b).min(seg_dist(p, b, c)).min(seg_dist(p, c, a));
    let n = (b - a).cross(&(c - a));
    if n.norm() > 1e-12 {
        let n = n / n.norm();
        let h = (p - a).dot(&n);
        let q = p - n * h;
        let inside = (b - a).cross(&(q - a)).dot(&n) >= 0.0 && (c - b).cross(&(q - b)).dot(&n) >= 0.0 && (a - c).cross(&(q - c)).dot(&n) >= 0.0;
        if inside { best = best.min(h.abs()); }
    }
    best
}
fn mesh_dist(m: &Mesh, p: &Point3) -> f64 {
    (0..m.faces().len()).map(|i| { let (a, b, c) = tri_pts(m, i); tri_dist(p, &a, &b, &c) }).fold(f64::INFINITY, f64::min)
}

const EDGE: f64 = 1e-9;
/// Some(verdict) by the independent oracle, None when a comparison is within EDGE of its threshold
fn oracle(mesh: &Mesh, reference: &Mesh, c: Crit, i: usize) -> Option<bool> {
    match c {
        Crit::Facing(d, a) => match face_normal(mesh, i) {
            None => Some(false),
            Some(n) => { let ang = n.angle(&dir(d)); if (ang - a).abs() < EDGE { None } else { Some(ang < a) } }
        },
        Crit::Near(all, d, planar, angle) => {
            let t = mesh.faces()[i];
            let fnorm = face_normal(mesh, i);
            let mut verdicts = Vec::new();
            for k in 0..3 {
                let p = mesh.vertices()[t[k] as usize];
                let bd = mesh_dist(reference, &p);
                if (bd - d).abs() < EDGE { return None; }
                let v = if planar.is_none() && angle.is_none() { bd <= d } else {
                    match reference.project_with_max_dist(&p, d) {
                        None => { if bd <= d { return None; } false }   // cap semantics belong to C02: not judged here
                        Some((prj, ri, _)) => match face_normal(reference, ri as usize) {
                            None => false,
                            Some(rn) => {
                                let w = p - prj.point;
                                let inplane = (w - rn * w.dot(&rn)).norm();
                                let okp = match planar { None => true, Some(pt) => { if (inplane - pt).abs() < EDGE { return None; } inplane <= pt } };
                                let oka = match angle { None => true, Some(at) => match fnorm {
                                    None => false,
                                    Some(fnv) => { let ang = fnv.angle(&rn); if (ang - at).abs() < EDGE { return None; } ang <= at }
                                } };
                                okp && oka
                            }
                        },
                    }
                };
                verdicts.push(v);
            }
            Some(if all { verdicts.iter().all(|&b| b) } else { verdicts.iter().any(|&b| b) })
        }
    }
}

// ---------------------------------------------------------------- built mesh
type Tri = [[u64; 3]; 3];
fn key(p: &Point3) -> [u64; 3] { [p.x.to_bits(), p.y.to_bits(), p.z.to_bits()] }
fn canon(m: &Mesh, f: &[u32; 3]) -> Tri {
    let c = [key(&m.vertices()[f[0] as usize]), key(&m.vertices()[f[1] as usize]), key(&m.vertices()[f[2] as usize])];
    let k = (0..3).min_by_key(|&i| c[i]).unwrap();
    [c[k], c[(k + 1) % 3], c[(k + 2) % 3]]
}
fn check_built<F: Fn() -> String + Copy>(r: &mut Report, source: &Mesh, selected: &[usize], built: &Mesh, desc: F) {
    let mut expect: Vec<Tri> = selected.iter().map(|&i| canon(source, &source.faces()[i])).collect();
    let mut got: Vec<Tri> = built.faces().iter().map(|f| canon(built, f)).collect();
    expect.sort();
    got.sort();
    r.check(got == expect, "built mesh: exactly the selected triangles with identical coordinates and winding", desc);
    let mut used = vec![false; built.vertices().len()];
    let mut ids_ok = true;
    for f in built.faces() { for &v in f { if (v as usize) < used.len() { used[v as usize] = true; } else { ids_ok = false; } } }
    r.check(ids_ok, "built mesh: faces refer to existing vertices", desc);
    r.check(used.iter().all(|&u| u), "built mesh: only the vertices the selected triangles use", desc);
    let src_used: BTreeSet<u32> = selected.iter().flat_map(|&i| source.faces()[i].iter().copied()).collect();
    r.check(built.vertices().len() == src_used.len(), "built mesh: one vertex per source vertex in use", desc);
}

// ---------------------------------------------------------------- inputs
fn shifted(m: &Mesh) -> Mesh {
    let s = Vector3::new(0.125, 0.0625, 0.03125);
    Mesh::new(m.vertices().iter().map(|p| p + s).collect(), m.faces().to_vec(), false)
}
fn meshes() -> Vec<(&'static str, Mesh)> {
    let b = Mesh::create_box(1.0, 2.0, 3.0, false);
    let mut vertices = b.vertices().to_vec();
    vertices.push(Point3::new(5.0, 5.0, 5.0));
    vertices.insert(0, Point3::new(-5.0, -5.0, -5.0));
    let faces = b.faces().iter().map(|f| [f[0] + 1, f[1] + 1, f[2] + 1]).collect();
    let loose = Mesh::new(vertices, faces, false);
    let degenerate = Mesh::new(
        vec![Point3::new(0.0, 0.0, 0.0), Point3::new(1.0, 0.0, 0.0), Point3::new(0.0, 1.0, 0.0), Point3::new(2.0, 0.0, 0.0), Point3::new(0.0, 0.0, 1.0)],
        vec![[0, 1, 2], [0, 2, 1], [0, 1, 3], [0, 1, 4], [0, 4, 2]],
        false,
    );
    vec![("unit box", Mesh::create_box(1.0, 1.0, 1.0, false)), ("1x2x3 box with two unused vertices", loose), ("5 faces, face 2 has zero area", degenerate)]
}
fn starts(n: usize) -> Vec<Selection> {
    let mut v = vec![Selection::None, Selection::All, Selection::Indices(vec![0]), Selection::Indices(vec![1, 2, 3]), Selection::Indices(vec![2, 2, 4]),
                     Selection::Indices((0..n).rev().collect())];
    if n > 5 { v.push(Selection::Indices((0..n).filter(|i| i % 2 == 1).collect())); }
    v
}

pub fn run() -> Option<Report> {
    let mut r = Report::new("meshes: unit box (12 faces), 1x2x3 box with two unused vertices, 5-face mesh with a zero-area face; reference = the mesh shifted by (1/8,1/16,1/32); 18 chained criteria + 16 judged per face only (near_mesh with distance {0.03,0.1} x planar {0.5,0.15} (larger than the cap) x angle {None,0.2} x all_points) (facing(+z,0.1), facing(+x,pi/2), near_mesh with distance {0.1,0.2} x planar {None,0.05} x angle {None,0.2} x all_points {true,false}); steps = {Add,Remove,Keep} x criteria; 6-7 starting selections (None, All, index sets incl. a duplicated id and a reversed full list); every chain of 1 and 2 steps; create_mesh / create_from_indices on every non-empty 0- and 1-step result; storage rotation: the three meshes with every face triple rotated by 1, by 2 and by (k+s)%3 (s = 0,1,2) so that each face is stored with its lowest vertex index first, second and third: create_from_indices on every single face, ordered pair of faces, full / reversed / odd list and create_mesh on All and every single face");
    let crits = criteria();
    // criteria judged one face at a time only (not chained): a planar tolerance LARGER than the distance tolerance (the
    // cap is the distance tolerance alone: the planar tolerance may only narrow the result) and a tight cap
    let mut judged = crits.clone();
    for d in [0.03, 0.1] { for p in [Some(0.5), Some(0.15)] { for a in [None, Some(0.2)] { for all in [true, false] {
        judged.push(Crit::Near(all, d, p, a));
    } } } }
    for (mname, mesh) in meshes().iter() {
        let reference = shifted(mesh);
        let n = mesh.faces().len();
        // per-face verdicts, one face at a time
        let mut pred: Vec<Vec<bool>> = Vec::new();
        for c in judged.iter() {
            let mut p = vec![false; n];
            for i in 0..n {
                r.case();
                let d = || format!("{}: criterion {:?}, face {}", mname, c, i);
                let keep = run_chain(mesh, &reference, &Selection::Indices(vec![i]), &[(*c, SelectOp::Keep)]);
                r.check(keep.is_empty() || (keep.len() == 1 && keep.contains(&i)), "Keep on a single-face selection yields that face or nothing", d);
                p[i] = keep.contains(&i);
                let removed = run_chain(mesh, &reference, &Selection::Indices(vec![i]), &[(*c, SelectOp::Remove)]);
                r.check(removed.contains(&i) == !p[i] && removed.len() <= 1, "the verdict on a face is the same under Keep and Remove", d);
                if let Some(o) = oracle(mesh, &reference, *c, i) {
                    let what = match c {
                        Crit::Facing(..) => "facing verdict == (angle between the face normal and the direction < angle), false without a normal",
                        Crit::Near(_, _, None, None) => "near-mesh verdict (distance only) == all / any vertex within the distance by exhaustive point-triangle distance",
                        Crit::Near(..) => "near-mesh verdict (with tolerances) == per-vertex cap, in-plane distance and normal-angle test on the reported projection",
                    };
                    r.check(p[i] == o, what, d);
                }
            }
            let add = run_chain(mesh, &reference, &Selection::None, &[(*c, SelectOp::Add)]);
            let pset: BTreeSet<usize> = (0..n).filter(|&i| p[i]).collect();
            r.check(add == pset, "Add from the empty selection yields exactly the faces that satisfy the criterion one at a time", || format!("{}: criterion {:?}: got {:?}, per-face {:?}", mname, c, add, pset));
            pred.push(p);
        }
        // chains
        let steps: Vec<(usize, SelectOp)> = (0..crits.len()).flat_map(|c| MODES.iter().map(move |m| (c, *m))).collect();
        for st in starts(n).iter() {
            let s0 = start_set(n, st);
            {
                r.case();
                let got = run_chain(mesh, &reference, st, &[]);
                r.check(got == s0, "the starting selection is the given set of faces", || format!("{}: start {:?}: got {:?}", mname, st, got));
                built_checks(&mut r, mname, mesh, &reference, st, &[], &s0);
            }
            for &(c1, m1) in steps.iter() {
                r.case();
                let e1 = apply(&s0, &pred[c1], m1);
                let chain1 = [(crits[c1], m1)];
                let d1 = |got: &BTreeSet<usize>| format!("{}: start {:?}, steps {:?}: got {:?}, expected {:?}", mname, st, chain1, got, e1);
                let got = run_chain(mesh, &reference, st, &chain1);
                r.check(got == e1, clause(m1), || d1(&got));
                let again = run_chain(mesh, &reference, st, &chain1);
                r.check(again == got, "a repeated run (fresh hash sets) yields the same selection", || d1(&again));
                built_checks(&mut r, mname, mesh, &reference, st, &chain1, &e1);
                for &(c2, m2) in steps.iter() {
                    let e2 = apply(&e1, &pred[c2], m2);
                    let chain2 = [(crits[c1], m1), (crits[c2], m2)];
                    let got = run_chain(mesh, &reference, st, &chain2);
                    r.check(got == e2, clause(m2), || format!("{}: start {:?}, steps {:?}: got {:?}, expected {:?} (after the first step {:?})", mname, st, chain2, got, e2, e1));
                }
            }
        }
    }
    rotated_storage(&mut r);
    wave5(&mut r);
    big_mesh(&mut r);
    Some(r)
}

/// the mesh with face k stored rotated by rot(k) positions (same triangles, same winding)
fn with_rotated_faces(m: &Mesh, rot: &dyn Fn(usize) -> usize) -> Mesh {
    let faces = m.faces().iter().enumerate().map(|(k, f)| { let s = rot(k) % 3; [f[s], f[(s + 1) % 3], f[(s + 2) % 3]] }).collect();
    Mesh::new(m.vertices().to_vec(), faces, false)
}
fn lowest_pos(f: &[u32; 3]) -> usize { (0..3).min_by_key(|&i| f[i]).unwrap() }

fn rotated_storage(r: &mut Report) {
    for (mname, base) in meshes().iter() {
        let n = base.faces().len();
        let schemes: Vec<(String, Box<dyn Fn(usize) -> usize>)> = vec![
            ("every face rotated by 1".into(), Box::new(|_| 1)), ("every face rotated by 2".into(), Box::new(|_| 2)),
            ("face k rotated by k % 3".into(), Box::new(|k| k)), ("face k rotated by (k + 1) % 3".into(), Box::new(|k| k + 1)),
            ("face k rotated by (k + 2) % 3".into(), Box::new(|k| k + 2)),
        ];
        let mut seen = vec![[false; 3]; n];
        for (sname, rot) in schemes.iter() {
            let mesh = with_rotated_faces(base, rot.as_ref());
            for (k, f) in mesh.faces().iter().enumerate() { if f[0] != f[1] && f[1] != f[2] && f[0] != f[2] { seen[k][lowest_pos(f)] = true; } }
            let mut lists: Vec<Vec<usize>> = (0..n).map(|i| vec![i]).collect();
            for i in 0..n { for j in 0..n { if i != j { lists.push(vec![i, j]); } } }
            lists.push((0..n).collect());
            lists.push((0..n).rev().collect());
            lists.push((0..n).filter(|i| i % 2 == 1).collect());
            for list in lists.iter() {
                r.case();
                let d = || format!("{} with {}: create_from_indices({:?}), source faces {:?}", mname, sname, list, list.iter().map(|&i| mesh.faces()[i]).collect::<Vec<_>>());
                match catch_unwind(AssertUnwindSafe(|| mesh.create_from_indices(list))) {
                    Ok(b) => check_built(r, &mesh, list, &b, d),
                    Err(_) => r.check(false, "create_from_indices on a non-empty index list does not panic", d),
                }
            }
            let mut sels: Vec<Selection> = (0..n).map(|i| Selection::Indices(vec![i])).collect();
            sels.push(Selection::All);
            for st in sels.iter() {
                r.case();
                let sel: Vec<usize> = start_set(n, st).into_iter().collect();
                let d = || format!("{} with {}: face_select({:?}).create_mesh(), source faces {:?}", mname, sname, st, sel.iter().map(|&i| mesh.faces()[i]).collect::<Vec<_>>());
                match catch_unwind(AssertUnwindSafe(|| mesh.face_select(st.clone()).create_mesh())) {
                    Ok(b) => check_built(r, &mesh, &sel, &b, d),
                    Err(_) => r.check(false, "create_mesh on a non-empty selection does not panic", d),
                }
            }
        }
        // the stated bound: together with the unrotated mesh of the main loop every face was stored in all three rotations
        for (k, f) in base.faces().iter().enumerate() { if f[0] != f[1] && f[1] != f[2] && f[0] != f[2] { seen[k][lowest_pos(f)] = true; } }
        r.check(seen.iter().all(|s| s.iter().all(|&b| b)), "input space: every face is stored with its lowest vertex index first, second and third", || format!("{}: {:?}", mname, seen));
    }
}

fn clause(m: SelectOp) -> &'static str {
    match m {
        SelectOp::Add => "Add yields the union with the faces that satisfy the criterion",
        SelectOp::Remove => "Remove yields the difference with the faces that satisfy the criterion",
        SelectOp::Keep => "Keep yields the intersection with the faces that satisfy the criterion",
    }
}

fn built_checks(r: &mut Report, mname: &str, mesh: &Mesh, reference: &Mesh, st: &Selection, chain: &[(Crit, SelectOp)], expected: &BTreeSet<usize>) {
    // the built mesh is compared with the selection the same chain reports through collect() (whether that selection
    // is the right one is the business of the set-algebra clauses)
    let _ = expected;
    let sel: Vec<usize> = run_chain(mesh, reference, st, chain).into_iter().collect();
    if sel.is_empty() { return; }   // known finding: the empty selection panics in Mesh::new
    let d = || format!("{}: start {:?}, steps {:?}, create_mesh (collect() gives faces {:?})", mname, st, chain, sel);
    let built = catch_unwind(AssertUnwindSafe(|| {
        let mut f = mesh.face_select(st.clone());
        for (c, m) in chain.iter() { f = step(f, reference, *c, *m); }
        f.create_mesh()
    }));
    match built {
        Ok(b) => check_built(r, mesh, &sel, &b, d),
        Err(_) => r.check(false, "create_mesh on a non-empty selection does not panic", d),
    }
    if chain.is_empty() || chain.len() == 1 && matches!(chain[0].0, Crit::Facing(..)) {
        for rev in [false, true] {
            let list: Vec<usize> = if rev { sel.iter().rev().copied().collect() } else { sel.clone() };
            let d2 = || format!("{}: create_from_indices({:?})", mname, list);
            match catch_unwind(AssertUnwindSafe(|| mesh.create_from_indices(&list))) {
                Ok(b) => check_built(r, mesh, &list, &b, d2),
                Err(_) => r.check(false, "create_from_indices on a non-empty index list does not panic", d2),
            }
        }
    }
}

// ------------------------------------------------------------------------------------------------ wave 5
// Parameter-space audit (notes/w5_audit_C14.md).  New inputs: meshes with more vertices than faces (one triangle, an
// asymmetric quad carrying an unused vertex), an open non-square 5 x 3 strip with raised vertices and reversed vertex
// numbering, a tetrahedron (oblique faces), the 1x2x3 box scaled by 1e3 / 1e-3 (tolerances scaled alike) and moved 1e5
// away; four reference meshes each: the mesh shifted, the shifted mesh with every face REVERSED (normals flipped), a
// small plate near one corner of the bounding box (most of the mesh is beyond its edge), and one 100 sizes away
// (nothing is near).  New criterion values: facing a direction that is not of unit length / oblique / -z, angles 0,
// negative, 1, 2 and beyond pi; near_mesh with distance tolerance in {0.2, 0, negative, 1e6}, planar tolerance
// {None, 0.05, 0.15, 1e6}, angle tolerance {None, 1, 2, 3.2 > pi}.  Same clauses as above.
fn transformed(m: &Mesh, s: f64, off: Vector3) -> Mesh {
    Mesh::new(m.vertices().iter().map(|p| Point3::from(p.coords * s + off)).collect(), m.faces().to_vec(), false)
}
fn reversed_faces(m: &Mesh) -> Mesh { Mesh::new(m.vertices().to_vec(), m.faces().iter().map(|f| [f[0], f[2], f[1]]).collect(), false) }
fn corner_plate(m: &Mesh, s: f64) -> Mesh {
    let mut c = m.vertices()[0];
    for p in m.vertices() { if p.x + p.y + p.z < c.x + c.y + c.z { c = *p; } }
    let (a, h) = (0.25 * s, 0.046875 * s);
    Mesh::new(vec![c + Vector3::new(-a, -a, h), c + Vector3::new(a, -a, h), c + Vector3::new(a, a, h), c + Vector3::new(-a, a, h)], vec![[0, 1, 2], [0, 2, 3]], false)
}
fn strip() -> Mesh {
    // 6 x 4 vertices, cells 1 x 1/2, every third vertex raised by 1/4; vertex k of the regular numbering is stored as n-1-k
    let (nx, ny) = (6usize, 4usize);
    let n = nx * ny;
    let mut vertices = vec![Point3::origin(); n];
    for j in 0..ny { for i in 0..nx {
        let k = j * nx + i;
        vertices[n - 1 - k] = Point3::new(i as f64, j as f64 * 0.5, if (i + 2 * j) % 3 == 0 { 0.25 } else { 0.0 });
    } }
    let id = |i: usize, j: usize| (n - 1 - (j * nx + i)) as u32;
    let mut faces = vec![];
    for j in 0..ny - 1 { for i in 0..nx - 1 {
        faces.push([id(i, j), id(i + 1, j), id(i + 1, j + 1)]);
        faces.push([id(i + 1, j + 1), id(i, j + 1), id(i, j)]);
    } }
    Mesh::new(vertices, faces, false)
}
fn wave5_meshes() -> Vec<(&'static str, Mesh, f64)> {
    let tri = Mesh::new(vec![Point3::new(0.0, 0.0, 0.0), Point3::new(2.0, 0.0, 0.0), Point3::new(0.0, 1.0, 0.0)], vec![[0, 1, 2]], false);
    let quad = Mesh::new(vec![Point3::new(9.0, 9.0, 9.0), Point3::new(0.0, 0.0, 0.0), Point3::new(2.0, 0.0, 0.0), Point3::new(2.0, 1.0, 0.5), Point3::new(0.0, 1.0, 0.0)], vec![[1, 2, 3], [3, 4, 1]], false);
    let tetra = Mesh::new(vec![Point3::new(0.0, 0.0, 0.0), Point3::new(2.0, 0.0, 0.0), Point3::new(0.0, 2.0, 0.0), Point3::new(0.0, 0.0, 2.0)], vec![[0, 2, 1], [0, 1, 3], [0, 3, 2], [1, 2, 3]], false);
    let b = Mesh::create_box(1.0, 2.0, 3.0, false);
    vec![
        ("one triangle (3 vertices, 1 face)", tri, 1.0),
        ("asymmetric quad with an unused vertex (5 vertices, 2 faces)", quad, 1.0),
        ("open 5x3 strip, raised vertices, reversed numbering", strip(), 1.0),
        ("tetrahedron", tetra, 1.0),
        ("1x2x3 box scaled by 1e3", transformed(&b, 1.0e3, Vector3::zeros()), 1.0e3),
        ("1x2x3 box scaled by 1e-3", transformed(&b, 0.0009765625, Vector3::zeros()), 0.0009765625),
        ("1x2x3 box moved by (1e5, -2e5, 3e5)", transformed(&b, 1.0, Vector3::new(1.0e5, -2.0e5, 3.0e5)), 1.0),
    ]
}
fn wave5_criteria(s: f64) -> (Vec<Crit>, Vec<usize>) {
    let mut v = vec![Crit::Facing(2, 0.1), Crit::Facing(3, 1.0), Crit::Facing(4, 0.5), Crit::Facing(5, 2.0), Crit::Facing(0, 0.0), Crit::Facing(0, -1.0), Crit::Facing(0, 3.2), Crit::Facing(3, 2.0)];
    let tols = [(None, None), (Some(0.05 * s), None), (None, Some(1.0)), (None, Some(2.0)), (Some(1.0e6 * s), Some(3.2)), (Some(0.15 * s), Some(2.0))];
    for d in [0.2 * s, 0.0, -1.0 * s, 1.0e6 * s] { for (p, a) in tols { for all in [true, false] { v.push(Crit::Near(all, d, p, a)); } } }
    // the criteria that also take part in the 2-step chains
    let chained = vec![1, 3, 5, 6, 8, 9, 12, 15, 18, 20, 21, 44, 55];
    (v, chained)
}

fn exercise(r: &mut Report, mname: &str, mesh: &Mesh, reference: &Mesh, judged: &[Crit], chained: &[usize]) {
    let n = mesh.faces().len();
    let mut pred: Vec<Vec<bool>> = Vec::new();
    for c in judged.iter() {
        let mut p = vec![false; n];
        for i in 0..n {
            r.case();
            let d = || format!("{}: criterion {:?}, face {}", mname, c, i);
            let keep = run_chain(mesh, reference, &Selection::Indices(vec![i]), &[(*c, SelectOp::Keep)]);
            r.check(keep.is_empty() || (keep.len() == 1 && keep.contains(&i)), "Keep on a single-face selection yields that face or nothing", d);
            p[i] = keep.contains(&i);
            let removed = run_chain(mesh, reference, &Selection::Indices(vec![i]), &[(*c, SelectOp::Remove)]);
            r.check(removed.contains(&i) == !p[i] && removed.len() <= 1, "the verdict on a face is the same under Keep and Remove", d);
            if let Some(o) = oracle(mesh, reference, *c, i) {
                let what = match c {
                    Crit::Facing(..) => "facing verdict == (angle between the face normal and the direction < angle), false without a normal",
                    Crit::Near(_, _, None, None) => "near-mesh verdict (distance only) == all / any vertex within the distance by exhaustive point-triangle distance",
                    Crit::Near(..) => "near-mesh verdict (with tolerances) == per-vertex cap, in-plane distance and normal-angle test on the reported projection",
                };
                r.check(p[i] == o, what, d);
            }
        }
        let add = run_chain(mesh, reference, &Selection::None, &[(*c, SelectOp::Add)]);
        let pset: BTreeSet<usize> = (0..n).filter(|&i| p[i]).collect();
        r.check(add == pset, "Add from the empty selection yields exactly the faces that satisfy the criterion one at a time", || format!("{}: criterion {:?}: got {:?}, per-face {:?}", mname, c, add, pset));
        pred.push(p);
    }
    let mut sts = starts(n.max(1));
    sts.retain(|s| match s { Selection::Indices(v) => v.iter().all(|&i| i < n), _ => true });
    sts.push(Selection::Indices(vec![]));
    sts.push(Selection::Indices(vec![n - 1]));
    // as many faces as the mesh has vertices (a selection whose SIZE coincides with another count of the mesh)
    if mesh.vertices().len() < n { sts.push(Selection::Indices((0..mesh.vertices().len()).collect())); }
    for st in sts.iter() {
        let s0 = start_set(n, st);
        r.case();
        let got = run_chain(mesh, reference, st, &[]);
        r.check(got == s0, "the starting selection is the given set of faces", || format!("{}: start {:?}: got {:?}", mname, st, got));
        built_checks(r, mname, mesh, reference, st, &[], &s0);
        for c1 in 0..judged.len() { for m1 in MODES {
            r.case();
            let e1 = apply(&s0, &pred[c1], m1);
            let chain1 = [(judged[c1], m1)];
            let got = run_chain(mesh, reference, st, &chain1);
            r.check(got == e1, clause(m1), || format!("{}: start {:?}, steps {:?}: got {:?}, expected {:?}", mname, st, chain1, got, e1));
            let again = run_chain(mesh, reference, st, &chain1);
            r.check(again == got, "a repeated run (fresh hash sets) yields the same selection", || format!("{}: start {:?}, steps {:?}: {:?} then {:?}", mname, st, chain1, got, again));
            if chained.contains(&c1) {
                built_checks(r, mname, mesh, reference, st, &chain1, &e1);
                for &c2 in chained.iter() { for m2 in MODES {
                    let e2 = apply(&e1, &pred[c2], m2);
                    let chain2 = [(judged[c1], m1), (judged[c2], m2)];
                    let got = run_chain(mesh, reference, st, &chain2);
                    r.check(got == e2, clause(m2), || format!("{}: start {:?}, steps {:?}: got {:?}, expected {:?} (after the first step {:?})", mname, st, chain2, got, e2, e1));
                } }
            }
        } }
    }
}

fn wave5(r: &mut Report) {
    for (mname, mesh, s) in wave5_meshes().iter() {
        let (judged, chained) = wave5_criteria(*s);
        let sh = transformed(mesh, 1.0, Vector3::new(0.125, 0.0625, 0.03125) * *s);
        let refs: Vec<(&str, Mesh)> = vec![
            ("shifted copy", transformed(mesh, 1.0, Vector3::new(0.125, 0.0625, 0.03125) * *s)),
            ("shifted copy with every face reversed", reversed_faces(&sh)),
            ("small plate near one corner", corner_plate(mesh, *s)),
            ("copy 100 sizes away", transformed(mesh, 1.0, Vector3::new(100.0, 0.0, 0.0) * *s)),
        ];
        for (rname, reference) in refs.iter() {
            let name = format!("{} / reference: {}", mname, rname);
            exercise(r, &name, mesh, reference, &judged, &chained);
        }
    }
    // the first three meshes of the main loop against the two references they have not seen (reversed, small plate),
    // with the new criterion values
    for (mname, mesh) in meshes().iter() {
        let (judged, chained) = wave5_criteria(1.0);
        for (rname, reference) in [("shifted copy with every face reversed", reversed_faces(&shifted(mesh))), ("small plate near one corner", corner_plate(mesh, 1.0)), ("shifted copy", shifted(mesh))].iter() {
            let name = format!("{} / reference: {}", mname, rname);
            exercise(r, &name, mesh, reference, &judged, &chained[..6]);
        }
    }
}

// ---- sizes: more than 2^16 vertices and 2^17 faces (every internal threshold on element counts and 16-bit ids)
fn big_mesh(r: &mut Report) {
    let nv = 260usize;                      // 260 x 260 = 67 600 vertices, 2 x 259^2 = 134 162 faces
    let h = 0.015625;
    let mut vertices = Vec::with_capacity(nv * nv);
    for j in 0..nv { for i in 0..nv { vertices.push(Point3::new(i as f64 * h, j as f64 * h, (i % 7) as f64 * h)); } }
    let id = |i: usize, j: usize| (j * nv + i) as u32;
    let mut faces = Vec::with_capacity(2 * (nv - 1) * (nv - 1));
    for j in 0..nv - 1 { for i in 0..nv - 1 {
        faces.push([id(i, j), id(i + 1, j), id(i + 1, j + 1)]);
        faces.push([id(i + 1, j + 1), id(i, j + 1), id(i, j)]);
    } }
    let mesh = Mesh::new(vertices, faces, false);
    let n = mesh.faces().len();
    let mname = "260 x 260 vertex saw-tooth sheet (67600 vertices, 134162 faces)";
    // reference: a plate above the END of the sheet (the vertices with ids >= 2^16 are rows 252 .. 259, y >= 3.9375: they
    // are near, the vertices with the same ids modulo 2^16 -- rows 0 .. 7 -- are not)
    let reference = Mesh::new(vec![Point3::new(1.0, 3.0, 0.203125), Point3::new(2.0, 3.0, 0.203125), Point3::new(2.0, 4.25, 0.203125), Point3::new(1.0, 4.25, 0.203125)], vec![[0, 1, 2], [0, 2, 3]], false);
    let crits = [Crit::Facing(0, 1.0), Crit::Near(true, 0.25, None, None), Crit::Near(false, 0.125, None, None), Crit::Near(true, 0.25, Some(0.0625), Some(1.0))];
    // per-vertex distances once (the oracle of `oracle` recomputed per face would cost 3 x as much)
    let mut sets: Vec<(BTreeSet<usize>, BTreeSet<usize>)> = vec![];       // (faces that satisfy, faces too close to a threshold to judge)
    for c in crits.iter() {
        let (mut yes, mut unsure) = (BTreeSet::new(), BTreeSet::new());
        match c {
            Crit::Facing(..) | Crit::Near(_, _, Some(_), _) | Crit::Near(_, _, _, Some(_)) => {
                // the generic oracle on a sample would not give sets; these two run it on every face of a band only
                for i in 0..n { match oracle_fast(&mesh, &reference, *c, i) { Some(true) => { yes.insert(i); } Some(false) => {} None => { unsure.insert(i); } } }
            }
            Crit::Near(all, d, None, None) => {
                let vd: Vec<f64> = mesh.vertices().iter().map(|p| mesh_dist(&reference, p)).collect();
                for (i, f) in mesh.faces().iter().enumerate() {
                    let ds = [vd[f[0] as usize], vd[f[1] as usize], vd[f[2] as usize]];
                    if ds.iter().any(|x| (x - d).abs() < EDGE) { unsure.insert(i); continue; }
                    let ok = if *all { ds.iter().all(|x| x <= d) } else { ds.iter().any(|x| x <= d) };
                    if ok { yes.insert(i); }
                }
            }
        }
        sets.push((yes, unsure));
    }
    let all_faces: BTreeSet<usize> = (0..n).collect();
    let strip_unsure = |s: &BTreeSet<usize>, u: &BTreeSet<usize>| -> BTreeSet<usize> { s.difference(u).copied().collect() };
    for (k, c) in crits.iter().enumerate() {
        r.case();
        let (yes, unsure) = &sets[k];
        let d = |got: &BTreeSet<usize>, want: &BTreeSet<usize>| format!("{}: criterion {:?}: {} faces selected, {} expected; first difference {:?}", mname, c, got.len(), want.len(), got.symmetric_difference(want).next());
        r.check(!yes.is_empty() && yes.len() < n, "input space: the criterion splits the large mesh", || format!("{}: criterion {:?}: {} of {}", mname, c, yes.len(), n));
        let add = run_chain(&mesh, &reference, &Selection::None, &[(*c, SelectOp::Add)]);
        let (g, w) = (strip_unsure(&add, unsure), strip_unsure(yes, unsure));
        r.check(g == w, clause(SelectOp::Add), || d(&g, &w));
        let keep = run_chain(&mesh, &reference, &Selection::All, &[(*c, SelectOp::Keep)]);
        let g = strip_unsure(&keep, unsure);
        r.check(g == w, clause(SelectOp::Keep), || d(&g, &w));
        let rem = run_chain(&mesh, &reference, &Selection::All, &[(*c, SelectOp::Remove)]);
        let (g, w2) = (strip_unsure(&rem, unsure), strip_unsure(&all_faces.difference(yes).copied().collect(), unsure));
        r.check(g == w2, clause(SelectOp::Remove), || d(&g, &w2));
        // a start given as an index list in the upper id range, one face at a time at the very end of the id range
        let hi: Vec<usize> = (n - 3000..n).rev().collect();
        let keep_hi = run_chain(&mesh, &reference, &Selection::Indices(hi.clone()), &[(*c, SelectOp::Keep)]);
        let want_hi: BTreeSet<usize> = hi.iter().copied().filter(|i| yes.contains(i)).collect();
        let (g, w3) = (strip_unsure(&keep_hi, unsure), strip_unsure(&want_hi, unsure));
        r.check(g == w3, clause(SelectOp::Keep), || d(&g, &w3));
    }
    // chain on the large mesh: facing Add, then near Keep, then near (any vertex) Remove
    {
        r.case();
        let chain = [(crits[0], SelectOp::Add), (crits[1], SelectOp::Keep), (crits[2], SelectOp::Remove)];
        let got = run_chain(&mesh, &reference, &Selection::None, &chain);
        let unsure: BTreeSet<usize> = sets[0].1.union(&sets[1].1).chain(sets[2].1.iter()).copied().collect();
        let want: BTreeSet<usize> = sets[0].0.intersection(&sets[1].0).filter(|i| !sets[2].0.contains(i)).copied().collect();
        let (g, w) = (strip_unsure(&got, &unsure), strip_unsure(&want, &unsure));
        r.check(g == w, clause(SelectOp::Remove), || format!("{}: steps {:?}: {} faces, {} expected", mname, chain, g.len(), w.len()));
    }
    // built meshes whose vertex ids lie above 2^16
    let last: Vec<usize> = (n - 2500..n).rev().collect();
    let lists: Vec<Vec<usize>> = vec![last.clone(), vec![n - 1], vec![0, n - 1, n / 2], (0..n).step_by(997).collect()];
    for list in lists.iter() {
        r.case();
        let d = || format!("{}: create_from_indices on {} faces (first {:?})", mname, list.len(), list.first());
        match catch_unwind(AssertUnwindSafe(|| mesh.create_from_indices(list))) {
            Ok(b) => check_built(r, &mesh, list, &b, d),
            Err(_) => r.check(false, "create_from_indices on a non-empty index list does not panic", d),
        }
        let d2 = || format!("{}: face_select(Indices of {} faces).create_mesh()", mname, list.len());
        match catch_unwind(AssertUnwindSafe(|| mesh.face_select(Selection::Indices(list.clone())).create_mesh())) {
            Ok(b) => check_built(r, &mesh, list, &b, d2),
            Err(_) => r.check(false, "create_mesh on a non-empty selection does not panic", d2),
        }
    }
    {
        r.case();
        let sel: Vec<usize> = run_chain(&mesh, &reference, &Selection::None, &[(crits[2], SelectOp::Add)]).into_iter().collect();
        let d = || format!("{}: face_select(None).near_mesh(any vertex within 1/8).create_mesh() ({} faces)", mname, sel.len());
        match catch_unwind(AssertUnwindSafe(|| step(mesh.face_select(Selection::None), &reference, crits[2], SelectOp::Add).create_mesh())) {
            Ok(b) => check_built(r, &mesh, &sel, &b, d),
            Err(_) => r.check(false, "create_mesh on a non-empty selection does not panic", d),
        }
    }
}
/// the oracle of `oracle`, skipping the exhaustive distance for faces whose vertices are all far outside the reference's
/// bounding box grown by the distance tolerance (they cannot be near; checked against the box, not against parry)
fn oracle_fast(mesh: &Mesh, reference: &Mesh, c: Crit, i: usize) -> Option<bool> {
    if let Crit::Near(all, d, _, _) = c {
        let (mut lo, mut hi) = (reference.vertices()[0], reference.vertices()[0]);
        for p in reference.vertices() { lo = Point3::new(lo.x.min(p.x), lo.y.min(p.y), lo.z.min(p.z)); hi = Point3::new(hi.x.max(p.x), hi.y.max(p.y), hi.z.max(p.z)); }
        let m = d.max(0.0) + 1.0e-3;
        let t = mesh.faces()[i];
        let outside = |p: &Point3| p.x < lo.x - m || p.y < lo.y - m || p.z < lo.z - m || p.x > hi.x + m || p.y > hi.y + m || p.z > hi.z + m;
        let out: Vec<bool> = t.iter().map(|&v| outside(&mesh.vertices()[v as usize])).collect();
        if (all && out.iter().any(|&b| b)) || out.iter().all(|&b| b) { return Some(false); }
    }
    oracle(mesh, reference, c, i)
}
