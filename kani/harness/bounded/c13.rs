//! C13 bounded: Mesh::section / Mesh::split on the REAL code (parry's plane intersection, chained_indices,
//! Curve3::from_points included) against a brute-force oracle.
//! Meshes (watertight): box 2x3x4, prism (triangle (0,0),(4,0),(0,3) extruded by 2), tetrahedron with legs 4 (convex) and an
//! L-shaped prism (non-convex: one curve per connected chain of crossing segments, up to two loops);
//! poses: identity, translation (1,-2,3), quarter turn about z + translation, third turn about (1,1,1).  Planes: 17
//! normals (6 axis-aligned, the 4 sign patterns of (1,1,1), (1,2,2)/3, (2,-3,6)/7, (1,-1,0.2), (-3,1,-2), (0,1,1),
//! (1,0,-2), (1,1,0)) x offsets: 0.5 outside either end of the mesh's extent along the normal (miss), odd sixteenths of the
//! extent, 0.25 and 2^-12 inside either end (single corners cut off: 3-segment loops, segments shorter than 1e-3).
//! Planes with a mesh vertex closer than 1e-5 are skipped ("through vertices avoided by a margin").
//! Rigid motion: every section / split is repeated on the moved mesh with the plane moved by Plane3::transform_by (5 motions:
//! cube-group rotations with integer translations and one general rotation by 0.7 rad about (1,2,2) followed by
//! (0.5,-1.25,2) - it turns every normal of the list and translates along it); transform_by itself is compared with the
//! written-out image plane (R n, d + R n . t).
//! ROUND 3: four more motions with TINY non-zero rotations (1e-8, 1e-7, 1e-6, 1e-5 rad; translations none / small / (1000,-500,250))
//! and a fifth pose far from the origin (+(600,0,800): radius 1e3); Mesh::transform itself (the way the mesh is moved) is
//! compared vertex by vertex with T * vertex for every mesh x motion.
//! Constructors: the same solids rebuilt with Mesh::new_with_options(is_solid = true; the 4 merge / delete option pairs),
//! Mesh::new_with_uv and create_box(.., true) - split areas must still sum to the original (a mesh that carries parry's
//! pseudo-normals is CAPPED by parry's split).
//! Several solids: rows of 2, 5, 6 and 10 disjoint boxes of different sizes in ONE mesh (appended, or built with
//! new_with_options): as many closed loops as boxes crossed, each crossing segment used exactly once.
//! Only watertight meshes are sectioned in the main loop: parry 0.18's intersection_with_local_plane does not terminate
//! on an open chain (one such input is run LAST, on a helper thread under a 2 s watchdog, under its own clause name).
//! Oracle: every face is classified by the signs of its vertex distances; a face with vertices on both sides yields one
//! crossing segment between the two crossing points of its cut edges; the cross-section of a convex solid is the convex
//! polygon through all edge crossing points (perimeter by angular sort about the centroid).
use super::Report;
use crate::geom3::{Curve3, Iso3, Mesh, Plane3, Point3, UnitVec3, Vector3};
use parry3d_f64::na::{Translation3, UnitQuaternion};
use parry3d_f64::query::SplitResult;
use std::f64::consts::PI;

const EPS: f64 = 1e-9;
fn eq(a: f64, b: f64) -> bool { (a - b).abs() <= EPS * (1.0 + a.abs().max(b.abs())) }
fn peq(a: &Point3, b: &Point3) -> bool { (a - b).norm() <= EPS * (1.0 + a.coords.norm().max(b.coords.norm())) }

fn seg_closest(a: &Point3, b: &Point3, q: &Point3) -> Point3 {
    let ab = b - a;
    let l2 = ab.norm_squared();
    if l2 == 0.0 { return *a; }
    a + ab * ((q - a).dot(&ab) / l2).clamp(0.0, 1.0)
}
fn tri_closest(a: &Point3, b: &Point3, c: &Point3, p: &Point3) -> Point3 {
    let n = (b - a).cross(&(c - a));
    let pp = p - n * ((p - a).dot(&n) / n.norm_squared());
    let s0 = (b - a).cross(&(pp - a)).dot(&n);
    let s1 = (c - b).cross(&(pp - b)).dot(&n);
    let s2 = (a - c).cross(&(pp - c)).dot(&n);
    if s0 >= 0.0 && s1 >= 0.0 && s2 >= 0.0 { return pp; }
    let mut best = seg_closest(a, b, p);
    for (u, v) in [(b, c), (c, a)] {
        let x = seg_closest(u, v, p);
        if (p - x).norm() < (p - best).norm() { best = x; }
    }
    best
}
fn area(v: &[Point3], f: &[[u32; 3]]) -> f64 {
    f.iter().map(|t| (v[t[1] as usize] - v[t[0] as usize]).cross(&(v[t[2] as usize] - v[t[0] as usize])).norm() * 0.5).sum()
}

struct Oracle {
    /// per crossed face: the two crossing points
    segs: Vec<(usize, Point3, Point3)>,
    /// one crossing point per cut mesh edge
    pts: Vec<Point3>,
    perimeter: f64,
}
fn oracle(v: &[Point3], f: &[[u32; 3]], n: &Vector3, d: f64) -> Oracle {
    let sd: Vec<f64> = v.iter().map(|p| n.dot(&p.coords) - d).collect();
    let cross = |a: usize, b: usize| -> Point3 { let (a, b) = if a < b { (a, b) } else { (b, a) }; v[a] + (v[b] - v[a]) * (sd[a] / (sd[a] - sd[b])) };
    let mut segs = vec![];
    let mut pts: Vec<Point3> = vec![];
    let mut seen: Vec<(usize, usize)> = vec![];
    for (k, t) in f.iter().enumerate() {
        let mut cp = vec![];
        for e in 0..3 {
            let (a, b) = (t[e] as usize, t[(e + 1) % 3] as usize);
            if (sd[a] < 0.0) != (sd[b] < 0.0) {
                cp.push(cross(a, b));
                let key = (a.min(b), a.max(b));
                if !seen.contains(&key) { seen.push(key); pts.push(cross(a, b)); }
            }
        }
        if cp.len() == 2 { segs.push((k, cp[0], cp[1])); }
    }
    // convex cross-section: sort the crossing points by angle about their centroid, in a basis of the plane
    let mut perimeter = 0.0;
    if pts.len() >= 3 {
        let c = pts.iter().fold(Vector3::zeros(), |s, p| s + p.coords) / pts.len() as f64;
        let helper = if n.x.abs() <= n.y.abs() && n.x.abs() <= n.z.abs() { Vector3::x() } else if n.y.abs() <= n.z.abs() { Vector3::y() } else { Vector3::z() };
        let u = n.cross(&helper).normalize();
        let w = n.cross(&u);
        let mut ang: Vec<(f64, Point3)> = pts.iter().map(|p| { let r = p.coords - c; (r.dot(&w).atan2(r.dot(&u)), *p) }).collect();
        ang.sort_by(|a, b| a.0.partial_cmp(&b.0).unwrap());
        for i in 0..ang.len() { perimeter += (ang[(i + 1) % ang.len()].1 - ang[i].1).norm(); }
    }
    Oracle { segs, pts, perimeter }
}

fn moved(m: &Mesh, t: &Iso3) -> Mesh { let mut c = m.clone(); c.transform(t); c }
/// the plane moved by t, written out (not Plane3::transform_by)
fn moved_plane(n: &Vector3, d: f64, t: &Iso3) -> (Vector3, f64) { let n2 = t.rotation * n; (n2, d + n2.dot(&t.translation.vector)) }
fn plane(n: &Vector3, d: f64) -> Plane3 { Plane3::new(UnitVec3::new_unchecked(*n), d) }

fn check_section(r: &mut Report, name: &str, m: &Mesh, convex: bool, n: &Vector3, d: f64, commute: &[(&str, Iso3)]) -> usize {
    let v = m.vertices().to_vec();
    let f = m.faces().to_vec();
    let desc = || format!("{} plane normal ({:?}, {:?}, {:?}) d {:?}", name, n.x, n.y, n.z, d);
    let o = oracle(&v, &f, n, d);
    r.case();
    let curves: Vec<Curve3> = match m.section(&plane(n, d), None) { Ok(c) => c, Err(_) => { r.check(false, "section: returns Ok", desc); return 0; } };
    if o.segs.is_empty() {
        r.check(curves.is_empty(), "section: a plane that misses the mesh yields no curve", desc);
    } else if convex {
        r.check(curves.len() == 1, "section: a convex solid crossed by the plane yields exactly one loop", desc);
    } else {
        // connected components of the crossing segments (joined at shared crossing points)
        let ns = o.segs.len();
        let mut comp: Vec<usize> = (0..ns).collect();
        loop {
            let mut changed = false;
            for i in 0..ns { for j in 0..ns {
                let (a, b) = (&o.segs[i], &o.segs[j]);
                if comp[i] != comp[j] && (peq(&a.1, &b.1) || peq(&a.1, &b.2) || peq(&a.2, &b.1) || peq(&a.2, &b.2)) {
                    let c = comp[i].min(comp[j]); comp[i] = c; comp[j] = c; changed = true;
                }
            } }
            if !changed { break; }
        }
        let mut ids = comp.clone(); ids.sort(); ids.dedup();
        r.check(curves.len() == ids.len(), "section: one curve per connected chain of crossing segments", desc);
    }
    let mut used = vec![0usize; f.len()];
    let mut nseg = 0;
    for c in curves.iter() {
        let p = c.points();
        for x in p.iter() {
            r.check((n.dot(&x.coords) - d).abs() <= EPS * (1.0 + d.abs()), "section: every vertex lies on the plane", desc);
            let on = f.iter().any(|t| (x - tri_closest(&v[t[0] as usize], &v[t[1] as usize], &v[t[2] as usize], x)).norm() <= EPS * (1.0 + x.coords.norm()));
            r.check(on, "section: every vertex lies on the mesh surface", desc);
            r.check(o.pts.iter().any(|y| peq(x, y)), "section: every vertex is the crossing point of a mesh edge with the plane", desc);
        }
        for i in 0..p.len() - 1 {
            nseg += 1;
            let hit: Vec<usize> = o.segs.iter().filter(|(_, a, b)| (peq(a, &p[i]) && peq(b, &p[i + 1])) || (peq(b, &p[i]) && peq(a, &p[i + 1]))).map(|(k, _, _)| *k).collect();
            r.check(hit.len() == 1, "section: consecutive vertices are joined across one face (they are the two crossing points of one crossed face)", desc);
            for k in hit { used[k] += 1; }
        }
        r.check(peq(&p[0], &p[p.len() - 1]) && p.len() >= 4, "section: every section curve of a watertight mesh is closed", desc);
    }
    r.check(o.segs.iter().all(|(k, _, _)| used[*k] == 1) && nseg == o.segs.len(), "section: each plane-face crossing segment is used exactly once", desc);
    if convex && curves.len() == 1 {
        r.check(eq(curves[0].length(), o.perimeter), "section: the loop of a convex solid has the analytic perimeter of the cross-section", desc);
    }
    let total: f64 = curves.iter().map(|c| c.length()).sum();
    let want: f64 = o.segs.iter().map(|(_, a, b)| (a - b).norm()).sum();
    r.check(eq(total, want), "section: the total length of the curves is the total length of the crossing segments", desc);
    // commutation with rigid motion of mesh and plane together
    for (tn, t) in commute.iter() {
        let dc = || format!("{} moved by {}", desc(), tn);
        let (n2, d2) = moved_plane(n, d, t);
        // the plane is moved the way a caller moves it: Plane3::transform_by; it must be the image of the plane
        let tp = plane(n, d).transform_by(t);
        r.check((tp.normal.into_inner() - n2).norm() <= EPS && eq(tp.d, d2) && (tp.d - d2).abs() <= EPS * (1.0 + d2.abs()),
            "Plane3::transform_by yields the image of the plane under the rigid motion (normal rotated, offset = d + rotated normal . translation)",
            || format!("{}: transform_by gives normal ({:?}, {:?}, {:?}) d {:?}, the image plane has normal ({:?}, {:?}, {:?}) d {:?}", dc(), tp.normal.x, tp.normal.y, tp.normal.z, tp.d, n2.x, n2.y, n2.z, d2));
        let c2 = match moved(m, t).section(&tp, None) { Ok(c) => c, Err(_) => { r.check(false, "section: returns Ok", dc); continue; } };
        // the loops may come in another order: every loop has a partner with the same vertex count, length and vertices
        let mut same = c2.len() == curves.len();
        if same {
            for a in curves.iter() {
                same &= c2.iter().any(|b| a.points().len() == b.points().len() && eq(a.length(), b.length())
                    && a.points().iter().all(|x| b.points().iter().any(|y| peq(&(t * x), y)))
                    && b.points().iter().all(|y| a.points().iter().any(|x| peq(&(t * x), y))));
            }
        }
        r.check(same, "section: commutes with rigid motion of mesh and plane together (same loops, vertex for vertex)", dc);
    }
    curves.len()
}

/// the rigid motion of the mesh is performed by Mesh::transform: vertex i moves to T * vertex i, the faces are kept
fn check_transform(r: &mut Report, name: &str, m: &Mesh, commute: &[(&str, Iso3)]) {
    for (tn, t) in commute.iter() {
        r.case();
        let mm = moved(m, t);
        let bad = if mm.vertices().len() != m.vertices().len() { Some(0) } else { mm.vertices().iter().zip(m.vertices().iter()).position(|(a, b)| !peq(a, &(t * b))) };
        r.check(bad.is_none() && mm.faces() == m.faces(), "Mesh::transform (used to move the mesh together with the plane): vertex i of the moved mesh is T * vertex i, the faces are kept",
            || { let k = bad.unwrap_or(0); format!("{} moved by {}: vertex {} ({:?}, {:?}, {:?}) became {:?}, T * vertex = {:?}", name, tn, k, m.vertices()[k].x, m.vertices()[k].y, m.vertices()[k].z, mm.vertices().get(k).map(|p| (p.x, p.y, p.z)), { let w = t * m.vertices()[k]; (w.x, w.y, w.z) }) });
    }
}

/// (kind, area of the negative part, area of the positive part): kind 0 = Pair, -1 = Negative, 1 = Positive
fn split_summary(m: &Mesh, pl: &Plane3) -> (i32, f64, f64) {
    match m.split(pl) {
        SplitResult::Positive => (1, 0.0, 0.0),
        SplitResult::Negative => (-1, 0.0, 0.0),
        SplitResult::Pair(a, b) => (0, area(a.vertices(), a.faces()), area(b.vertices(), b.faces())),
    }
}
/// splitting commutes with rigid motion of mesh and plane together (plane moved with Plane3::transform_by): same
/// verdict, same areas on either side
fn check_split_commutes(r: &mut Report, name: &str, m: &Mesh, n: &Vector3, d: f64, commute: &[(&str, Iso3)]) {
    let s0 = split_summary(m, &plane(n, d));
    for (tn, t) in commute.iter() {
        let s1 = split_summary(&moved(m, t), &plane(n, d).transform_by(t));
        r.check(s0.0 == s1.0 && eq(s0.1, s1.1) && eq(s0.2, s1.2), "split: commutes with rigid motion of mesh and plane together (same verdict, same areas on either side)",
            || format!("{} plane normal ({:?}, {:?}, {:?}) d {:?} moved by {}: (verdict, negative area, positive area) {:?} before, {:?} after", name, n.x, n.y, n.z, d, tn, s0, s1));
    }
}

fn check_split(r: &mut Report, name: &str, m: &Mesh, n: &Vector3, d: f64) {
    let v = m.vertices().to_vec();
    let f = m.faces().to_vec();
    let desc = || format!("{} plane normal ({:?}, {:?}, {:?}) d {:?}", name, n.x, n.y, n.z, d);
    let sd: Vec<f64> = v.iter().map(|p| n.dot(&p.coords) - d).collect();
    let (any_neg, any_pos) = (sd.iter().any(|s| *s < 0.0), sd.iter().any(|s| *s > 0.0));
    r.case();
    match m.split(&plane(n, d)) {
        SplitResult::Positive => r.check(!any_neg, "split: reports Positive only when the mesh is wholly on the positive side of the plane", desc),
        SplitResult::Negative => r.check(!any_pos, "split: reports Negative only when the mesh is wholly on the negative side of the plane", desc),
        SplitResult::Pair(a, b) => {
            r.check(any_neg && any_pos, "split: yields two meshes only when the plane crosses the mesh", desc);
            let tol = EPS * (1.0 + d.abs());
            r.check(a.vertices().iter().all(|p| n.dot(&p.coords) - d <= tol), "split: the first mesh lies on the negative side of the plane", desc);
            r.check(b.vertices().iter().all(|p| n.dot(&p.coords) - d >= -tol), "split: the second mesh lies on the positive side of the plane", desc);
            let (aa, ab, am) = (area(a.vertices(), a.faces()), area(b.vertices(), b.faces()), area(&v, &f));
            r.check(eq(aa + ab, am) && aa > 0.0 && ab > 0.0, "split: the areas of the two meshes sum to the original area", desc);
            // the negative part's area, independently: each face contributes its part below the plane
            let mut neg_area = 0.0;
            for t in f.iter() {
                let idx = [t[0] as usize, t[1] as usize, t[2] as usize];
                let mut poly: Vec<Point3> = vec![];
                for e in 0..3 {
                    let (i, j) = (idx[e], idx[(e + 1) % 3]);
                    if sd[i] < 0.0 { poly.push(v[i]); }
                    if (sd[i] < 0.0) != (sd[j] < 0.0) { poly.push(v[i] + (v[j] - v[i]) * (sd[i] / (sd[i] - sd[j]))); }
                }
                for k in 1..poly.len().max(2) - 1 { neg_area += (poly[k] - poly[0]).cross(&(poly[k + 1] - poly[0])).norm() * 0.5; }
            }
            r.check(eq(aa, neg_area), "split: the negative part has the area of the mesh below the plane", desc);
        }
    }
}

fn base_meshes() -> Vec<(&'static str, Mesh, bool)> {
    let p = |x: f64, y: f64, z: f64| Point3::new(x, y, z);
    let prism = Mesh::new(
        vec![p(0.0, 0.0, 0.0), p(4.0, 0.0, 0.0), p(0.0, 3.0, 0.0), p(0.0, 0.0, 2.0), p(4.0, 0.0, 2.0), p(0.0, 3.0, 2.0)],
        vec![[0, 2, 1], [3, 4, 5], [0, 1, 4], [0, 4, 3], [1, 2, 5], [1, 5, 4], [2, 0, 3], [2, 3, 5]], true);
    let tet = Mesh::new(vec![p(0.0, 0.0, 0.0), p(4.0, 0.0, 0.0), p(0.0, 4.0, 0.0), p(0.0, 0.0, 4.0)], vec![[0, 2, 1], [0, 1, 3], [0, 3, 2], [1, 2, 3]], true);
    // non-convex watertight: L-shaped outline (0,0),(4,0),(4,1),(1,1),(1,3),(0,3) extruded by 2 (sections with two loops)
    let ol = [(0.0, 0.0), (4.0, 0.0), (4.0, 1.0), (1.0, 1.0), (1.0, 3.0), (0.0, 3.0)];
    let mut lv: Vec<Point3> = ol.iter().map(|(x, y)| p(*x, *y, 0.0)).collect();
    lv.extend(ol.iter().map(|(x, y)| p(*x, *y, 2.0)));
    let mut lf: Vec<[u32; 3]> = vec![[0, 3, 1], [1, 3, 2], [0, 5, 3], [3, 5, 4], [6, 7, 9], [7, 8, 9], [6, 9, 11], [9, 10, 11]];
    for i in 0..6u32 { let j = (i + 1) % 6; lf.push([i, j, j + 6]); lf.push([i, j + 6, i + 6]); }
    let lprism = Mesh::new(lv, lf, true);
    vec![("box 2x3x4", Mesh::create_box(2.0, 3.0, 4.0, true), true), ("prism (0,0),(4,0),(0,3) x 2", prism, true), ("tetrahedron legs 4", tet, true),
         ("L-shaped prism (0,0),(4,0),(4,1),(1,1),(1,3),(0,3) x 2 (non-convex)", lprism, false)]
}

/// the same watertight solids built through the other public constructors (is_solid = true): new_with_options without
/// and with the merge / delete options, new_with_uv, and an appended pair
fn constructor_variants() -> Vec<(String, Mesh, bool)> {
    let mut out: Vec<(String, Mesh, bool)> = vec![];
    for (name, m, convex) in base_meshes() {
        let (v, f) = (m.vertices().to_vec(), m.faces().to_vec());
        for (merge, del) in [(false, false), (true, false), (false, true), (true, true)] {
            if let Ok(x) = Mesh::new_with_options(v.clone(), f.clone(), true, merge, del, None) {
                out.push((format!("{} built with Mesh::new_with_options(is_solid = true, merge_duplicates = {}, delete_degenerate = {})", name, merge, del), x, convex));
            }
        }
        out.push((format!("{} built with Mesh::new_with_uv(is_solid = true, None)", name), Mesh::new_with_uv(v.clone(), f.clone(), true, None), convex));
    }
    out.push(("Mesh::create_box(1, 1, 1, true)".to_string(), Mesh::create_box(1.0, 1.0, 1.0, true), true));
    out.push(("Mesh::create_box(0.5, 4, 1.25, true)".to_string(), Mesh::create_box(0.5, 4.0, 1.25, true), true));
    out
}

/// k disjoint boxes in ONE mesh (box i: create_box(1 + i/8, 2, 3 - i/4) moved by (2.5 i, 0.75 (i mod 3), 0.5 (i mod 2))),
/// built either by appending solid boxes or with new_with_options(is_solid = true); the vertex ranges of the solids
fn box_row(k: usize, via_options: bool) -> (Mesh, Vec<(usize, usize)>) {
    let mut v: Vec<Point3> = vec![];
    let mut f: Vec<[u32; 3]> = vec![];
    let mut ranges = vec![];
    let mut appended: Option<Mesh> = None;
    for i in 0..k {
        let mut b = Mesh::create_box(1.0 + i as f64 / 8.0, 2.0, 3.0 - i as f64 / 4.0, true);
        b.transform(&Iso3::translation(2.5 * i as f64, 0.75 * (i % 3) as f64, 0.5 * (i % 2) as f64));
        let base = v.len() as u32;
        ranges.push((v.len(), v.len() + b.vertices().len()));
        v.extend(b.vertices().iter().cloned());
        f.extend(b.faces().iter().map(|t| [t[0] + base, t[1] + base, t[2] + base]));
        match appended.as_mut() { None => appended = Some(b), Some(a) => { let _ = a.append(&b); } }
    }
    let m = if via_options { Mesh::new_with_options(v, f, true, false, false, None).expect("new_with_options") } else { appended.unwrap() };
    (m, ranges)
}

pub fn run() -> Option<Report> {
    let mut r = Report::new("watertight meshes: box 2x3x4, triangular prism, tetrahedron (convex) and an L-shaped prism (non-convex, sections with two loops), in 5 poses (identity, translation, quarter turn about z + translation, third turn about (1,1,1), quarter turn about x + (600,0,800) = far from the origin); planes: 17 normals (axis-aligned, all sign patterns of (1,1,1), (1,2,2)/3, (2,-3,6)/7, mixed-sign oblique ones) x offsets missing the mesh by 0.5, odd sixteenths of the extent, 0.25 and 2^-12 inside either end (single corners cut off, segments shorter than 1e-3); planes with a mesh vertex closer than 1e-5 skipped; section additionally compared after 9 further rigid motions (cube group + integer translations, a general one, four tiny ones); split additionally on an open two-triangle strip; the plane of every moved configuration is produced by Plane3::transform_by (9 motions incl. a general one: rotation by 0.7 rad about (1,2,2) then +(0.5,-1.25,2), and four with TINY non-zero rotations: 1e-6 rad about (1,2,2) then +(0.5,-1.25,2), 1e-7 rad about z, 1e-8 rad about (0,1,1) then +(1e-8,0,0), -1e-5 rad about (1,-1,0) then +(1000,-500,250); Mesh::transform is compared vertex by vertex with T * vertex for every mesh x motion) and split is compared across them as well; the same solids built with Mesh::new_with_options(is_solid = true, 4 option pairs) / new_with_uv / create_box(.., true) in 2 poses x 9 normals x 6 offsets; 2, 5, 6 and 10 disjoint boxes in one mesh (appended, or new_with_options is_solid = true) in 2 poses x 7 normals x 9 offsets: as many closed loops as boxes crossed; tolerance 1e-9 relative");
    let q = |ax: Vector3, ang: f64| UnitQuaternion::from_axis_angle(&UnitVec3::new_normalize(ax), ang);
    let poses: Vec<(&str, Iso3)> = vec![
        ("identity", Iso3::identity()),
        ("+(1,-2,3)", Iso3::translation(1.0, -2.0, 3.0)),
        ("Rz90 then +(-4,0.5,2)", Iso3::from_parts(Translation3::new(-4.0, 0.5, 2.0), q(Vector3::z(), PI / 2.0))),
        ("R(1,1,1)120", Iso3::from_parts(Translation3::new(0.0, 0.0, 0.0), q(Vector3::new(1.0, 1.0, 1.0), 2.0 * PI / 3.0))),
        // far from the origin (radius 1e3): a tiny rotation about the origin moves the mesh by 1e-4 .. 1e-2
        ("Rx90 then +(600,0,800)", Iso3::from_parts(Translation3::new(600.0, 0.0, 800.0), q(Vector3::x(), PI / 2.0))),
    ];
    let commute: Vec<(&str, Iso3)> = vec![
        ("Rx90", Iso3::from_parts(Translation3::new(0.0, 0.0, 0.0), q(Vector3::x(), PI / 2.0))),
        ("Ry90 then +(1,-2,3)", Iso3::from_parts(Translation3::new(1.0, -2.0, 3.0), q(Vector3::y(), PI / 2.0))),
        ("Rz180 then +(0,5,0)", Iso3::from_parts(Translation3::new(0.0, 5.0, 0.0), q(Vector3::z(), PI))),
        ("R(1,1,1)240 then +(-3,0,7)", Iso3::from_parts(Translation3::new(-3.0, 0.0, 7.0), q(Vector3::new(1.0, 1.0, 1.0), 4.0 * PI / 3.0))),
        // a general motion: rotates every normal of the list and translates along every one of them
        ("R(1,2,2)0.7rad then +(0.5,-1.25,2)", Iso3::from_parts(Translation3::new(0.5, -1.25, 2.0), q(Vector3::new(1.0, 2.0, 2.0), 0.7))),
        // TINY but non-zero rotations (the quaternion's scalar part differs from 1 by less than 1e-10): a residual fine-alignment
        // correction; with and without a translation
        ("tiny: 1e-6 rad about (1,2,2) then +(0.5,-1.25,2)", Iso3::from_parts(Translation3::new(0.5, -1.25, 2.0), q(Vector3::new(1.0, 2.0, 2.0), 1.0e-6))),
        ("tiny: 1e-7 rad about z, no translation", Iso3::from_parts(Translation3::new(0.0, 0.0, 0.0), q(Vector3::z(), 1.0e-7))),
        ("tiny: 1e-8 rad about (0,1,1) then +(1e-8,0,0)", Iso3::from_parts(Translation3::new(1.0e-8, 0.0, 0.0), q(Vector3::new(0.0, 1.0, 1.0), 1.0e-8))),
        ("tiny: -1e-5 rad about (1,-1,0) then +(1000,-500,250)", Iso3::from_parts(Translation3::new(1000.0, -500.0, 250.0), q(Vector3::new(1.0, -1.0, 0.0), -1.0e-5))),
    ];
    let nv = |x: f64, y: f64, z: f64| Vector3::new(x, y, z).normalize();
    let normals = vec![
        nv(1.0, 0.0, 0.0), nv(-1.0, 0.0, 0.0), nv(0.0, 1.0, 0.0), nv(0.0, -1.0, 0.0), nv(0.0, 0.0, 1.0), nv(0.0, 0.0, -1.0),
        nv(1.0, 1.0, 1.0), nv(1.0, -1.0, 1.0), nv(-1.0, 1.0, 1.0), nv(1.0, 1.0, -1.0),
        Vector3::new(1.0, 2.0, 2.0) / 3.0, Vector3::new(2.0, -3.0, 6.0) / 7.0,
        nv(1.0, -1.0, 0.2), nv(-3.0, 1.0, -2.0), nv(0.0, 1.0, 1.0), nv(1.0, 0.0, -2.0), nv(1.0, 1.0, 0.0),
    ];
    let thin = 1.0 / 4096.0;
    let (mut two_loops, mut three_seg) = (0usize, 0usize);
    for (mname, base, convex) in base_meshes().iter() {
        for (pname, pose) in poses.iter() {
            let m = moved(base, pose);
            let name = format!("{} in pose {}", mname, pname);
            check_transform(&mut r, &name, &m, &commute);
            for n in normals.iter() {
                let s: Vec<f64> = m.vertices().iter().map(|p| n.dot(&p.coords)).collect();
                let lo = s.iter().cloned().fold(f64::INFINITY, f64::min);
                let hi = s.iter().cloned().fold(f64::NEG_INFINITY, f64::max);
                let mut offs = vec![lo - 0.5, hi + 0.5, lo + 0.25, hi - 0.25, lo + thin, hi - thin];
                for k in [1.0, 3.0, 5.0, 7.0, 9.0, 11.0, 13.0, 15.0] { offs.push(lo + (hi - lo) * k / 16.0); }
                for d in offs {
                    if s.iter().any(|x| (x - d).abs() < 1e-5) { continue; }
                    let k = check_section(&mut r, &name, &m, *convex, n, d, &commute);
                    if k == 2 { two_loops += 1; }
                    if k == 1 && (d - lo - thin).abs() < 1e-12 { three_seg += 1; }
                    check_split(&mut r, &name, &m, n, d);
                    check_split_commutes(&mut r, &name, &m, n, d, &commute);
                }
            }
        }
    }
    // ---- the same solids through the other constructors (is_solid = true): split area sums and sections
    let general = Iso3::from_parts(Translation3::new(-2.0, 1.5, 0.25), q(Vector3::new(2.0, -1.0, 2.0), 1.1));
    for (name, base, convex) in constructor_variants().iter() {
        for (pname, pose) in [("identity", Iso3::identity()), ("R(2,-1,2)1.1rad then +(-2,1.5,0.25)", general)] {
            let m = moved(base, &pose);
            let name = format!("{} in pose {}", name, pname);
            for n in normals.iter().step_by(2) {
                let s: Vec<f64> = m.vertices().iter().map(|p| n.dot(&p.coords)).collect();
                let lo = s.iter().cloned().fold(f64::INFINITY, f64::min);
                let hi = s.iter().cloned().fold(f64::NEG_INFINITY, f64::max);
                for d in [lo - 0.5, lo + 0.25, lo + (hi - lo) * 5.0 / 16.0, lo + (hi - lo) * 9.0 / 16.0, hi - thin, hi + 0.5] {
                    if s.iter().any(|x| (x - d).abs() < 1e-5) { continue; }
                    check_section(&mut r, &name, &m, *convex, n, d, &commute[4..]);
                    check_split(&mut r, &name, &m, n, d);
                    check_split_commutes(&mut r, &name, &m, n, d, &commute[1..2]);
                }
            }
        }
    }
    // ---- several disjoint solids in one mesh: as many closed loops as solids crossed, every crossing segment once
    let mut many = 0usize;
    for k in [2usize, 5, 6, 10] { for via_options in [false, true] {
        let (base, ranges) = box_row(k, via_options);
        for (pname, pose) in [("identity", Iso3::identity()), ("R(2,-1,2)1.1rad then +(-2,1.5,0.25)", general)] {
            let m = moved(&base, &pose);
            let name = format!("{} disjoint boxes in one mesh ({}) in pose {}", k, if via_options { "Mesh::new_with_options, is_solid = true" } else { "solid boxes appended" }, pname);
            for n0 in [nv(0.0, 0.0, 1.0), nv(0.0, 1.0, 0.0), nv(0.0, -1.0, 0.2), nv(1.0, 0.0, 0.0), nv(1.0, 1.0, 1.0), nv(1.0, -3.0, 2.0), Vector3::new(1.0, 2.0, 2.0) / 3.0] {
                let n = pose.rotation * n0; // the same cuts in either pose
                let s: Vec<f64> = m.vertices().iter().map(|p| n.dot(&p.coords)).collect();
                let lo = s.iter().cloned().fold(f64::INFINITY, f64::min);
                let hi = s.iter().cloned().fold(f64::NEG_INFINITY, f64::max);
                for kf in [-1.0, 1.0, 3.0, 5.0, 8.0, 11.0, 13.0, 15.0, 17.0] {
                    let d = lo + (hi - lo) * kf / 16.0 + 1.0 / 64.0;
                    if s.iter().any(|x| (x - d).abs() < 1e-5) { continue; }
                    let crossed = ranges.iter().filter(|(a, b)| s[*a..*b].iter().any(|x| *x < d) && s[*a..*b].iter().any(|x| *x > d)).count();
                    let loops = check_section(&mut r, &name, &m, false, &n, d, &commute[4..]);
                    r.check(loops == crossed, "section: as many closed loops as disjoint convex solids crossed by the plane", || format!("{} plane normal ({:?}, {:?}, {:?}) d {:?}: {} curves, {} solids crossed", name, n.x, n.y, n.z, d, loops, crossed));
                    if crossed >= 5 { many += 1; }
                    check_split(&mut r, &name, &m, &n, d);
                }
            }
        }
    } }
    r.check(many >= 24, "coverage: the input space contains sections through five or more disjoint solids", || format!("{} such sections", many));
    r.check(two_loops >= 8 && three_seg >= 8, "coverage: the input space contains two-loop sections and thin corner cuts", || format!("two-loop sections {}, thin cuts {}", two_loops, three_seg));
    // split of an open mesh (section is NOT run on open meshes, see the header)
    let p = |x: f64, y: f64, z: f64| Point3::new(x, y, z);
    let strip = Mesh::new(vec![p(0.0, 0.0, 0.0), p(2.0, 0.0, 0.0), p(0.0, 2.0, 0.0), p(2.0, 2.0, 1.0)], vec![[0, 1, 2], [1, 3, 2]], false);
    for n in normals.iter() {
        for d in [-3.0, -0.75, -0.3, 0.3, 0.45, 0.75, 1.1, 1.6, 4.0] {
            if strip.vertices().iter().any(|x| (n.dot(&x.coords) - d).abs() < 1e-5) { continue; }
            check_split(&mut r, "open two-triangle strip", &strip, n, d);
        }
    }
    open_mesh_watchdog(&mut r);
    Some(r)
}

/// LAST clause (own name): Mesh::section on an OPEN mesh crossed by the plane.  parry 0.18's
/// `TriMesh::intersection_with_local_plane` walks each chain of crossing segments "until the loop closes"; on an open
/// chain the walk reaches the end vertex, finds no unvisited neighbour and never leaves the `while` loop (it pushes the
/// same segment until memory is exhausted).  The call is made on a helper thread; the watchdog waits 2 s (the call takes
/// microseconds when it returns) and the process exits right after the report is printed.
fn open_mesh_watchdog(r: &mut Report) {
    use std::sync::mpsc;
    use std::time::Duration;
    let (tx, rx) = mpsc::channel();
    std::thread::spawn(move || {
        let p = |x: f64, y: f64, z: f64| Point3::new(x, y, z);
        let square = Mesh::new(vec![p(0.0, 0.0, 0.0), p(2.0, 0.0, 0.0), p(0.0, 2.0, 0.0), p(2.0, 2.0, 0.0)], vec![[0, 1, 2], [1, 3, 2]], false);
        let out: Vec<(usize, f64)> = match square.section(&Plane3::new(Vector3::x_axis(), 0.75), None) {
            Ok(c) => c.iter().map(|x| (x.points().len(), x.length())).collect(),
            Err(_) => vec![(0, -1.0)],
        };
        let _ = tx.send(out);
    });
    let got = rx.recv_timeout(Duration::from_secs(2));
    let desc = || "flat square (0,0,0),(2,0,0),(0,2,0),(2,2,0) of two triangles [0,1,2],[1,3,2] (open mesh), plane x = 0.75".to_string();
    r.case();
    r.check(got.is_ok(), "[parry 0.18 intersection_with_local_plane, open chain] section of an open mesh crossed by the plane returns (watchdog 2 s)", desc);
    if let Ok(c) = got {
        r.check(c.len() == 1 && c[0].0 == 3 && eq(c[0].1, 2.0), "section of an open flat square: one open curve through the two crossed faces, length 2", desc);
    }
}
