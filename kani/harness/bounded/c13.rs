//! C13 bounded: Mesh::section / Mesh::split on the REAL code (parry's plane intersection, chained_indices,
//! Curve3::from_points included) against a brute-force oracle.
//! Meshes (watertight): box 2x3x4, prism (triangle (0,0),(4,0),(0,3) extruded by 2), tetrahedron with legs 4 (convex) and an
//! L-shaped prism (non-convex: one curve per connected chain of crossing segments, up to two loops);
//! poses: identity, translation (1,-2,3), quarter turn about z + translation, third turn about (1,1,1).  Planes: 17
//! normals (6 axis-aligned, the 4 sign patterns of (1,1,1), (1,2,2)/3, (2,-3,6)/7, (1,-1,0.2), (-3,1,-2), (0,1,1),
//! (1,0,-2), (1,1,0)) x offsets: 0.5 outside either end of the mesh's extent along the normal (miss), odd sixteenths of the
//! extent, 0.25 and 2^-12 inside either end (single corners cut off: 3-segment loops, segments shorter than 1e-3).
//! Planes with a mesh vertex closer than 1e-5 are skipped ("through vertices avoided by a margin").
//! Rigid motion: every section / split is repeated on the moved mesh with the plane moved by Plane3::transform_by (5 motions:
//! cube-group rotations with integer translations and one general rotation by 0.7 rad about (1,2,2) followed by
//! (0.5,-1.25,2) - it turns every normal of the list and translates along it); transform_by itself is compared with the
//! written-out image plane (R n, d + R n . t).
//! ROUND 3: four more motions with TINY non-zero rotations (1e-8, 1e-7, 1e-6, 1e-5 rad; translations none / small / (1000,-500,250))
//! and a fifth pose far from the origin (+(600,0,800): radius 1e3); Mesh::transform itself (the way the mesh is moved) is
//! compared vertex by vertex with T * vertex for every mesh x motion.
//! Constructors: the same solids rebuilt with Mesh::new_with_options(is_solid = true; the 4 merge / delete option pairs),
//! Mesh::new_with_uv and create_box(.., true) - split areas must still sum to the original (a mesh that carries parry's
//! pseudo-normals is CAPPED by parry's split).
//! Several solids: rows of 2, 5, 6 and 10 disjoint boxes of different sizes in ONE mesh (appended, or built with
//! new_with_options): as many closed loops as boxes crossed, each crossing segment used exactly once.
//! Only watertight meshes are sectioned in the main loop: parry 0.18's intersection_with_local_plane does not terminate
//! on an open chain (one such input is run LAST, on a helper thread under a 2 s watchdog, under its own clause name).
//! Oracle: every face is classified by the signs of its vertex distances; a face with vertices on both sides yields one
//! crossing segment between the two crossing points of its cut edges; the cross-section of a convex solid is the convex
//! polygon through all edge crossing points (perimeter by angular sort about the centroid).
//! WAVE 5 (second half of the file): parameter-space audit families, see the comment there and notes/w5_audit_C13.md.
use super::{thorough, Report};
use crate::geom3::{Curve3, Iso3, Mesh, Plane3, Point3, UnitVec3, Vector3};
use parry3d_f64::na::{Translation3, UnitQuaternion};
use parry3d_f64::query::SplitResult;
use std::collections::HashMap;
use std::f64::consts::PI;

const EPS: f64 = 1e-9;
fn eq(a: f64, b: f64) -> bool { (a - b).abs() <= EPS * (1.0 + a.abs().max(b.abs())) }
fn peq(a: &Point3, b: &Point3) -> bool { (a - b).norm() <= EPS * (1.0 + a.coords.norm().max(b.coords.norm())) }

fn seg_closest(a: &Point3, b: &Point3, q: &Point3) -> Point3 {
    let ab = b - a;
    let l2 = ab.norm_squared();
    if l2 == 0.0 { return *a; }
    a + ab * ((q - a).dot(&ab) / l2).clamp(0.0, 1.0)
}
fn tri_closest(a: &Point3, b: &Point3, c: &Point3, p: &Point3) -> Point3 {
    let n = (b - a).cross(&(c - a));
    let pp = p - n * ((p - a).dot(&n) / n.norm_squared());
    let s0 = (b - a).cross(&(pp - a)).dot(&n);
    let s1 = (c - b).cross(&(pp - b)).dot(&n);
    let s2 = (a - c).cross(&(pp - c)).dot(&n);
    if s0 >= 0.0 && s1 >= 0.0 && s2 >= 0.0 { return pp; }
    let mut best = seg_closest(a, b, p);
    for (u, v) in [(b, c), (c, a)] {
        let x = seg_closest(u, v, p);
        if (p - x).norm() < (p - best).norm() { best = x; }
    }
    best
}
fn area(v: &[Point3], f: &[[u32; 3]]) -> f64 {
    f.iter().map(|t| (v[t[1] as usize] - v[t[0] as usize]).cross(&(v[t[2] as usize] - v[t[0] as usize])).norm() * 0.5).sum()
}

struct Oracle {
    /// per crossed face: the two crossing points
    segs: Vec<(usize, Point3, Point3)>,
    /// one crossing point per cut mesh edge
    pts: Vec<Point3>,
    perimeter: f64,
}
fn oracle(v: &[Point3], f: &[[u32; 3]], n: &Vector3, d: f64) -> Oracle {
    let sd: Vec<f64> = v.iter().map(|p| n.dot(&p.coords) - d).collect();
    let cross = |a: usize, b: usize| -> Point3 { let (a, b) = if a < b { (a, b) } else { (b, a) }; v[a] + (v[b] - v[a]) * (sd[a] / (sd[a] - sd[b])) };
    let mut segs = vec![];
    let mut pts: Vec<Point3> = vec![];
    let mut seen: Vec<(usize, usize)> = vec![];
    for (k, t) in f.iter().enumerate() {
        let mut cp = vec![];
        for e in 0..3 {
            let (a, b) = (t[e] as usize, t[(e + 1) % 3] as usize);
            if (sd[a] < 0.0) != (sd[b] < 0.0) {
                cp.push(cross(a, b));
                let key = (a.min(b), a.max(b));
                if !seen.contains(&key) { seen.push(key); pts.push(cross(a, b)); }
            }
        }
        if cp.len() == 2 { segs.push((k, cp[0], cp[1])); }
    }
    // convex cross-section: sort the crossing points by angle about their centroid, in a basis of the plane
    let mut perimeter = 0.0;
    if pts.len() >= 3 {
        let c = pts.iter().fold(Vector3::zeros(), |s, p| s + p.coords) / pts.len() as f64;
        let helper = if n.x.abs() <= n.y.abs() && n.x.abs() <= n.z.abs() { Vector3::x() } else if n.y.abs() <= n.z.abs() { Vector3::y() } else { Vector3::z() };
        let u = n.cross(&helper).normalize();
        let w = n.cross(&u);
        let mut ang: Vec<(f64, Point3)> = pts.iter().map(|p| { let r = p.coords - c; (r.dot(&w).atan2(r.dot(&u)), *p) }).collect();
        ang.sort_by(|a, b| a.0.partial_cmp(&b.0).unwrap());
        for i in 0..ang.len() { perimeter += (ang[(i + 1) % ang.len()].1 - ang[i].1).norm(); }
    }
    Oracle { segs, pts, perimeter }
}

fn moved(m: &Mesh, t: &Iso3) -> Mesh { let mut c = m.clone(); c.transform(t); c }
/// the plane moved by t, written out (not Plane3::transform_by)
fn moved_plane(n: &Vector3, d: f64, t: &Iso3) -> (Vector3, f64) { let n2 = t.rotation * n; (n2, d + n2.dot(&t.translation.vector)) }
fn plane(n: &Vector3, d: f64) -> Plane3 { Plane3::new(UnitVec3::new_unchecked(*n), d) }

fn check_section(r: &mut Report, name: &str, m: &Mesh, convex: bool, n: &Vector3, d: f64, commute: &[(&str, Iso3)]) -> usize {
    let v = m.vertices().to_vec();
    let f = m.faces().to_vec();
    let desc = || format!("{} plane normal ({:?}, {:?}, {:?}) d {:?}", name, n.x, n.y, n.z, d);
    let o = oracle(&v, &f, n, d);
    r.case();
    let curves: Vec<Curve3> = match m.section(&plane(n, d), None) { Ok(c) => c, Err(_) => { r.check(false, "section: returns Ok", desc); return 0; } };
    if o.segs.is_empty() {
        r.check(curves.is_empty(), "section: a plane that misses the mesh yields no curve", desc);
    } else if convex {
        r.check(curves.len() == 1, "section: a convex solid crossed by the plane yields exactly one loop", desc);
    } else {
        // connected components of the crossing segments (joined at shared crossing points)
        let ns = o.segs.len();
        let mut comp: Vec<usize> = (0..ns).collect();
        loop {
            let mut changed = false;
            for i in 0..ns { for j in 0..ns {
                let (a, b) = (&o.segs[i], &o.segs[j]);
                if comp[i] != comp[j] && (peq(&a.1, &b.1) || peq(&a.1, &b.2) || peq(&a.2, &b.1) || peq(&a.2, &b.2)) {
                    let c = comp[i].min(comp[j]); comp[i] = c; comp[j] = c; changed = true;
                }
            } }
            if !changed { break; }
        }
        let mut ids = comp.clone(); ids.sort(); ids.dedup();
        r.check(curves.len() == ids.len(), "section: one curve per connected chain of crossing segments", desc);
    }
    let mut used = vec![0usize; f.len()];
    let mut nseg = 0;
    for c in curves.iter() {
        let p = c.points();
        for x in p.iter() {
            r.check((n.dot(&x.coords) - d).abs() <= EPS * (1.0 + d.abs()), "section: every vertex lies on the plane", desc);
            let on = f.iter().any(|t| (x - tri_closest(&v[t[0] as usize], &v[t[1] as usize], &v[t[2] as usize], x)).norm() <= EPS * (1.0 + x.coords.norm()));
            r.check(on, "section: every vertex lies on the mesh surface", desc);
            r.check(o.pts.iter().any(|y| peq(x, y)), "section: every vertex is the crossing point of a mesh edge with the plane", desc);
        }
        for i in 0..p.len() - 1 {
            nseg += 1;
            let hit: Vec<usize> = o.segs.iter().filter(|(_, a, b)| (peq(a, &p[i]) && peq(b, &p[i + 1])) || (peq(b, &p[i]) && peq(a, &p[i + 1]))).map(|(k, _, _)| *k).collect();
            r.check(hit.len() == 1, "section: consecutive vertices are joined across one face (they are the two crossing points of one crossed face)", desc);
            for k in hit { used[k] += 1; }
        }
        r.check(peq(&p[0], &p[p.len() - 1]) && p.len() >= 4, "section: every section curve of a watertight mesh is closed", desc);
    }
    r.check(o.segs.iter().all(|(k, _, _)| used[*k] == 1) && nseg == o.segs.len(), "section: each plane-face crossing segment is used exactly once", desc);
    if convex && curves.len() == 1 {
        r.check(eq(curves[0].length(), o.perimeter), "section: the loop of a convex solid has the analytic perimeter of the cross-section", desc);
    }
    let total: f64 = curves.iter().map(|c| c.length()).sum();
    let want: f64 = o.segs.iter().map(|(_, a, b)| (a - b).norm()).sum();
    r.check(eq(total, want), "section: the total length of the curves is the total length of the crossing segments", desc);
    // commutation with rigid motion of mesh and plane together
    for (tn, t) in commute.iter() {
        let dc = || format!("{} moved by {}", desc(), tn);
        let (n2, d2) = moved_plane(n, d, t);
        // the plane is moved the way a caller moves it: Plane3::transform_by; it must be the image of the plane
        let tp = plane(n, d).transform_by(t);
        r.check((tp.normal.into_inner() - n2).norm() <= EPS && eq(tp.d, d2) && (tp.d - d2).abs() <= EPS * (1.0 + d2.abs()),
            "Plane3::transform_by yields the image of the plane under the rigid motion (normal rotated, offset = d + rotated normal . translation)",
            || format!("{}: transform_by gives normal ({:?}, {:?}, {:?}) d {:?}, the image plane has normal ({:?}, {:?}, {:?}) d {:?}", dc(), tp.normal.x, tp.normal.y, tp.normal.z, tp.d, n2.x, n2.y, n2.z, d2));
        let c2 = match moved(m, t).section(&tp, None) { Ok(c) => c, Err(_) => { r.check(false, "section: returns Ok", dc); continue; } };
        // the loops may come in another order: every loop has a partner with the same vertex count, length and vertices
        let mut same = c2.len() == curves.len();
        if same {
            for a in curves.iter() {
                same &= c2.iter().any(|b| a.points().len() == b.points().len() && eq(a.length(), b.length())
                    && a.points().iter().all(|x| b.points().iter().any(|y| peq(&(t * x), y)))
                    && b.points().iter().all(|y| a.points().iter().any(|x| peq(&(t * x), y))));
            }
        }
        r.check(same, "section: commutes with rigid motion of mesh and plane together (same loops, vertex for vertex)", dc);
    }
    curves.len()
}

/// the rigid motion of the mesh is performed by Mesh::transform: vertex i moves to T * vertex i, the faces are kept
fn check_transform(r: &mut Report, name: &str, m: &Mesh, commute: &[(&str, Iso3)]) {
    for (tn, t) in commute.iter() {
        r.case();
        let mm = moved(m, t);
        let bad = if mm.vertices().len() != m.vertices().len() { Some(0) } else { mm.vertices().iter().zip(m.vertices().iter()).position(|(a, b)| !peq(a, &(t * b))) };
        r.check(bad.is_none() && mm.faces() == m.faces(), "Mesh::transform (used to move the mesh together with the plane): vertex i of the moved mesh is T * vertex i, the faces are kept",
            || { let k = bad.unwrap_or(0); format!("{} moved by {}: vertex {} ({:?}, {:?}, {:?}) became {:?}, T * vertex = {:?}", name, tn, k, m.vertices()[k].x, m.vertices()[k].y, m.vertices()[k].z, mm.vertices().get(k).map(|p| (p.x, p.y, p.z)), { let w = t * m.vertices()[k]; (w.x, w.y, w.z) }) });
    }
}

/// (kind, area of the negative part, area of the positive part): kind 0 = Pair, -1 = Negative, 1 = Positive
fn split_summary(m: &Mesh, pl: &Plane3) -> (i32, f64, f64) {
    match m.split(pl) {
        SplitResult::Positive => (1, 0.0, 0.0),
        SplitResult::Negative => (-1, 0.0, 0.0),
        SplitResult::Pair(a, b) => (0, area(a.vertices(), a.faces()), area(b.vertices(), b.faces())),
    }
}
/// splitting commutes with rigid motion of mesh and plane together (plane moved with Plane3::transform_by): same
/// verdict, same areas on either side
fn check_split_commutes(r: &mut Report, name: &str, m: &Mesh, n: &Vector3, d: f64, commute: &[(&str, Iso3)]) {
    let s0 = split_summary(m, &plane(n, d));
    for (tn, t) in commute.iter() {
        let s1 = split_summary(&moved(m, t), &plane(n, d).transform_by(t));
        r.check(s0.0 == s1.0 && eq(s0.1, s1.1) && eq(s0.2, s1.2), "split: commutes with rigid motion of mesh and plane together (same verdict, same areas on either side)",
            || format!("{} plane normal ({:?}, {:?}, {:?}) d {:?} moved by {}: (verdict, negative area, positive area) {:?} before, {:?} after", name, n.x, n.y, n.z, d, tn, s0, s1));
    }
}

fn check_split(r: &mut Report, name: &str, m: &Mesh, n: &Vector3, d: f64) {
    let am = area(m.vertices(), m.faces());
    check_split_t(r, name, m, n, d, EPS * (1.0 + d.abs()), EPS * (1.0 + am));
}
/// `tol`: absolute tolerance of a distance from the plane, `atol`: absolute tolerance of an area
fn check_split_t(r: &mut Report, name: &str, m: &Mesh, n: &Vector3, d: f64, tol: f64, atol: f64) {
    let v = m.vertices().to_vec();
    let f = m.faces().to_vec();
    let desc = || format!("{} plane normal ({:?}, {:?}, {:?}) d {:?}", name, n.x, n.y, n.z, d);
    let sd: Vec<f64> = v.iter().map(|p| n.dot(&p.coords) - d).collect();
    let (any_neg, any_pos) = (sd.iter().any(|s| *s < 0.0), sd.iter().any(|s| *s > 0.0));
    r.case();
    match m.split(&plane(n, d)) {
        SplitResult::Positive => r.check(!any_neg, "split: reports Positive only when the mesh is wholly on the positive side of the plane", desc),
        SplitResult::Negative => r.check(!any_pos, "split: reports Negative only when the mesh is wholly on the negative side of the plane", desc),
        SplitResult::Pair(a, b) => {
            r.check(any_neg && any_pos, "split: yields two meshes only when the plane crosses the mesh", desc);
            r.check(a.vertices().iter().all(|p| n.dot(&p.coords) - d <= tol), "split: the first mesh lies on the negative side of the plane", desc);
            r.check(b.vertices().iter().all(|p| n.dot(&p.coords) - d >= -tol), "split: the second mesh lies on the positive side of the plane", desc);
            let (aa, ab, am) = (area(a.vertices(), a.faces()), area(b.vertices(), b.faces()), area(&v, &f));
            r.check((aa + ab - am).abs() <= atol && aa > 0.0 && ab > 0.0, "split: the areas of the two meshes sum to the original area", desc);
            // the negative part's area, independently: each face contributes its part below the plane
            let mut neg_area = 0.0;
            for t in f.iter() {
                let idx = [t[0] as usize, t[1] as usize, t[2] as usize];
                let mut poly: Vec<Point3> = vec![];
                for e in 0..3 {
                    let (i, j) = (idx[e], idx[(e + 1) % 3]);
                    if sd[i] < 0.0 { poly.push(v[i]); }
                    if (sd[i] < 0.0) != (sd[j] < 0.0) { poly.push(v[i] + (v[j] - v[i]) * (sd[i] / (sd[i] - sd[j]))); }
                }
                for k in 1..poly.len().max(2) - 1 { neg_area += (poly[k] - poly[0]).cross(&(poly[k + 1] - poly[0])).norm() * 0.5; }
            }
            r.check((aa - neg_area).abs() <= atol, "split: the negative part has the area of the mesh below the plane", desc);
        }
    }
}

fn base_meshes() -> Vec<(&'static str, Mesh, bool)> {
    let p = |x: f64, y: f64, z: f64| Point3::new(x, y, z);
    let prism = Mesh::new(
        vec![p(0.0, 0.0, 0.0), p(4.0, 0.0, 0.0), p(0.0, 3.0, 0.0), p(0.0, 0.0, 2.0), p(4.0, 0.0, 2.0), p(0.0, 3.0, 2.0)],
        vec![[0, 2, 1], [3, 4, 5], [0, 1, 4], [0, 4, 3], [1, 2, 5], [1, 5, 4], [2, 0, 3], [2, 3, 5]], true);
    let tet = Mesh::new(vec![p(0.0, 0.0, 0.0), p(4.0, 0.0, 0.0), p(0.0, 4.0, 0.0), p(0.0, 0.0, 4.0)], vec![[0, 2, 1], [0, 1, 3], [0, 3, 2], [1, 2, 3]], true);
    // non-convex watertight: L-shaped outline (0,0),(4,0),(4,1),(1,1),(1,3),(0,3) extruded by 2 (sections with two loops)
    let ol = [(0.0, 0.0), (4.0, 0.0), (4.0, 1.0), (1.0, 1.0), (1.0, 3.0), (0.0, 3.0)];
    let mut lv: Vec<Point3> = ol.iter().map(|(x, y)| p(*x, *y, 0.0)).collect();
    lv.extend(ol.iter().map(|(x, y)| p(*x, *y, 2.0)));
    let mut lf: Vec<[u32; 3]> = vec![[0, 3, 1], [1, 3, 2], [0, 5, 3], [3, 5, 4], [6, 7, 9], [7, 8, 9], [6, 9, 11], [9, 10, 11]];
    for i in 0..6u32 { let j = (i + 1) % 6; lf.push([i, j, j + 6]); lf.push([i, j + 6, i + 6]); }
    let lprism = Mesh::new(lv, lf, true);
    vec![("box 2x3x4", Mesh::create_box(2.0, 3.0, 4.0, true), true), ("prism (0,0),(4,0),(0,3) x 2", prism, true), ("tetrahedron legs 4", tet, true),
         ("L-shaped prism (0,0),(4,0),(4,1),(1,1),(1,3),(0,3) x 2 (non-convex)", lprism, false)]
}

/// the same watertight solids built through the other public constructors (is_solid = true): new_with_options without
/// and with the merge / delete options, new_with_uv, and an appended pair
fn constructor_variants() -> Vec<(String, Mesh, bool)> {
    let mut out: Vec<(String, Mesh, bool)> = vec![];
    for (name, m, convex) in base_meshes() {
        let (v, f) = (m.vertices().to_vec(), m.faces().to_vec());
        for (merge, del) in [(false, false), (true, false), (false, true), (true, true)] {
            if let Ok(x) = Mesh::new_with_options(v.clone(), f.clone(), true, merge, del, None) {
                out.push((format!("{} built with Mesh::new_with_options(is_solid = true, merge_duplicates = {}, delete_degenerate = {})", name, merge, del), x, convex));
            }
        }
        out.push((format!("{} built with Mesh::new_with_uv(is_solid = true, None)", name), Mesh::new_with_uv(v.clone(), f.clone(), true, None), convex));
    }
    out.push(("Mesh::create_box(1, 1, 1, true)".to_string(), Mesh::create_box(1.0, 1.0, 1.0, true), true));
    out.push(("Mesh::create_box(0.5, 4, 1.25, true)".to_string(), Mesh::create_box(0.5, 4.0, 1.25, true), true));
    out
}

/// k disjoint boxes in ONE mesh (box i: create_box(1 + i/8, 2, 3 - i/4) moved by (2.5 i, 0.75 (i mod 3), 0.5 (i mod 2))),
/// built either by appending solid boxes or with new_with_options(is_solid = true); the vertex ranges of the solids
fn box_row(k: usize, via_options: bool) -> (Mesh, Vec<(usize, usize)>) {
    let mut v: Vec<Point3> = vec![];
    let mut f: Vec<[u32; 3]> = vec![];
    let mut ranges = vec![];
    let mut appended: Option<Mesh> = None;
    for i in 0..k {
        let mut b = Mesh::create_box(1.0 + i as f64 / 8.0, 2.0, 3.0 - i as f64 / 4.0, true);
        b.transform(&Iso3::translation(2.5 * i as f64, 0.75 * (i % 3) as f64, 0.5 * (i % 2) as f64));
        let base = v.len() as u32;
        ranges.push((v.len(), v.len() + b.vertices().len()));
        v.extend(b.vertices().iter().cloned());
        f.extend(b.faces().iter().map(|t| [t[0] + base, t[1] + base, t[2] + base]));
        match appended.as_mut() { None => appended = Some(b), Some(a) => { let _ = a.append(&b); } }
    }
    let m = if via_options { Mesh::new_with_options(v, f, true, false, false, None).expect("new_with_options") } else { appended.unwrap() };
    (m, ranges)
}

const BOUND: &str = "watertight meshes: box 2x3x4, triangular prism, tetrahedron (convex) and an L-shaped prism (non-convex, sections with two loops), in 5 poses (identity, translation, quarter turn about z + translation, third turn about (1,1,1), quarter turn about x + (600,0,800) = far from the origin); planes: 17 normals (axis-aligned, all sign patterns of (1,1,1), (1,2,2)/3, (2,-3,6)/7, mixed-sign oblique ones) x offsets missing the mesh by 0.5, odd sixteenths of the extent, 0.25 and 2^-12 inside either end (single corners cut off, segments shorter than 1e-3); planes with a mesh vertex closer than 1e-5 skipped; section additionally compared after 9 further rigid motions (cube group + integer translations, a general one, four tiny ones); split additionally on an open two-triangle strip; the plane of every moved configuration is produced by Plane3::transform_by (9 motions incl. a general one: rotation by 0.7 rad about (1,2,2) then +(0.5,-1.25,2), and four with TINY non-zero rotations: 1e-6 rad about (1,2,2) then +(0.5,-1.25,2), 1e-7 rad about z, 1e-8 rad about (0,1,1) then +(1e-8,0,0), -1e-5 rad about (1,-1,0) then +(1000,-500,250); Mesh::transform is compared vertex by vertex with T * vertex for every mesh x motion) and split is compared across them as well; the same solids built with Mesh::new_with_options(is_solid = true, 4 option pairs) / new_with_uv / create_box(.., true) in 2 poses x 9 normals x 6 offsets; 2, 5, 6 and 10 disjoint boxes in one mesh (appended, or new_with_options is_solid = true) in 2 poses x 7 normals x 9 offsets: as many closed loops as boxes crossed; tolerance 1e-9 relative. WAVE 5 (absolute tolerance 1e-9 x mesh size + 4e-12 x largest coordinate; oracle: brute-force crossing segments joined on shared cut edges, closed-form perimeters): the four solids scaled by 2^-10 and 2^10 and moved 2e4 / 1e6 from the origin x 17 normals x 14 offsets (just outside either end, sixteenths, thin cuts scaled and absolute 2^-12, 2^-16 = just above the 1e-5 margin), every plane also written (-n, -d); capped N-gon prisms and Mesh::create_cylinder tubes (planes between the rims) with 5, 33, 65, 257, 1100, 2100 sides (up to 8396 faces, 4200 crossing segments) (thorough: 4100) with closed-form perimeters; UV spheres 8x12, 24x48, 200x330 (65672 vertices; thorough 300x500); tori 24x16, 64x40 (two congruent / nested loops); solids under 7x7, 20x20, 40x40 height fields (up to 146 contours; thorough 90x90); prisms over cell sets (U, combs with 3 and 4 teeth, square ring, two pieces), a box nested in a box; every solid under 5 other numberings, flagged non-solid, and as a triangle soup merged by new_with_options; curve tolerance None / 0 / 1e-12 / 1e-6 / 1e-4 / 5e-3 / 0.05 / 0.75 / 10 against the shortest crossing segment (below: every clause; at or above: incidence and closedness within tol) with mesh vertices 0.004 / 0.03 / 0.3 from the plane; robustness probes: planes through every vertex triple of box, cube, prism, tetrahedron, L-prism in both orientations and offsets bit-equal to / one ulp off the extreme vertex distances (planes on which parry 0.18 does not return are recognised by a re-enactment of its walk and not run; one of them runs in a child process under its own clause); sequences: same section twice, section after split, halves split again by the same and by a second plane";

/// The enumerated families run in a CHILD process (this binary again with C13_CHILD = main, `ulimit -v` 6 GB, deadline
/// 900 s): a change that makes parry's walk meet a dead end (a wrong plane, a wrong on-plane epsilon) would otherwise
/// not return and exhaust the machine's memory; the child's abnormal end is reported as a failing clause with the last
/// block it started.  Without `sh` the families run in this process.
pub fn run() -> Option<Report> {
    match std::env::var("C13_CHILD").as_deref() {
        Ok("touching-edge") => touching_edge_child(),
        Ok("main") => {
            let mut r = Report::new("");
            run_all(&mut r);
            println!("C13-CHILD-COUNTS {} {}", r.cases, r.checks);
            flush_failures(&r);
            println!("C13-CHILD-DONE");
            std::process::exit(0);
        }
        _ => {}
    }
    let mut r = Report::new(BOUND);
    if !run_all_in_child(&mut r) { run_all(&mut r); }
    touching_edge_watchdog(&mut r);
    open_mesh_watchdog(&mut r);
    Some(r)
}

/// progress marker of the child process (line-buffered: survives an abort)
/// (also hands over the failures recorded so far, so that they are not lost with the child)
fn mark(r: &Report, what: &str) {
    if std::env::var("C13_CHILD").is_ok() { flush_failures(r); println!("C13-CHILD-AT {}", what); }
}
static PRINTED: std::sync::atomic::AtomicUsize = std::sync::atomic::AtomicUsize::new(0);
fn flush_failures(r: &Report) {
    let from = PRINTED.swap(r.failures.len(), std::sync::atomic::Ordering::SeqCst);
    for f in r.failures.iter().skip(from) { println!("C13-CHILD-FAIL {}", f.replace('\n', " ")); }
}

fn run_all_in_child(r: &mut Report) -> bool {
    use std::io::{BufRead, BufReader};
    use std::process::{Command, Stdio};
    let exe = match std::env::current_exe() { Ok(e) => e, Err(_) => return false };
    let spawned = Command::new("sh").arg("-c").arg("ulimit -v 6000000; exec \"$0\" bounded C13").arg(&exe).env("C13_CHILD", "main").stdin(Stdio::null()).stdout(Stdio::piped()).stderr(Stdio::null()).spawn();
    let mut child = match spawned { Ok(c) => c, Err(_) => return false };
    let stdout = match child.stdout.take() { Some(o) => o, None => { let _ = child.kill(); let _ = child.wait(); return false; } };
    let reader = std::thread::spawn(move || BufReader::new(stdout).lines().filter_map(|l| l.ok()).collect::<Vec<String>>());
    let t0 = std::time::Instant::now();
    let mut status: Option<String> = None;
    while t0.elapsed().as_secs() < 900 {
        match child.try_wait() { Ok(Some(s)) => { status = Some(format!("{}", s)); break; } Ok(None) => std::thread::sleep(std::time::Duration::from_millis(20)), Err(_) => break }
    }
    if status.is_none() { let _ = child.kill(); let _ = child.wait(); }
    let lines = reader.join().unwrap_or_default();
    let mut done = false;
    let mut last = String::from("(none)");
    for l in lines.iter() {
        if let Some(x) = l.strip_prefix("C13-CHILD-AT ") { last = x.to_string(); }
        else if let Some(x) = l.strip_prefix("C13-CHILD-COUNTS ") { let mut it = x.split(' '); r.cases += it.next().and_then(|s| s.parse().ok()).unwrap_or(0); r.checks += it.next().and_then(|s| s.parse().ok()).unwrap_or(0); }
        else if let Some(x) = l.strip_prefix("C13-CHILD-FAIL ") { let (what, input) = x.split_once(" | input: ").unwrap_or((x, "")); r.check(false, what, || input.to_string()); }
        else if l == "C13-CHILD-DONE" { done = true; }
    }
    r.case();
    r.check(done, "section and split return on every enumerated input (the families run in a child process under 6 GB of address space and a 900 s deadline)",
        || format!("the child ended with {} before finishing; last block started: {}", status.clone().unwrap_or_else(|| "a kill at the deadline".to_string()), last));
    true
}

fn run_all(r: &mut Report) {
    let q = |ax: Vector3, ang: f64| UnitQuaternion::from_axis_angle(&UnitVec3::new_normalize(ax), ang);
    let poses: Vec<(&str, Iso3)> = vec![
        ("identity", Iso3::identity()),
        ("+(1,-2,3)", Iso3::translation(1.0, -2.0, 3.0)),
        ("Rz90 then +(-4,0.5,2)", Iso3::from_parts(Translation3::new(-4.0, 0.5, 2.0), q(Vector3::z(), PI / 2.0))),
        ("R(1,1,1)120", Iso3::from_parts(Translation3::new(0.0, 0.0, 0.0), q(Vector3::new(1.0, 1.0, 1.0), 2.0 * PI / 3.0))),
        // far from the origin (radius 1e3): a tiny rotation about the origin moves the mesh by 1e-4 .. 1e-2
        ("Rx90 then +(600,0,800)", Iso3::from_parts(Translation3::new(600.0, 0.0, 800.0), q(Vector3::x(), PI / 2.0))),
    ];
    let commute: Vec<(&str, Iso3)> = vec![
        ("Rx90", Iso3::from_parts(Translation3::new(0.0, 0.0, 0.0), q(Vector3::x(), PI / 2.0))),
        ("Ry90 then +(1,-2,3)", Iso3::from_parts(Translation3::new(1.0, -2.0, 3.0), q(Vector3::y(), PI / 2.0))),
        ("Rz180 then +(0,5,0)", Iso3::from_parts(Translation3::new(0.0, 5.0, 0.0), q(Vector3::z(), PI))),
        ("R(1,1,1)240 then +(-3,0,7)", Iso3::from_parts(Translation3::new(-3.0, 0.0, 7.0), q(Vector3::new(1.0, 1.0, 1.0), 4.0 * PI / 3.0))),
        // a general motion: rotates every normal of the list and translates along every one of them
        ("R(1,2,2)0.7rad then +(0.5,-1.25,2)", Iso3::from_parts(Translation3::new(0.5, -1.25, 2.0), q(Vector3::new(1.0, 2.0, 2.0), 0.7))),
        // TINY but non-zero rotations (the quaternion's scalar part differs from 1 by less than 1e-10): a residual fine-alignment
        // correction; with and without a translation
        ("tiny: 1e-6 rad about (1,2,2) then +(0.5,-1.25,2)", Iso3::from_parts(Translation3::new(0.5, -1.25, 2.0), q(Vector3::new(1.0, 2.0, 2.0), 1.0e-6))),
        ("tiny: 1e-7 rad about z, no translation", Iso3::from_parts(Translation3::new(0.0, 0.0, 0.0), q(Vector3::z(), 1.0e-7))),
        ("tiny: 1e-8 rad about (0,1,1) then +(1e-8,0,0)", Iso3::from_parts(Translation3::new(1.0e-8, 0.0, 0.0), q(Vector3::new(0.0, 1.0, 1.0), 1.0e-8))),
        ("tiny: -1e-5 rad about (1,-1,0) then +(1000,-500,250)", Iso3::from_parts(Translation3::new(1000.0, -500.0, 250.0), q(Vector3::new(1.0, -1.0, 0.0), -1.0e-5))),
    ];
    let nv = |x: f64, y: f64, z: f64| Vector3::new(x, y, z).normalize();
    let normals = vec![
        nv(1.0, 0.0, 0.0), nv(-1.0, 0.0, 0.0), nv(0.0, 1.0, 0.0), nv(0.0, -1.0, 0.0), nv(0.0, 0.0, 1.0), nv(0.0, 0.0, -1.0),
        nv(1.0, 1.0, 1.0), nv(1.0, -1.0, 1.0), nv(-1.0, 1.0, 1.0), nv(1.0, 1.0, -1.0),
        Vector3::new(1.0, 2.0, 2.0) / 3.0, Vector3::new(2.0, -3.0, 6.0) / 7.0,
        nv(1.0, -1.0, 0.2), nv(-3.0, 1.0, -2.0), nv(0.0, 1.0, 1.0), nv(1.0, 0.0, -2.0), nv(1.0, 1.0, 0.0),
    ];
    let thin = 1.0 / 4096.0;
    let (mut two_loops, mut three_seg) = (0usize, 0usize);
    for (mname, base, convex) in base_meshes().iter() {
        for (pname, pose) in poses.iter() {
            let m = moved(base, pose);
            let name = format!("{} in pose {}", mname, pname);
            mark(r, &name);
            check_transform(r, &name, &m, &commute);
            for n in normals.iter() {
                let s: Vec<f64> = m.vertices().iter().map(|p| n.dot(&p.coords)).collect();
                let lo = s.iter().cloned().fold(f64::INFINITY, f64::min);
                let hi = s.iter().cloned().fold(f64::NEG_INFINITY, f64::max);
                let mut offs = vec![lo - 0.5, hi + 0.5, lo + 0.25, hi - 0.25, lo + thin, hi - thin];
                for k in [1.0, 3.0, 5.0, 7.0, 9.0, 11.0, 13.0, 15.0] { offs.push(lo + (hi - lo) * k / 16.0); }
                for d in offs {
                    if s.iter().any(|x| (x - d).abs() < 1e-5) { continue; }
                    let k = check_section(r, &name, &m, *convex, n, d, &commute);
                    if k == 2 { two_loops += 1; }
                    if k == 1 && (d - lo - thin).abs() < 1e-12 { three_seg += 1; }
                    check_split(r, &name, &m, n, d);
                    check_split_commutes(r, &name, &m, n, d, &commute);
                }
            }
        }
    }
    // ---- the same solids through the other constructors (is_solid = true): split area sums and sections
    let general = Iso3::from_parts(Translation3::new(-2.0, 1.5, 0.25), q(Vector3::new(2.0, -1.0, 2.0), 1.1));
    for (name, base, convex) in constructor_variants().iter() {
        for (pname, pose) in [("identity", Iso3::identity()), ("R(2,-1,2)1.1rad then +(-2,1.5,0.25)", general)] {
            let m = moved(base, &pose);
            let name = format!("{} in pose {}", name, pname);
            mark(r, &name);
            for n in normals.iter().step_by(2) {
                let s: Vec<f64> = m.vertices().iter().map(|p| n.dot(&p.coords)).collect();
                let lo = s.iter().cloned().fold(f64::INFINITY, f64::min);
                let hi = s.iter().cloned().fold(f64::NEG_INFINITY, f64::max);
                for d in [lo - 0.5, lo + 0.25, lo + (hi - lo) * 5.0 / 16.0, lo + (hi - lo) * 9.0 / 16.0, hi - thin, hi + 0.5] {
                    if s.iter().any(|x| (x - d).abs() < 1e-5) { continue; }
                    check_section(r, &name, &m, *convex, n, d, &commute[4..]);
                    check_split(r, &name, &m, n, d);
                    check_split_commutes(r, &name, &m, n, d, &commute[1..2]);
                }
            }
        }
    }
    // ---- several disjoint solids in one mesh: as many closed loops as solids crossed, every crossing segment once
    let mut many = 0usize;
    for k in [2usize, 5, 6, 10] { for via_options in [false, true] {
        let (base, ranges) = box_row(k, via_options);
        for (pname, pose) in [("identity", Iso3::identity()), ("R(2,-1,2)1.1rad then +(-2,1.5,0.25)", general)] {
            let m = moved(&base, &pose);
            let name = format!("{} disjoint boxes in one mesh ({}) in pose {}", k, if via_options { "Mesh::new_with_options, is_solid = true" } else { "solid boxes appended" }, pname);
            mark(r, &name);
            for n0 in [nv(0.0, 0.0, 1.0), nv(0.0, 1.0, 0.0), nv(0.0, -1.0, 0.2), nv(1.0, 0.0, 0.0), nv(1.0, 1.0, 1.0), nv(1.0, -3.0, 2.0), Vector3::new(1.0, 2.0, 2.0) / 3.0] {
                let n = pose.rotation * n0; // the same cuts in either pose
                let s: Vec<f64> = m.vertices().iter().map(|p| n.dot(&p.coords)).collect();
                let lo = s.iter().cloned().fold(f64::INFINITY, f64::min);
                let hi = s.iter().cloned().fold(f64::NEG_INFINITY, f64::max);
                for kf in [-1.0, 1.0, 3.0, 5.0, 8.0, 11.0, 13.0, 15.0, 17.0] {
                    let d = lo + (hi - lo) * kf / 16.0 + 1.0 / 64.0;
                    if s.iter().any(|x| (x - d).abs() < 1e-5) { continue; }
                    let crossed = ranges.iter().filter(|(a, b)| s[*a..*b].iter().any(|x| *x < d) && s[*a..*b].iter().any(|x| *x > d)).count();
                    let loops = check_section(r, &name, &m, false, &n, d, &commute[4..]);
                    r.check(loops == crossed, "section: as many closed loops as disjoint convex solids crossed by the plane", || format!("{} plane normal ({:?}, {:?}, {:?}) d {:?}: {} curves, {} solids crossed", name, n.x, n.y, n.z, d, loops, crossed));
                    if crossed >= 5 { many += 1; }
                    check_split(r, &name, &m, &n, d);
                }
            }
        }
    } }
    r.check(many >= 24, "coverage: the input space contains sections through five or more disjoint solids", || format!("{} such sections", many));
    r.check(two_loops >= 8 && three_seg >= 8, "coverage: the input space contains two-loop sections and thin corner cuts", || format!("two-loop sections {}, thin cuts {}", two_loops, three_seg));
    // split of an open mesh (section is NOT run on open meshes, see the header)
    let p = |x: f64, y: f64, z: f64| Point3::new(x, y, z);
    let strip = Mesh::new(vec![p(0.0, 0.0, 0.0), p(2.0, 0.0, 0.0), p(0.0, 2.0, 0.0), p(2.0, 2.0, 1.0)], vec![[0, 1, 2], [1, 3, 2]], false);
    for n in normals.iter() {
        for d in [-3.0, -0.75, -0.3, 0.3, 0.45, 0.75, 1.1, 1.6, 4.0] {
            if strip.vertices().iter().any(|x| (n.dot(&x.coords) - d).abs() < 1e-5) { continue; }
            check_split(r, "open two-triangle strip", &strip, n, d);
        }
    }
    wave5(r);
}

/// LAST clause (own name): Mesh::section on an OPEN mesh crossed by the plane.  parry 0.18's
/// `TriMesh::intersection_with_local_plane` walks each chain of crossing segments "until the loop closes"; on an open
/// chain the walk reaches the end vertex, finds no unvisited neighbour and never leaves the `while` loop (it pushes the
/// same segment until memory is exhausted).  The call is made on a helper thread; the watchdog waits 2 s (the call takes
/// microseconds when it returns) and the process exits right after the report is printed.
fn open_mesh_watchdog(r: &mut Report) {
    use std::sync::mpsc;
    use std::time::Duration;
    let (tx, rx) = mpsc::channel();
    std::thread::spawn(move || {
        let p = |x: f64, y: f64, z: f64| Point3::new(x, y, z);
        let square = Mesh::new(vec![p(0.0, 0.0, 0.0), p(2.0, 0.0, 0.0), p(0.0, 2.0, 0.0), p(2.0, 2.0, 0.0)], vec![[0, 1, 2], [1, 3, 2]], false);
        let out: Vec<(usize, f64)> = match square.section(&Plane3::new(Vector3::x_axis(), 0.75), None) {
            Ok(c) => c.iter().map(|x| (x.points().len(), x.length())).collect(),
            Err(_) => vec![(0, -1.0)],
        };
        let _ = tx.send(out);
    });
    let got = rx.recv_timeout(Duration::from_secs(2));
    let desc = || "flat square (0,0,0),(2,0,0),(0,2,0),(2,2,0) of two triangles [0,1,2],[1,3,2] (open mesh), plane x = 0.75".to_string();
    r.case();
    r.check(got.is_ok(), "[parry 0.18 intersection_with_local_plane, open chain] section of an open mesh crossed by the plane returns (watchdog 2 s)", desc);
    if let Ok(c) = got {
        r.check(c.len() == 1 && c[0].0 == 3 && eq(c[0].1, 2.0), "section of an open flat square: one open curve through the two crossed faces, length 2", desc);
    }
}

// =====================================================================================================================
// WAVE 5: parameter-space audit (notes/w5_audit_C13.md).  Families the fixed examples above avoid, every clause taken from
// the statement, oracle independent of the code under test:
//  * crossing segments by brute force from vertices and faces (one per face with vertices on both sides, joined where
//    they share a cut mesh edge: union-find gives the connected chains), matched to the returned vertices through a
//    sorted projection (n log n, so that sections with thousands of segments are affordable);
//  * closed-form perimeters: a plane crossing only the side of an N-gon prism / tube cuts the N side planes in the N
//    segments between the lifted outline points; convex solids: perimeter of the convex polygon through all crossing points;
//  * the statement's relations: incidence, exactly once, closed, one loop, own sides, area sum, verdict, commutation.
// Tolerances are absolute and follow the configuration: 1e-9 x (size of the mesh) + 4e-12 x (largest coordinate).
// The curve tolerance `tol` (None = 1e-6) is in BOTH relations to the shortest crossing segment: below it every clause
// is demanded; at or above it Curve3::from_points merges neighbouring crossing points (DESIGN: not claimed) and only
// incidence, "every vertex is a crossing point" and closedness within tol are demanded.

#[derive(Clone, Copy)]
struct Sc { size: f64, mag: f64 }
impl Sc {
    fn of(v: &[Point3], d: f64) -> Sc {
        let mut lo = Vector3::repeat(f64::INFINITY);
        let mut hi = Vector3::repeat(f64::NEG_INFINITY);
        for p in v.iter() { lo = lo.inf(&p.coords); hi = hi.sup(&p.coords); }
        Sc { size: (hi - lo).norm(), mag: lo.abs().max().max(hi.abs().max()).max(d.abs()) }
    }
    fn join(&self, o: &Sc) -> Sc { Sc { size: self.size.max(o.size), mag: self.mag.max(o.mag) } }
    /// absolute tolerance of a point / distance
    fn pt(&self) -> f64 { 1e-9 * self.size + 4e-12 * self.mag }
}
const W5_DIR: [f64; 3] = [0.6, 0.64, 0.48];
fn w5_proj(p: &Point3) -> f64 { W5_DIR[0] * p.x + W5_DIR[1] * p.y + W5_DIR[2] * p.z }
/// points sorted by their projection on a fixed unit direction: nearest stored point within `tol` of a probe
struct Finder { order: Vec<(f64, usize)> }
impl Finder {
    fn new(pts: &[Point3]) -> Finder {
        let mut order: Vec<(f64, usize)> = pts.iter().enumerate().map(|(i, p)| (w5_proj(p), i)).collect();
        order.sort_by(|a, b| a.0.partial_cmp(&b.0).unwrap().then(a.1.cmp(&b.1)));
        Finder { order }
    }
    fn find(&self, pts: &[Point3], x: &Point3, tol: f64) -> Option<usize> {
        let q = w5_proj(x);
        let start = self.order.partition_point(|e| e.0 < q - tol);
        let mut best: Option<(f64, usize)> = None;
        for e in self.order[start..].iter() {
            if e.0 > q + tol { break; }
            let dd = (pts[e.1] - x).norm();
            if dd <= tol && best.map(|b| dd < b.0).unwrap_or(true) { best = Some((dd, e.1)); }
        }
        best.map(|b| b.1)
    }
}

struct Or2 {
    /// one crossing point per cut mesh edge, and that edge
    pts: Vec<Point3>,
    edge: Vec<(u32, u32)>,
    /// per crossed face: (face, crossing point, crossing point)
    segs: Vec<(usize, usize, usize)>,
    /// sorted pair of crossing points -> index into segs
    segmap: HashMap<(usize, usize), Vec<usize>>,
    /// connected chains of crossing segments; `manifold`: every crossing point ends exactly two segments
    comps: usize,
    manifold: bool,
    smin: f64,
    total: f64,
    /// smallest distance of a mesh vertex from the plane
    vmin: f64,
    finder: Finder,
}
fn w5_oracle(v: &[Point3], f: &[[u32; 3]], n: &Vector3, d: f64) -> Or2 {
    let sd: Vec<f64> = v.iter().map(|p| n.dot(&p.coords) - d).collect();
    let vmin = sd.iter().fold(f64::INFINITY, |a, b| a.min(b.abs()));
    let mut ids: HashMap<(u32, u32), usize> = HashMap::new();
    let (mut pts, mut edge, mut segs): (Vec<Point3>, Vec<(u32, u32)>, Vec<(usize, usize, usize)>) = (vec![], vec![], vec![]);
    for (k, t) in f.iter().enumerate() {
        let mut cp: Vec<usize> = vec![];
        for e in 0..3 {
            let (a, b) = (t[e], t[(e + 1) % 3]);
            if (sd[a as usize] < 0.0) != (sd[b as usize] < 0.0) {
                let key = (a.min(b), a.max(b));
                let id = match ids.get(&key) {
                    Some(i) => *i,
                    None => {
                        let (p, q) = (key.0 as usize, key.1 as usize);
                        pts.push(v[p] + (v[q] - v[p]) * (sd[p] / (sd[p] - sd[q])));
                        edge.push(key);
                        ids.insert(key, pts.len() - 1);
                        pts.len() - 1
                    }
                };
                cp.push(id);
            }
        }
        if cp.len() == 2 { segs.push((k, cp[0], cp[1])); }
    }
    // union-find over the crossing points
    let mut parent: Vec<usize> = (0..pts.len()).collect();
    fn root(p: &mut Vec<usize>, mut i: usize) -> usize { while p[i] != i { p[i] = p[p[i]]; i = p[i]; } i }
    let mut deg = vec![0usize; pts.len()];
    let mut segmap: HashMap<(usize, usize), Vec<usize>> = HashMap::new();
    let (mut smin, mut total) = (f64::INFINITY, 0.0);
    for (i, (_, a, b)) in segs.iter().enumerate() {
        let (ra, rb) = (root(&mut parent, *a), root(&mut parent, *b));
        if ra != rb { parent[ra.max(rb)] = ra.min(rb); }
        deg[*a] += 1; deg[*b] += 1;
        segmap.entry((*a.min(b), *a.max(b))).or_default().push(i);
        let l = (pts[*a] - pts[*b]).norm();
        smin = smin.min(l); total += l;
    }
    let mut comps = 0;
    for i in 0..pts.len() { if root(&mut parent, i) == i { comps += 1; } }
    let manifold = deg.iter().all(|x| *x == 2);
    let finder = Finder::new(&pts);
    Or2 { pts, edge, segs, segmap, comps, manifold, smin, total, vmin, finder }
}
/// perimeter of the convex polygon through the points (all in the plane with normal n): convex hull by the monotone
/// chain in a basis of the plane (nearly collinear points may be kept or dropped: the perimeter does not depend on it, so
/// slivers of aspect 1e8 are fine, unlike an angular sort)
fn convex_perimeter(pts: &[Point3], n: &Vector3) -> f64 {
    if pts.len() < 3 { return 0.0; }
    let c = pts.iter().fold(Vector3::zeros(), |s, p| s + p.coords) / pts.len() as f64;
    let helper = if n.x.abs() <= n.y.abs() && n.x.abs() <= n.z.abs() { Vector3::x() } else if n.y.abs() <= n.z.abs() { Vector3::y() } else { Vector3::z() };
    let u = n.cross(&helper).normalize();
    let w = n.cross(&u);
    let mut q: Vec<(f64, f64)> = pts.iter().map(|p| { let r = p.coords - c; (r.dot(&u), r.dot(&w)) }).collect();
    q.sort_by(|a, b| a.0.partial_cmp(&b.0).unwrap().then(a.1.partial_cmp(&b.1).unwrap()));
    let cross = |o: (f64, f64), a: (f64, f64), b: (f64, f64)| (a.0 - o.0) * (b.1 - o.1) - (a.1 - o.1) * (b.0 - o.0);
    let mut hull: Vec<(f64, f64)> = vec![];
    for pass in 0..2 {
        let start = hull.len();
        let it: Vec<(f64, f64)> = if pass == 0 { q.clone() } else { q.iter().rev().cloned().collect() };
        for p in it {
            while hull.len() >= start + 2 && cross(hull[hull.len() - 2], hull[hull.len() - 1], p) <= 0.0 { hull.pop(); }
            hull.push(p);
        }
        hull.pop();
    }
    (0..hull.len()).map(|i| { let (a, b) = (hull[i], hull[(i + 1) % hull.len()]); ((a.0 - b.0).powi(2) + (a.1 - b.1).powi(2)).sqrt() }).sum()
}

/// the loops `b` are the loops `a` moved by `t` (any order of the loops, any starting vertex, either direction): every
/// vertex of a loop of `a` lands on a vertex of ONE loop of `b` with the same vertex count and length, and every loop of
/// `b` is the partner of exactly one loop of `a`
fn same_loops(a: &[Curve3], b: &[Curve3], t: &Iso3, tol: f64) -> bool {
    if a.len() != b.len() { return false; }
    let mut all: Vec<Point3> = vec![];
    let mut owner: Vec<usize> = vec![];
    for (j, c) in b.iter().enumerate() { for p in c.points().iter() { all.push(*p); owner.push(j); } }
    let fd = Finder::new(&all);
    let mut taken = vec![false; b.len()];
    for c in a.iter() {
        let mut partner: Option<usize> = None;
        for x in c.points().iter() {
            match fd.find(&all, &(t * x), tol) {
                None => return false,
                Some(i) => { if partner.is_some() && partner != Some(owner[i]) { return false; } partner = Some(owner[i]); }
            }
        }
        let j = match partner { Some(j) => j, None => return false };
        if taken[j] || b[j].points().len() != c.points().len() || (b[j].length() - c.length()).abs() > tol * (1.0 + c.points().len() as f64) { return false; }
        // and back: every vertex of the partner is the image of a vertex of this loop
        let img: Vec<Point3> = c.points().iter().map(|x| t * x).collect();
        let fi = Finder::new(&img);
        if b[j].points().iter().any(|y| fi.find(&img, y, tol).is_none()) { return false; }
        taken[j] = true;
    }
    true
}

struct Want<'a> {
    /// a convex solid: one loop
    convex: bool,
    /// closed-form perimeter of the cross-section, when the caller has one
    perimeter: Option<f64>,
    commute: &'a [(&'a str, Iso3)],
    /// also section with the same plane written with the opposite normal (-n, -d)
    flip: bool,
}
struct Info { loops: usize, nseg: usize, full: bool, near: bool, skipped: bool }

fn check_section2(r: &mut Report, name: &str, m: &Mesh, n: &Vector3, d: f64, tol: Option<f64>, w: &Want) -> Info {
    let v = m.vertices().to_vec();
    let f = m.faces().to_vec();
    let sc = Sc::of(&v, d);
    let at = sc.pt();
    let desc = || format!("{} plane normal ({:?}, {:?}, {:?}) d {:?} tol {:?}", name, n.x, n.y, n.z, d, tol);
    let o = w5_oracle(&v, &f, n, d);
    let t = tol.unwrap_or(1.0e-6);
    // relation of the curve tolerance to the shortest crossing segment (a tie within 0.1 % is not enumerated)
    let full = o.segs.is_empty() || t <= 0.999 * o.smin;
    if !full && t < 1.001 * o.smin { return Info { loops: 0, nseg: 0, full, near: false, skipped: true }; }
    r.case();
    let curves: Vec<Curve3> = match m.section(&plane(n, d), tol) { Ok(c) => c, Err(_) => { r.check(false, "section: returns Ok", desc); return Info { loops: 0, nseg: 0, full, near: false, skipped: false }; } };
    if o.segs.is_empty() {
        r.check(curves.is_empty(), "section: a plane that misses the mesh yields no curve", desc);
    } else if full {
        r.check(curves.len() == o.comps, "section: one curve per connected chain of crossing segments", desc);
        if w.convex { r.check(curves.len() == 1, "section: a convex solid crossed by the plane yields exactly one loop", desc); }
    } else {
        r.check(curves.len() <= o.comps, "section: no more curves than connected chains of crossing segments", desc);
    }
    let mut used = vec![0usize; o.segs.len()];
    let mut nseg = 0;
    let brute_every = if f.len() <= 256 { 1 } else { 64 };
    let mut count = 0usize;
    for c in curves.iter() {
        let p = c.points();
        let mut ids: Vec<Option<usize>> = Vec::with_capacity(p.len());
        for x in p.iter() {
            r.check((n.dot(&x.coords) - d).abs() <= at, "section: every vertex lies on the plane", desc);
            let id = o.finder.find(&o.pts, x, at);
            r.check(id.is_some(), "section: every vertex is the crossing point of a mesh edge with the plane", desc);
            // on the surface: on the cut mesh edge it was matched to, and (small meshes: every vertex; large ones: every 64th) on some face
            if let Some(i) = id {
                let (a, b) = o.edge[i];
                r.check((x - seg_closest(&v[a as usize], &v[b as usize], x)).norm() <= at, "section: every vertex lies on the mesh surface", desc);
            }
            if count % brute_every == 0 {
                let on = f.iter().any(|t| (x - tri_closest(&v[t[0] as usize], &v[t[1] as usize], &v[t[2] as usize], x)).norm() <= at);
                r.check(on, "section: every vertex lies on the mesh surface", desc);
            }
            count += 1;
            ids.push(id);
        }
        if full {
            for i in 0..p.len() - 1 {
                nseg += 1;
                let hit: &[usize] = match (ids[i], ids[i + 1]) { (Some(a), Some(b)) => o.segmap.get(&(a.min(b), a.max(b))).map(|x| x.as_slice()).unwrap_or(&[]), _ => &[] };
                r.check(hit.len() == 1, "section: consecutive vertices are joined across one face (they are the two crossing points of one crossed face)", desc);
                for k in hit { used[*k] += 1; }
            }
            if o.manifold {
                r.check((p[0] - p[p.len() - 1]).norm() <= at && p.len() >= 4, "section: every section curve of a watertight mesh is closed", desc);
            }
        } else if o.manifold {
            r.check((p[0] - p[p.len() - 1]).norm() <= t + at, "section: every section curve of a watertight mesh is closed (within the curve tolerance when crossing points closer than it were merged)", desc);
        }
    }
    if full {
        r.check(used.iter().all(|u| *u == 1) && nseg == o.segs.len(), "section: each plane-face crossing segment is used exactly once", desc);
        let ltol = 1e-9 * (sc.size + o.total) + 4e-12 * sc.mag * (1.0 + o.segs.len() as f64);
        let total: f64 = curves.iter().map(|c| c.length()).sum();
        r.check((total - o.total).abs() <= ltol, "section: the total length of the curves is the total length of the crossing segments", desc);
        if w.convex && curves.len() == 1 {
            let per = convex_perimeter(&o.pts, n);
            r.check((curves[0].length() - per).abs() <= ltol, "section: the loop of a convex solid has the analytic perimeter of the cross-section", desc);
        }
        if let (Some(per), 1) = (w.perimeter, curves.len()) {
            r.check((curves[0].length() - per).abs() <= ltol, "section: the loop has the closed-form perimeter of the cross-section (N-gon prism / tube: the N segments between the lifted outline points)",
                || format!("{}: length {:?}, closed form {:?}", desc(), curves[0].length(), per));
        }
    }
    if w.flip && full {
        r.case();
        let nn = -*n;
        match m.section(&plane(&nn, -d), tol) {
            Ok(c2) => r.check(same_loops(&curves, &c2, &Iso3::identity(), at), "section: the same plane written with the opposite normal (-n, -d) yields the same loops", desc),
            Err(_) => r.check(false, "section: returns Ok", desc),
        }
    }
    if full {
        for (tn, tf) in w.commute.iter() {
            let dc = || format!("{} moved by {}", desc(), tn);
            r.case();
            let (n2, d2) = moved_plane(n, d, tf);
            let tp = plane(n, d).transform_by(tf);
            let mm = moved(m, tf);
            let s2 = sc.join(&Sc::of(mm.vertices(), d2));
            r.check((tp.normal.into_inner() - n2).norm() <= EPS && (tp.d - d2).abs() <= s2.pt(),
                "Plane3::transform_by yields the image of the plane under the rigid motion (normal rotated, offset = d + rotated normal . translation)",
                || format!("{}: transform_by gives normal ({:?}, {:?}, {:?}) d {:?}, the image plane has normal ({:?}, {:?}, {:?}) d {:?}", dc(), tp.normal.x, tp.normal.y, tp.normal.z, tp.d, n2.x, n2.y, n2.z, d2));
            match mm.section(&tp, tol) {
                Ok(c2) => r.check(same_loops(&curves, &c2, tf, s2.pt()), "section: commutes with rigid motion of mesh and plane together (same loops, vertex for vertex)", dc),
                Err(_) => r.check(false, "section: returns Ok", dc),
            }
        }
    }
    Info { loops: curves.len(), nseg, full, near: o.vmin < t, skipped: false }
}

/// split with tolerances that follow the configuration; `flip`: the same plane with the opposite normal swaps the halves
fn check_split2(r: &mut Report, name: &str, m: &Mesh, n: &Vector3, d: f64, flip: bool, commute: &[(&str, Iso3)]) {
    let sc = Sc::of(m.vertices(), d);
    let am = area(m.vertices(), m.faces());
    let atol = 1e-9 * am + sc.pt() * sc.size;
    check_split_t(r, name, m, n, d, sc.pt(), atol);
    let s0 = split_summary(m, &plane(n, d));
    if flip {
        let nn = -*n;
        let s1 = split_summary(m, &plane(&nn, -d));
        r.check(s0.0 == -s1.0 && (s0.1 - s1.2).abs() <= atol && (s0.2 - s1.1).abs() <= atol, "split: the same plane written with the opposite normal (-n, -d) swaps the two sides (verdict and areas)",
            || format!("{} plane normal ({:?}, {:?}, {:?}) d {:?}: (verdict, negative area, positive area) {:?}, with the opposite normal {:?}", name, n.x, n.y, n.z, d, s0, s1));
    }
    for (tn, t) in commute.iter() {
        let s1 = split_summary(&moved(m, t), &plane(n, d).transform_by(t));
        let a2 = atol + 4e-12 * t.translation.vector.norm() * sc.size;
        r.check(s0.0 == s1.0 && (s0.1 - s1.1).abs() <= a2 && (s0.2 - s1.2).abs() <= a2, "split: commutes with rigid motion of mesh and plane together (same verdict, same areas on either side)",
            || format!("{} plane normal ({:?}, {:?}, {:?}) d {:?} moved by {}: (verdict, negative area, positive area) {:?} before, {:?} after", name, n.x, n.y, n.z, d, tn, s0, s1));
    }
}

// ---------------------------------------------------------------------------------------------------- mesh builders
fn p3(x: f64, y: f64, z: f64) -> Point3 { Point3::new(x, y, z) }
/// watertight convex N-gon prism ("cylinder" with caps): ring k at angle 2 pi k / N, bottom ring ids 0..N, top ring N..2N,
/// caps fanned from ring vertex 0; 4N - 4 faces
fn ngon_prism(nsides: usize, radius: f64, height: f64) -> Mesh {
    let n = nsides as u32;
    let mut v = vec![];
    for z in [0.0, height] { for k in 0..nsides { let a = k as f64 * 2.0 * PI / nsides as f64; v.push(p3(radius * a.cos(), radius * a.sin(), z)); } }
    let mut f: Vec<[u32; 3]> = vec![];
    for k in 0..n { let j = (k + 1) % n; f.push([k, j, j + n]); f.push([k, j + n, k + n]); }
    for k in 1..n - 1 { f.push([0, k + 1, k]); f.push([n, n + k, n + k + 1]); }
    Mesh::new(v, f, true)
}
/// closed-form perimeter of the section of an N-gon prism / tube (axis z in the local frame `pose`, outline = the solid's
/// own bottom rim, in angular order about the axis) by the plane (n, d) when the plane crosses the side only: every
/// lifted outline point strictly between the rims.  The N side planes are cut in the N segments between the lifted points.
fn ngon_section_perimeter(local: &[Point3], height: f64, pose: &Iso3, n: &Vector3, d: f64) -> Option<f64> {
    let nl = pose.rotation.inverse() * n;
    let dl = d - n.dot(&pose.translation.vector);
    if nl.z.abs() < 1e-3 { return None; }
    let mut rim: Vec<(f64, f64, f64)> = local.iter().filter(|p| p.z < 0.5 * height).map(|p| (p.y.atan2(p.x), p.x, p.y)).collect();
    rim.sort_by(|a, b| a.0.partial_cmp(&b.0).unwrap());
    let mut lifted: Vec<Point3> = vec![];
    for (_, x, y) in rim.iter() {
        let z = (dl - nl.x * x - nl.y * y) / nl.z;
        if z <= 1e-4 * height || z >= height * (1.0 - 1e-4) { return None; }
        lifted.push(p3(*x, *y, z));
    }
    let k = lifted.len();
    Some((0..k).map(|i| (lifted[(i + 1) % k] - lifted[i]).norm()).sum())
}
/// UV sphere: poles + (nlat - 1) rings of nlon vertices; convex (vertices on the sphere, planar trapezoids)
fn uv_sphere(nlat: usize, nlon: usize, radius: f64) -> Mesh {
    let mut v = vec![p3(0.0, 0.0, radius)];
    for i in 1..nlat { let th = PI * i as f64 / nlat as f64; for j in 0..nlon { let ph = 2.0 * PI * j as f64 / nlon as f64; v.push(p3(radius * th.sin() * ph.cos(), radius * th.sin() * ph.sin(), radius * th.cos())); } }
    v.push(p3(0.0, 0.0, -radius));
    let south = (v.len() - 1) as u32;
    let ring = |i: usize, j: usize| (1 + (i - 1) * nlon + j % nlon) as u32;
    let mut f: Vec<[u32; 3]> = vec![];
    for j in 0..nlon { f.push([0, ring(1, j), ring(1, j + 1)]); }
    for i in 1..nlat - 1 { for j in 0..nlon { f.push([ring(i, j), ring(i + 1, j), ring(i + 1, j + 1)]); f.push([ring(i, j), ring(i + 1, j + 1), ring(i, j + 1)]); } }
    for j in 0..nlon { f.push([south, ring(nlat - 1, j + 1), ring(nlat - 1, j)]); }
    Mesh::new(v, f, true)
}
/// torus about the z axis (major radius rr, tube radius r), nu x nv quads (non-convex, watertight)
fn torus(nu: usize, nv: usize, rr: f64, r: f64) -> Mesh {
    let mut v = vec![];
    for i in 0..nu { let a = 2.0 * PI * i as f64 / nu as f64; for j in 0..nv { let b = 2.0 * PI * j as f64 / nv as f64; v.push(p3((rr + r * b.cos()) * a.cos(), (rr + r * b.cos()) * a.sin(), r * b.sin())); } }
    let id = |i: usize, j: usize| ((i % nu) * nv + j % nv) as u32;
    let mut f: Vec<[u32; 3]> = vec![];
    for i in 0..nu { for j in 0..nv { f.push([id(i, j), id(i + 1, j), id(i + 1, j + 1)]); f.push([id(i, j), id(i + 1, j + 1), id(i, j + 1)]); } }
    Mesh::new(v, f, true)
}
/// watertight solid under a bumpy height field on a g x g grid of unit cells: heights 1 + (multiples of 1/16 from a fixed
/// linear congruential sequence), vertical skirt down to z = 0 and a flat bottom; a plane z = const cuts many contours
fn height_solid(g: usize) -> Mesh {
    let mut state: u64 = 0x9E3779B97F4A7C15;
    let mut v = vec![];
    for i in 0..g { for j in 0..g {
        state = state.wrapping_mul(6364136223846793005).wrapping_add(1442695040888963407);
        let bump = ((state >> 33) % 32) as f64 / 16.0;
        v.push(p3(i as f64, j as f64, 1.0 + bump));
    } }
    for i in 0..g { for j in 0..g { v.push(p3(i as f64, j as f64, 0.0)); } }
    let top = |i: usize, j: usize| (i * g + j) as u32;
    let bot = |i: usize, j: usize| (g * g + i * g + j) as u32;
    let mut f: Vec<[u32; 3]> = vec![];
    for i in 0..g - 1 { for j in 0..g - 1 {
        f.push([top(i, j), top(i + 1, j), top(i + 1, j + 1)]); f.push([top(i, j), top(i + 1, j + 1), top(i, j + 1)]);
        f.push([bot(i, j), bot(i + 1, j + 1), bot(i + 1, j)]); f.push([bot(i, j), bot(i, j + 1), bot(i + 1, j + 1)]);
    } }
    // skirt: the four border lines, each a strip between the top and the bottom border
    let mut border: Vec<(usize, usize)> = vec![];
    for i in 0..g - 1 { border.push((i, 0)); }
    for j in 0..g - 1 { border.push((g - 1, j)); }
    for i in (1..g).rev() { border.push((i, g - 1)); }
    for j in (1..g).rev() { border.push((0, j)); }
    for k in 0..border.len() {
        let (a, b) = (border[k], border[(k + 1) % border.len()]);
        f.push([bot(a.0, a.1), bot(b.0, b.1), top(b.0, b.1)]); f.push([bot(a.0, a.1), top(b.0, b.1), top(a.0, a.1)]);
    }
    Mesh::new(v, f, true)
}
/// prism over a set of unit cells of the integer grid (cells given by their lower-left corner), extruded from z = 0 to
/// z = h: caps of two triangles per cell on shared grid vertices, walls on the cell edges used by one cell only.
/// Watertight when no two cells touch at a corner only.
fn cells_prism(cells: &[(i32, i32)], h: f64) -> Mesh {
    let mut vid: Vec<(i32, i32)> = vec![];
    let mut idof = |x: i32, y: i32, vid: &mut Vec<(i32, i32)>| -> u32 { match vid.iter().position(|q| *q == (x, y)) { Some(i) => i as u32, None => { vid.push((x, y)); (vid.len() - 1) as u32 } } };
    let mut caps: Vec<[u32; 3]> = vec![];
    let mut walls: Vec<(u32, u32)> = vec![];
    for (x, y) in cells.iter() {
        let (a, b, c, d) = (idof(*x, *y, &mut vid), idof(*x + 1, *y, &mut vid), idof(*x + 1, *y + 1, &mut vid), idof(*x, *y + 1, &mut vid));
        caps.push([a, b, c]); caps.push([a, c, d]);
        for (u, w, nb) in [(a, b, (*x, *y - 1)), (b, c, (*x + 1, *y)), (c, d, (*x, *y + 1)), (d, a, (*x - 1, *y))] { if !cells.contains(&nb) { walls.push((u, w)); } }
    }
    let nv = vid.len() as u32;
    let mut v: Vec<Point3> = vid.iter().map(|(x, y)| p3(*x as f64, *y as f64, 0.0)).collect();
    v.extend(vid.iter().map(|(x, y)| p3(*x as f64, *y as f64, h)));
    let mut f: Vec<[u32; 3]> = vec![];
    for t in caps.iter() { f.push([t[0], t[2], t[1]]); f.push([t[0] + nv, t[1] + nv, t[2] + nv]); }
    for (u, w) in walls.iter() { f.push([*u, *w, *w + nv]); f.push([*u, *w + nv, *u + nv]); }
    Mesh::new(v, f, true)
}
fn with_vertices(m: &Mesh, g: impl Fn(&Point3) -> Point3) -> Mesh { Mesh::new(m.vertices().iter().map(|p| g(p)).collect(), m.faces().to_vec(), m.is_solid()) }
/// the same surface with another, equally legal numbering
fn relabelled(m: &Mesh, kind: usize) -> (&'static str, Mesh) {
    let (v, f) = (m.vertices().to_vec(), m.faces().to_vec());
    let nv = v.len() as u32;
    match kind {
        0 => ("vertex ids reversed", Mesh::new(v.iter().rev().cloned().collect(), f.iter().map(|t| [nv - 1 - t[0], nv - 1 - t[1], nv - 1 - t[2]]).collect(), true)),
        1 => ("faces listed in reverse order", Mesh::new(v, f.iter().rev().cloned().collect(), true)),
        2 => ("faces listed odd ones first, each face starting at its second vertex", Mesh::new(v, f.iter().skip(1).step_by(2).chain(f.iter().step_by(2)).map(|t| [t[1], t[2], t[0]]).collect(), true)),
        3 => ("every face with the opposite orientation", Mesh::new(v, f.iter().map(|t| [t[0], t[2], t[1]]).collect(), true)),
        _ => {
            // vertices permuted by i -> 5 i + 3 mod nv when 5 does not divide nv, else i -> 3 i + 1 (nv not a multiple of 3 and 5 at once here)
            let mul = if nv % 5 != 0 { 5 } else if nv % 3 != 0 { 3 } else { 7 };
            let perm = |i: u32| (mul * i + 3) % nv;
            let mut nvx = v.clone();
            for i in 0..nv { nvx[perm(i) as usize] = v[i as usize]; }
            ("vertices permuted (i -> k i + 3 mod count), faces rotated by a third of the list", {
                let k = f.len() / 3;
                Mesh::new(nvx, f.iter().skip(k).chain(f.iter().take(k)).map(|t| [perm(t[2]), perm(t[0]), perm(t[1])]).collect(), true)
            })
        }
    }
}

fn extent(m: &Mesh, n: &Vector3) -> (Vec<f64>, f64, f64) {
    let s: Vec<f64> = m.vertices().iter().map(|p| n.dot(&p.coords)).collect();
    let lo = s.iter().cloned().fold(f64::INFINITY, f64::min);
    let hi = s.iter().cloned().fold(f64::NEG_INFINITY, f64::max);
    (s, lo, hi)
}
const MARGIN: f64 = 1e-5;
fn too_close(s: &[f64], d: f64) -> bool { s.iter().any(|x| (x - d).abs() < MARGIN) }


/// ROBUSTNESS probes (the statement: planes through vertices / edges are "separately probed for robustness"): the plane
/// passes exactly through mesh vertices (through every triple of vertices of the solid: face planes, diagonal planes,
/// corner planes), or its offset is bit-equal to / one ulp either side of the smallest or largest vertex distance.
/// Demanded: section and split return (no panic, no error); when the plane is exactly through vertices, the returned
/// vertices are still on the plane and on the surface, the halves on their own sides, a one-side verdict correct for the
/// closed half-space.  NOT demanded here: closedness, exactly-once, area sums (a face in the plane belongs to both halves).
fn probe_through(r: &mut Report, name: &str, m: &Mesh, n: &Vector3, d: f64, exact: bool) -> usize {
    let v = m.vertices().to_vec();
    let f = m.faces().to_vec();
    let sc = Sc::of(&v, d);
    let at = sc.pt();
    let desc = || format!("{} plane normal ({:?}, {:?}, {:?}) d {:?}", name, n.x, n.y, n.z, d);
    if !parry_walk_returns(&v, &f, n, d) { return usize::MAX; }
    r.case();
    let curves = match m.section(&plane(n, d), None) { Ok(c) => c, Err(_) => { r.check(false, "section through mesh vertices / edges (robustness probe): returns Ok", desc); return 0; } };
    r.check(true, "section through mesh vertices / edges (robustness probe): returns Ok", desc);
    if exact {
        for c in curves.iter() { for x in c.points().iter() {
            r.check((n.dot(&x.coords) - d).abs() <= at, "section: every vertex lies on the plane", desc);
            let on = f.iter().any(|t| (x - tri_closest(&v[t[0] as usize], &v[t[1] as usize], &v[t[2] as usize], x)).norm() <= at);
            r.check(on, "section: every vertex lies on the mesh surface", desc);
        } }
        let sd: Vec<f64> = v.iter().map(|p| n.dot(&p.coords) - d).collect();
        match m.split(&plane(n, d)) {
            SplitResult::Positive => r.check(sd.iter().all(|s| *s >= -at), "split: reports Positive only when the mesh is wholly on the positive side of the plane", desc),
            SplitResult::Negative => r.check(sd.iter().all(|s| *s <= at), "split: reports Negative only when the mesh is wholly on the negative side of the plane", desc),
            SplitResult::Pair(a, b) => {
                r.check(sd.iter().any(|s| *s < -at) && sd.iter().any(|s| *s > at), "split: yields two meshes only when the plane crosses the mesh", desc);
                r.check(a.vertices().iter().all(|p| n.dot(&p.coords) - d <= at), "split: the first mesh lies on the negative side of the plane", desc);
                r.check(b.vertices().iter().all(|p| n.dot(&p.coords) - d >= -at), "split: the second mesh lies on the positive side of the plane", desc);
            }
        }
    } else {
        let _ = m.split(&plane(n, d));
    }
    curves.len()
}
/// GUARD (not an oracle): a re-enactment of the combinatorial part of parry 0.18's intersection_with_local_plane
/// (vertex colours with epsilon 1e-6, the per-face feature pairs, the adjacency lists and the walk "until the loop
/// closes") with a step budget.  `false` = the walk meets a dead end or a cycle that misses its start and parry would
/// never return (known finding '[parry 0.18 intersection_with_local_plane, open chain]'): such a probe is not run.
fn parry_walk_returns(v: &[Point3], f: &[[u32; 3]], n: &Vector3, d: f64) -> bool {
    let eps = 1.0e-6;
    let colors: Vec<u8> = v.iter().map(|p| { let s = p.coords.dot(n) - d; if s < -eps { 1 } else if s > eps { 2 } else { 0 } }).collect();
    if !colors.contains(&1) || !colors.contains(&2) { return true; }
    #[derive(Clone, Copy, PartialEq)]
    enum Ft { Unknown, Vertex(usize), Edge(usize) }
    let mut adj: Vec<Vec<usize>> = vec![];
    let mut count = 0usize;
    let mut inter: HashMap<(u32, u32), usize> = HashMap::new();
    let mut exist: HashMap<u32, usize> = HashMap::new();
    fn add(adj: &mut Vec<Vec<usize>>, a: usize, b: usize) { if a < adj.len() { adj[a].push(b); } else if a == adj.len() { adj.push(vec![b]); } }
    fn sym(adj: &mut Vec<Vec<usize>>, a: usize, b: usize) { if a < b { add(adj, a, b); add(adj, b, a); } else { add(adj, b, a); add(adj, a, b); } }
    for idx in f.iter() {
        let (mut f0, mut f1) = (Ft::Unknown, Ft::Unknown);
        for ia in 0..3usize {
            let ib = (ia + 1) % 3;
            let fid = match (colors[idx[ia] as usize], colors[idx[ib] as usize]) { (1, 2) | (2, 1) => Ft::Edge(ia), (0, _) => Ft::Vertex(ia), _ => continue };
            if f0 == Ft::Unknown { f0 = fid; } else { f1 = fid; }
        }
        let mut get_inter = |a: u32, b: u32, count: &mut usize| -> usize { *inter.entry((a.min(b), a.max(b))).or_insert_with(|| { *count += 1; *count - 1 }) };
        match (f0, f1) {
            (_, Ft::Unknown) => {}
            (Ft::Vertex(i1), Ft::Vertex(i2)) => {
                let o1 = *exist.entry(idx[i1]).or_insert_with(|| { count += 1; count - 1 });
                let o2 = *exist.entry(idx[i2]).or_insert_with(|| { count += 1; count - 1 });
                sym(&mut adj, o1, o2);
            }
            (Ft::Vertex(iv), Ft::Edge(ie)) | (Ft::Edge(ie), Ft::Vertex(iv)) => {
                let (ia, ib, ic) = (ie, (ie + 1) % 3, (ie + 2) % 3);
                if iv != ic { return false; }
                let x = get_inter(idx[ia], idx[ib], &mut count);
                let oc = *exist.entry(idx[ic]).or_insert_with(|| { count += 1; count - 1 });
                sym(&mut adj, oc, x);
            }
            (Ft::Edge(mut e1), Ft::Edge(mut e2)) => {
                if e2 != (e1 + 1) % 3 { std::mem::swap(&mut e1, &mut e2); }
                let _ = e1;
                let (ia, ib, ic) = (e2, (e2 + 1) % 3, (e2 + 2) % 3);
                let x1 = get_inter(idx[ic], idx[ia], &mut count);
                let x2 = get_inter(idx[ia], idx[ib], &mut count);
                sym(&mut adj, x1, x2);
            }
            _ => return false,
        }
    }
    let budget = 4 * adj.iter().map(|a| a.len()).sum::<usize>() + 16;
    let mut steps = 0usize;
    let mut seen = vec![false; adj.len()];
    for idx in 0..adj.len() {
        if seen[idx] { continue; }
        let first = idx;
        let mut prev = first;
        let mut next = adj[idx].first().cloned();
        'walk: while let Some(current) = next {
            steps += 1;
            if steps > budget || current >= adj.len() { return false; }
            seen[current] = true;
            for nb in adj[current].iter() {
                if *nb != prev && *nb != first { prev = current; next = Some(*nb); continue 'walk; }
                else if *nb != prev && *nb == first { next = None; continue 'walk; }
            }
        }
    }
    true
}

fn next_up(x: f64) -> f64 { if x == 0.0 { f64::from_bits(1) } else if x > 0.0 { f64::from_bits(x.to_bits() + 1) } else { f64::from_bits(x.to_bits() - 1) } }
fn next_down(x: f64) -> f64 { -next_up(-x) }

/// The one probe of the family above that the guard keeps away from the main loop, under its own clause name (same
/// dependency defect as the open-chain one: parry's walk "until the loop closes" never leaves a dead end).  The mesh is
/// WATERTIGHT: the L-prism; the plane 2x + 3z = 8 crosses it and contains the edge (1,1,2)-(1,3,2), where it only touches
/// the solid, so the crossing chain has a dangling segment.  Run in a CHILD process (this binary again, C13_CHILD set)
/// under `ulimit -v` 2 GB and a 5 s deadline, so that the runaway allocation cannot hurt the parent.
const TOUCHING: &str = "L-shaped prism (0,0),(4,0),(4,1),(1,1),(1,3),(0,3) x 2 (watertight), plane 2x + 3z = 8 (normal (2,0,3)/sqrt 13, d 8/sqrt 13): crosses the solid and contains the edge (1,1,2)-(1,3,2), which it only touches";
fn touching_edge_child() -> ! {
    let m = base_meshes().remove(3).1;
    let n = Vector3::new(2.0, 0.0, 3.0).normalize();
    let c = m.section(&plane(&n, 8.0 / 13f64.sqrt()), None);
    println!("C13-CHILD-RETURNED {}", c.map(|x| x.len() as i64).unwrap_or(-1));
    std::process::exit(0);
}
fn touching_edge_watchdog(r: &mut Report) {
    use std::process::{Command, Stdio};
    use std::io::Read;
    let why = "coverage: the child process for the plane-touching-an-edge probe can be started (current_exe, sh)";
    let exe = match std::env::current_exe() { Ok(e) => e, Err(_) => { r.check(false, why, || "current_exe failed".to_string()); return; } };
    let child = Command::new("sh").arg("-c").arg("ulimit -v 2000000; exec \"$0\" bounded C13").arg(&exe).env("C13_CHILD", "touching-edge").stdin(Stdio::null()).stdout(Stdio::piped()).stderr(Stdio::null()).spawn();
    let mut child = match child { Ok(c) => c, Err(_) => { r.check(false, why, || "sh could not be spawned".to_string()); return; } };
    let t0 = std::time::Instant::now();
    let mut done = false;
    while t0.elapsed().as_millis() < 5000 {
        match child.try_wait() { Ok(Some(_)) => { done = true; break; } Ok(None) => std::thread::sleep(std::time::Duration::from_millis(10)), Err(_) => break }
    }
    if !done { let _ = child.kill(); let _ = child.wait(); }
    let mut out = String::new();
    if let Some(mut o) = child.stdout.take() { let _ = o.read_to_string(&mut out); }
    r.case();
    r.check(out.contains("C13-CHILD-RETURNED"), "[parry 0.18 intersection_with_local_plane, open chain] section of a WATERTIGHT mesh by a plane that contains a mesh edge it only touches (dangling crossing segment) returns (child process, 2 GB / 5 s)", || TOUCHING.to_string());
}

fn wave5(r: &mut Report) {
    let dbg = std::env::var("C13_DEBUG").is_ok();
    let q = |ax: Vector3, ang: f64| UnitQuaternion::from_axis_angle(&UnitVec3::new_normalize(ax), ang);
    let nv = |x: f64, y: f64, z: f64| Vector3::new(x, y, z).normalize();
    let general = Iso3::from_parts(Translation3::new(-2.0, 1.5, 0.25), q(Vector3::new(2.0, -1.0, 2.0), 1.1));
    let commute3: Vec<(&str, Iso3)> = vec![
        ("Ry90 then +(1,-2,3)", Iso3::from_parts(Translation3::new(1.0, -2.0, 3.0), q(Vector3::y(), PI / 2.0))),
        ("R(1,2,2)0.7rad then +(0.5,-1.25,2)", Iso3::from_parts(Translation3::new(0.5, -1.25, 2.0), q(Vector3::new(1.0, 2.0, 2.0), 0.7))),
        ("tiny: -1e-5 rad about (1,-1,0) then +(1000,-500,250)", Iso3::from_parts(Translation3::new(1000.0, -500.0, 250.0), q(Vector3::new(1.0, -1.0, 0.0), -1.0e-5))),
    ];
    let normals17 = vec![
        nv(1.0, 0.0, 0.0), nv(-1.0, 0.0, 0.0), nv(0.0, 1.0, 0.0), nv(0.0, -1.0, 0.0), nv(0.0, 0.0, 1.0), nv(0.0, 0.0, -1.0),
        nv(1.0, 1.0, 1.0), nv(1.0, -1.0, 1.0), nv(-1.0, 1.0, 1.0), nv(1.0, 1.0, -1.0),
        Vector3::new(1.0, 2.0, 2.0) / 3.0, Vector3::new(2.0, -3.0, 6.0) / 7.0,
        nv(1.0, -1.0, 0.2), nv(-3.0, 1.0, -2.0), nv(0.0, 1.0, 1.0), nv(1.0, 0.0, -2.0), nv(1.0, 1.0, 0.0),
    ];
    let normals7 = vec![nv(0.0, 0.0, 1.0), nv(0.0, 0.0, -1.0), nv(1.0, 0.0, 0.0), nv(1.0, 1.0, 1.0), Vector3::new(1.0, 2.0, 2.0) / 3.0, Vector3::new(2.0, -3.0, 6.0) / 7.0, nv(1.0, -1.0, 0.2)];
    let none: Vec<(&str, Iso3)> = vec![];

    // ---- (1) MAGNITUDES a: scale and distance from the origin.  The four base solids scaled by 2^-10 (extent 2e-3 .. 5e-3) and
    // 2^10 (extent 2e3 .. 5e3), and unscaled but moved to 2e4 and 1e6 from the origin; offsets: just outside either end
    // (2^-10 of the extent, in both orientations of the normal through the (-n, -d) check), sixteenths, thin cuts scaled
    // with the mesh AND absolute ones (2^-12, and 2^-16 = just above the 1e-5 margin), each also with the opposite normal
    let (mut small_loops, mut far_cases, mut outside) = (0usize, 0usize, 0usize);
    let configs: Vec<(&str, f64, Iso3)> = vec![
        ("scaled by 2^-10", 1.0 / 1024.0, Iso3::identity()),
        ("scaled by 2^-10, R(2,-1,2)1.1rad then +(-2,1.5,0.25)", 1.0 / 1024.0, general),
        ("scaled by 2^10", 1024.0, Iso3::identity()),
        ("scaled by 2^10, R(2,-1,2)1.1rad then +(-2,1.5,0.25)", 1024.0, general),
        ("moved by +(16384,-8192,4096)", 1.0, Iso3::translation(16384.0, -8192.0, 4096.0)),
        ("R(2,-1,2)1.1rad then +(1048576,0,-524288)", 1.0, Iso3::from_parts(Translation3::new(1048576.0, 0.0, -524288.0), q(Vector3::new(2.0, -1.0, 2.0), 1.1))),
    ];
    for (mname, base, convex) in base_meshes().iter() {
        for (cname, s, pose) in configs.iter() {
            let m = moved(&with_vertices(base, |p| Point3::from(p.coords * *s)), pose);
            let name = format!("{} {}", mname, cname);
            mark(r, &name);
            for n in normals17.iter() {
                let (sv, lo, hi) = extent(&m, n);
                let ext = hi - lo;
                let mut offs = vec![lo - ext / 1024.0, hi + ext / 1024.0, lo - 0.5 * s, hi + 0.5 * s, lo + s / 4096.0, hi - s / 4096.0, lo + 1.0 / 4096.0, hi - 1.0 / 4096.0, lo + 1.0 / 65536.0, hi - 1.0 / 65536.0];
                for k in [1.0, 5.0, 9.0, 15.0] { offs.push(lo + ext * k / 16.0); }
                for d in offs {
                    if too_close(&sv, d) { continue; }
                    let w = Want { convex: *convex, perimeter: None, commute: &commute3[1..], flip: true };
                    let i = check_section2(r, &name, &m, n, d, None, &w);
                    if i.full && i.loops >= 1 && (d - lo - 1.0 / 65536.0).abs() < 1e-12 * (1.0 + d.abs()) { small_loops += 1; }
                    if *s == 1.0 && i.loops >= 1 { far_cases += 1; }
                    if d < lo || d > hi { outside += 1; }
                    check_split2(r, &name, &m, n, d, true, &commute3[1..2]);
                }
            }
        }
    }
    r.check(small_loops >= 300 && far_cases >= 1000 && outside >= 1000, "coverage: the input space contains loops cut 2^-16 inside a corner, sections 2e4 and 1e6 from the origin and planes just outside the mesh", || format!("{} loops 2^-16 inside, {} far sections, {} planes outside", small_loops, far_cases, outside));
    if dbg { eprintln!("a: small_loops {} far {} outside {}", small_loops, far_cases, outside); }

    // ---- (1) MAGNITUDES b: many faces.  Capped N-gon prisms (convex, watertight; 4N - 4 faces), engeom's own create_cylinder
    // (open tube, 2N faces; planes between the rims only), UV spheres, tori, height-field solids
    let mut big_seg = 0usize;
    let mut closed_form = 0usize;
    let mut sides: Vec<usize> = vec![5, 33, 65, 257, 1100, 2100];
    if thorough() { sides.push(4100); }
    for ns in sides.iter() {
        for tube in [false, true] {
            let (radius, height) = (1.0, 2.0);
            let base = if tube { Mesh::create_cylinder(radius, height, *ns) } else { ngon_prism(*ns, radius, height) };
            for (pname, pose) in [("identity", Iso3::identity()), ("R(2,-1,2)1.1rad then +(-2,1.5,0.25)", general)] {
                let m = moved(&base, &pose);
                let name = format!("{} with {} sides, radius 1, height 2 ({} faces) in pose {}", if tube { "Mesh::create_cylinder (open tube)" } else { "capped N-gon prism" }, ns, m.faces().len(), pname);
                mark(r, &name);
                // normals in the local frame: along the axis, tilted by atan(0.25), atan(0.5) (still between the rims for offsets near the middle), oblique, across
                let locals = [nv(0.0, 0.0, 1.0), nv(0.0, 0.0, -1.0), nv(0.25, 0.0, 1.0), nv(0.3, -0.4, 1.0), nv(-0.2, 0.1, -1.0), nv(1.0, 0.0, 0.0), nv(1.0, 2.0, 2.0), nv(2.0, -3.0, 6.0)];
                for (li, nl) in locals.iter().enumerate() {
                    if *ns > 300 && li >= 6 { continue; }
                    // the largest one (4200 crossing segments in one loop; chained_indices is quadratic): three normals, identity pose
                    if *ns > 2000 && (![0usize, 2, 4].contains(&li) || pname != "identity") { continue; }
                    let n = pose.rotation * nl;
                    let (sv, lo, hi) = extent(&m, &n);
                    for kf in [-1.0, 3.0, 7.0, 8.0, 10.0, 13.0, 17.0] {
                        if *ns > 2000 && [7.0, 10.0, 17.0].contains(&kf) { continue; }
                        let d = lo + (hi - lo) * kf / 16.0 + (hi - lo) / 1024.0;
                        if too_close(&sv, d) { continue; }
                        // the tube is open: only planes that separate the two rims (every bottom vertex below, every top vertex above, or the reverse) are sectioned
                        if tube {
                            let lv = base.vertices();
                            let side_of_bottom = (0..lv.len()).find(|i| lv[*i].z < 0.5 * height).map(|i| sv[i] < d).unwrap_or(true);
                            let separates = (0..lv.len()).all(|i| (sv[i] < d) == if lv[i].z < 0.5 * height { side_of_bottom } else { !side_of_bottom });
                            if !separates && kf > 0.0 && kf < 16.0 { continue; }
                        }
                        let per = ngon_section_perimeter(base.vertices(), height, &pose, &n, d);
                        if per.is_some() { closed_form += 1; }
                        let w = Want { convex: !tube, perimeter: per, commute: if *ns > 300 { &commute3[1..2] } else { &commute3[..] }, flip: true };
                        let i = check_section2(r, &name, &m, &n, d, None, &w);
                        if tube && i.nseg > 0 { r.check(i.loops == 1, "section: a tube cut between its rims yields one loop", || format!("{} plane normal ({:?}, {:?}, {:?}) d {:?}: {} curves", name, n.x, n.y, n.z, d, i.loops)); }
                        if i.nseg > 64 { big_seg += 1; }
                        check_split2(r, &name, &m, &n, d, true, &commute3[1..2]);
                    }
                }
            }
        }
    }
    r.check(big_seg >= 300 && closed_form >= 300, "coverage: the input space contains sections of more than 64 segments and sections with a closed-form perimeter", || format!("{} sections of more than 64 segments, {} with closed form", big_seg, closed_form));
    if dbg { eprintln!("b: big_seg {} closed_form {}", big_seg, closed_form); }

    // UV spheres (convex): 8 x 12, 24 x 48 (2208 faces), 200 x 330 (65672 vertices: vertex ids above 2^16, 131340 faces)
    let (mut sphere_runs, mut sphere_large) = (0usize, 0usize);
    let mut spheres: Vec<(usize, usize)> = vec![(8, 12), (24, 48), (200, 330)];
    if thorough() { spheres.push((300, 500)); }
    for (nlat, nlon) in spheres.iter() {
        let base = uv_sphere(*nlat, *nlon, 2.0);
        let large = base.vertices().len() > 10000;
        for (pname, pose) in [("identity", Iso3::identity()), ("R(2,-1,2)1.1rad then +(-2,1.5,0.25)", general)] {
            if large && pname != "identity" && !thorough() { continue; }
            let m = moved(&base, &pose);
            let name = format!("UV sphere {} x {} radius 2 ({} vertices, {} faces) in pose {}", nlat, nlon, m.vertices().len(), m.faces().len(), pname);
            mark(r, &name);
            for (ni, n) in normals7.iter().enumerate() {
                if large && ni % 2 == 1 { continue; }
                let (sv, lo, hi) = extent(&m, n);
                for kf in [-1.0, 0.25, 3.0, 8.0, 13.0, 17.0] {
                    if large && (kf == 3.0 || kf == -1.0) { continue; }
                    let d = lo + (hi - lo) * kf / 16.0 + (hi - lo) / 1024.0;
                    if too_close(&sv, d) { continue; }
                    let w = Want { convex: true, perimeter: None, commute: if large { &none[..] } else { &commute3[1..2] }, flip: !large };
                    let i = check_section2(r, &name, &m, n, d, None, &w);
                    if i.full && i.loops == 1 { sphere_runs += 1; if large { sphere_large += 1; } }
                    check_split2(r, &name, &m, n, d, !large, &none);
                }
            }
        }
    }
    r.check(sphere_runs >= 80 && sphere_large >= 6, "coverage: the input space contains sphere sections, six or more of them on the mesh with vertex ids above 2^16", || format!("{} sphere sections, {} on the large mesh", sphere_runs, sphere_large));
    if dbg { eprintln!("sphere {} large {}", sphere_runs, sphere_large); }

    // tori (non-convex): planes containing the axis give two congruent loops, planes across the axis two nested loops
    let (mut torus_two, mut torus_one) = (0usize, 0usize);
    for (nu, nvv) in [(24usize, 16usize), (64, 40)] {
        let base = torus(nu, nvv, 3.0, 1.0);
        for (pname, pose) in [("identity", Iso3::identity()), ("R(2,-1,2)1.1rad then +(-2,1.5,0.25)", general)] {
            let m = moved(&base, &pose);
            let name = format!("torus {} x {} radii 3 and 1 ({} faces) in pose {}", nu, nvv, m.faces().len(), pname);
            mark(r, &name);
            for nl in [nv(0.0, 0.0, 1.0), nv(1.0, 0.0, 0.0), nv(0.0, -1.0, 0.0), nv(1.0, 1.0, 0.0), nv(1.0, 0.0, 1.0), nv(1.0, 2.0, 2.0), nv(2.0, -3.0, 6.0)] {
                let n = pose.rotation * nl;
                let (sv, lo, hi) = extent(&m, &n);
                for kf in [-1.0, 1.0, 3.0, 5.0, 8.0, 11.0, 15.0, 17.0] {
                    let d = lo + (hi - lo) * kf / 16.0 + (hi - lo) / 1024.0;
                    if too_close(&sv, d) { continue; }
                    let w = Want { convex: false, perimeter: None, commute: &commute3[1..2], flip: nu < 50 };
                    let i = check_section2(r, &name, &m, &n, d, None, &w);
                    if i.full && i.loops == 2 { torus_two += 1; }
                    if i.full && i.loops == 1 { torus_one += 1; }
                    check_split2(r, &name, &m, &n, d, false, &none);
                }
            }
        }
    }
    r.check(torus_two >= 50 && torus_one >= 50, "coverage: the input space contains torus sections of one and of two loops", || format!("{} two-loop, {} one-loop", torus_two, torus_one));
    if dbg { eprintln!("torus two {} one {}", torus_two, torus_one); }

    // height-field solids: many contours in one section
    let mut many_contours = 0usize;
    let mut max_contours = 0usize;
    let mut grids: Vec<usize> = vec![7, 20, 40];
    if thorough() { grids.push(90); }
    for g in grids.iter() {
        let base = height_solid(*g);
        for (pname, pose) in [("identity", Iso3::identity()), ("R(2,-1,2)1.1rad then +(-2,1.5,0.25)", general)] {
            if *g > 30 && pname != "identity" { continue; }
            let m = moved(&base, &pose);
            let name = format!("solid under a {} x {} height field ({} faces) in pose {}", g, g, m.faces().len(), pname);
            mark(r, &name);
            for nl in [nv(0.0, 0.0, 1.0), nv(0.0, 0.0, -1.0), nv(1.0, 0.0, 0.0), nv(0.05, -0.03, 1.0), nv(1.0, 1.0, 1.0), nv(2.0, -3.0, 6.0)] {
                let n = pose.rotation * nl;
                let (sv, lo, hi) = extent(&m, &n);
                let along_z = nl.z.abs() > 0.9;
                let mut offs: Vec<f64> = vec![lo - 0.5, hi + 0.5];
                if along_z && nl.x == 0.0 { for k in [0.0, 3.0, 8.0, 14.0, 17.0, 22.0, 27.0, 30.0] { let z = 1.0 + k / 16.0 + 1.0 / 32.0; offs.push(if nl.z > 0.0 { z } else { -z } + n.dot(&pose.translation.vector)); } offs.push(lo + 0.5); }
                else { for kf in [1.0, 4.0, 7.0, 9.0, 12.0, 15.0] { offs.push(lo + (hi - lo) * kf / 16.0 + 1.0 / 1024.0); } }
                for d in offs {
                    if too_close(&sv, d) { continue; }
                    let w = Want { convex: false, perimeter: None, commute: if *g > 30 { &none[..] } else { &commute3[1..2] }, flip: *g <= 30 };
                    let i = check_section2(r, &name, &m, &n, d, None, &w);
                    if i.full && i.loops >= 5 { many_contours += 1; }
                    if i.full { max_contours = max_contours.max(i.loops); }
                    check_split2(r, &name, &m, &n, d, false, &none);
                }
            }
        }
    }
    r.check(many_contours >= 40 && max_contours >= 33, "coverage: the input space contains sections of five or more contours and one of more than 32", || format!("{} sections with five or more loops, the largest has {}", many_contours, max_contours));
    if dbg { eprintln!("contours many {} max {}", many_contours, max_contours); }

    // ---- (5) SHAPE CLASSES: prisms over cell sets (U, comb with 3 and 4 teeth, square ring = nested loops, two separate
    // pieces), a box inside a box (nested solids), every base solid under 5 other legal numberings, flagged non-solid,
    // and given as a triangle soup to new_with_options(merge_duplicates = true)
    let u_shape: Vec<(i32, i32)> = vec![(0, 0), (1, 0), (2, 0), (0, 1), (2, 1), (0, 2), (2, 2)];
    let comb = |teeth: i32| -> Vec<(i32, i32)> { let mut c: Vec<(i32, i32)> = (0..2 * teeth - 1).map(|x| (x, 0)).collect(); for t in 0..teeth { for y in 1..4 { c.push((2 * t, y)); } } c };
    let ring: Vec<(i32, i32)> = (0..4).flat_map(|x| (0..4).map(move |y| (x, y))).filter(|(x, y)| !((1..3).contains(x) && (1..3).contains(y))).collect();
    let two_pieces: Vec<(i32, i32)> = vec![(0, 0), (1, 0), (0, 1), (3, 0), (3, 1), (4, 1)];
    let mut shapes: Vec<(String, Mesh, usize)> = vec![
        ("U-shaped prism (cells) x 1.5".to_string(), cells_prism(&u_shape, 1.5), 2),
        ("comb prism with 3 teeth x 1.5".to_string(), cells_prism(&comb(3), 1.5), 3),
        ("comb prism with 4 teeth x 0.75".to_string(), cells_prism(&comb(4), 0.75), 4),
        ("square ring prism (4 x 4 cells without the inner 2 x 2) x 1.5".to_string(), cells_prism(&ring, 1.5), 2),
        ("two separate cell prisms in one mesh x 1.5".to_string(), cells_prism(&two_pieces, 1.5), 2),
    ];
    {
        // nested solids: box 1 x 1 x 1 at (0.5, 1, 1.5) inside the box 2 x 3 x 4, one mesh
        let outer = Mesh::create_box(2.0, 3.0, 4.0, true);
        let inner = moved(&Mesh::create_box(1.0, 1.0, 1.0, true), &Iso3::translation(0.5, 1.0, 1.5));
        let mut v = outer.vertices().to_vec(); v.extend(inner.vertices().iter().cloned());
        let mut f = outer.faces().to_vec(); f.extend(inner.faces().iter().map(|t| [t[0] + 8, t[1] + 8, t[2] + 8]));
        shapes.push(("box 1x1x1 at (0.5,1,1.5) nested in the box 2x3x4 (one mesh)".to_string(), Mesh::new(v, f, true), 2));
    }
    let mut most_loops: Vec<usize> = vec![0; shapes.len()];
    for (si, (sname, base, _)) in shapes.iter().enumerate() {
        for (pname, pose) in [("identity", Iso3::identity()), ("R(2,-1,2)1.1rad then +(-2,1.5,0.25)", general)] {
            let m = moved(base, &pose);
            let name = format!("{} in pose {}", sname, pname);
            mark(r, &name);
            for nl in normals17.iter() {
                let n = pose.rotation * nl;
                let (sv, lo, hi) = extent(&m, &n);
                for kf in [-1.0, 1.0, 3.0, 6.0, 9.0, 11.0, 13.0, 15.0, 17.0] {
                    let d = lo + (hi - lo) * kf / 16.0 + 1.0 / 128.0;
                    if too_close(&sv, d) { continue; }
                    let w = Want { convex: false, perimeter: None, commute: &commute3[1..2], flip: true };
                    let i = check_section2(r, &name, &m, &n, d, None, &w);
                    if i.full { most_loops[si] = most_loops[si].max(i.loops); }
                    check_split2(r, &name, &m, &n, d, true, &commute3[1..2]);
                }
            }
        }
    }
    r.check(shapes.iter().zip(most_loops.iter()).all(|(s, l)| *l >= s.2), "coverage: every non-convex shape is cut into as many loops as it has prongs / nested outlines by some plane", || format!("{:?}", most_loops));
    if dbg { eprintln!("shapes {:?}", most_loops); }

    let mut relabel_runs = 0usize;
    for (mname, base, convex) in base_meshes().iter() {
        let mut variants: Vec<(String, Mesh)> = (0..5).map(|k| { let (what, m) = relabelled(base, k); (what.to_string(), m) }).collect();
        variants.push(("flagged non-solid (Mesh::new(.., false))".to_string(), Mesh::new(base.vertices().to_vec(), base.faces().to_vec(), false)));
        // triangle soup (every face with its own three vertices) merged by new_with_options(merge_duplicates = true)
        let soup_v: Vec<Point3> = base.faces().iter().flat_map(|t| t.iter().map(|i| base.vertices()[*i as usize]).collect::<Vec<_>>()).collect();
        let soup_f: Vec<[u32; 3]> = (0..base.faces().len() as u32).map(|k| [3 * k, 3 * k + 1, 3 * k + 2]).collect();
        for is_solid in [true, false] {
            match Mesh::new_with_options(soup_v.clone(), soup_f.clone(), is_solid, true, false, None) {
                Ok(x) => {
                    // (an unmerged soup is an open mesh for parry: it is not sectioned)
                    let merged = x.vertices().len() == base.vertices().len() && x.faces().len() == base.faces().len();
                    r.check(merged, "coverage: a triangle soup given to Mesh::new_with_options(merge_duplicates = true) has its duplicate vertices merged", || format!("{}: {} vertices, {} faces", mname, x.vertices().len(), x.faces().len()));
                    if merged { variants.push((format!("given as a triangle soup to Mesh::new_with_options(is_solid = {}, merge_duplicates = true)", is_solid), x)); }
                }
                Err(_) => r.check(false, "coverage: a triangle soup given to Mesh::new_with_options(merge_duplicates = true) has its duplicate vertices merged", || format!("{}: constructor failed", mname)),
            }
        }
        for (what, vm) in variants.iter() {
            for (pname, pose) in [("identity", Iso3::identity()), ("R(2,-1,2)1.1rad then +(-2,1.5,0.25)", general)] {
                let m = moved(vm, &pose);
                let name = format!("{}, {}, in pose {}", mname, what, pname);
                mark(r, &name);
                for n in normals17.iter() {
                    let (sv, lo, hi) = extent(&m, n);
                    for d in [lo - 0.5, lo + 1.0 / 4096.0, lo + 0.25, lo + (hi - lo) * 5.0 / 16.0, lo + (hi - lo) * 9.0 / 16.0, hi - 0.25, hi + 0.5] {
                        if too_close(&sv, d) { continue; }
                        let w = Want { convex: *convex, perimeter: None, commute: &commute3[1..2], flip: false };
                        let i = check_section2(r, &name, &m, n, d, None, &w);
                        if i.full && i.loops >= 1 { relabel_runs += 1; }
                        check_split2(r, &name, &m, n, d, false, &none);
                    }
                }
            }
        }
    }
    r.check(relabel_runs >= 4000, "coverage: the input space contains sections of renumbered / non-solid / merged-soup meshes", || format!("{}", relabel_runs));
    if dbg { eprintln!("relabel {}", relabel_runs); }

    // ---- (2) PARAMETER RELATIONS: the curve tolerance `tol` against the shortest crossing segment and against the distance of
    // the nearest mesh vertex from the plane (parry's on-plane epsilon is the fixed 1e-6, whatever the curve tolerance)
    let (mut full_near, mut full_far, mut merged) = (0usize, 0usize, 0usize);
    let tols = [None, Some(0.0), Some(1.0e-12), Some(1.0e-6), Some(1.0e-4), Some(5.0e-3), Some(0.05), Some(0.75), Some(10.0)];
    for (mname, base, convex) in base_meshes().iter() {
        for (pname, pose) in [("identity", Iso3::identity()), ("R(2,-1,2)1.1rad then +(-2,1.5,0.25)", general)] {
            let m = moved(base, &pose);
            let name = format!("{} in pose {}", mname, pname);
            mark(r, &name);
            for nl in normals17.iter() {
                let n = pose.rotation * nl;
                let (sv, lo, hi) = extent(&m, &n);
                // 0.004 / 0.03 / 0.3 inside either end: mesh vertices closer to the plane than the larger tolerances
                for d in [lo + 0.004, hi - 0.004, lo + 0.03, hi - 0.03, lo + 0.3, lo + 1.0 / 4096.0, lo + (hi - lo) * 7.0 / 16.0, lo + (hi - lo) * 9.0 / 16.0] {
                    if too_close(&sv, d) { continue; }
                    for tol in tols.iter() {
                        let w = Want { convex: *convex, perimeter: None, commute: &commute3[1..2], flip: false };
                        let i = check_section2(r, &name, &m, &n, d, *tol, &w);
                        if i.skipped { continue; }
                        if i.full && i.near && i.loops >= 1 { full_near += 1; }
                        if i.full && !i.near && i.loops >= 1 { full_far += 1; }
                        if !i.full { merged += 1; }
                    }
                }
            }
        }
    }
    r.check(full_near >= 150 && full_far >= 4000 && merged >= 2000, "coverage: the input space contains curve tolerances below the shortest crossing segment with a mesh vertex closer to the plane than the tolerance, tolerances below both, and tolerances at or above the shortest segment", || format!("{} / {} / {}", full_near, full_far, merged));
    if dbg { eprintln!("tol {} {} {}", full_near, full_far, merged); }


    // ---- (3) EXACT TIES (robustness probes): planes through every triple of vertices of the box 2x3x4, the cube 2, the prism,
    // the tetrahedron and the L-prism, in both orientations, in two exact poses; offsets bit-equal to the smallest / largest
    // vertex distance and one ulp either side of them for the 17 normals
    let (mut through, mut through_curves, mut guarded) = (0usize, 0usize, 0usize);
    let mut solids: Vec<(String, Mesh)> = base_meshes().into_iter().map(|(a, b, _)| (a.to_string(), b)).collect();
    solids.push(("cube 2".to_string(), Mesh::create_box(2.0, 2.0, 2.0, true)));
    let exact_poses = [("identity", Iso3::identity()), ("+(3,-5,2)", Iso3::translation(3.0, -5.0, 2.0))];
    for (sname, base) in solids.iter() {
        for (pname, pose) in exact_poses.iter() {
            let m = moved(base, pose);
            let name = format!("{} in pose {}", sname, pname);
            mark(r, &name);
            let v = m.vertices().to_vec();
            let mut seen: Vec<(Vector3, f64)> = vec![];
            for i in 0..v.len() { for j in i + 1..v.len() { for k in j + 1..v.len() {
                let raw = (v[j] - v[i]).cross(&(v[k] - v[i]));
                if raw.norm() == 0.0 { continue; }
                let n = raw.normalize();
                let d = raw.dot(&v[i].coords) / raw.norm();
                if seen.iter().any(|(n2, d2)| ((n2 - n).norm() < 1e-12 && (d2 - d).abs() < 1e-12) || ((n2 + n).norm() < 1e-12 && (d2 + d).abs() < 1e-12)) { continue; }
                seen.push((n, d));
                for (nn, dd) in [(n, d), (-n, -d)] {
                    let k = probe_through(r, &name, &m, &nn, dd, true);
                    if k == usize::MAX { guarded += 1; } else { through += 1; through_curves += k; }
                }
            } } }
            for n in normals17.iter() {
                let (_, lo, hi) = extent(&m, n);
                for d in [lo, next_up(lo), next_down(lo), hi, next_up(hi), next_down(hi), lo + 0.5e-6, hi - 0.5e-6, lo + 2.0e-6, hi - 2.0e-6] {
                    let k = probe_through(r, &name, &m, n, d, d == lo || d == hi);
                    if k == usize::MAX { guarded += 1; } else { through += 1; }
                }
            }
        }
    }
    if dbg { eprintln!("through {} curves {} guarded {}", through, through_curves, guarded); }
    r.check(through >= 2000 && through_curves >= 300 && guarded >= 40 && guarded <= 60, "coverage: the input space contains planes exactly through mesh vertices, a good part of them with a section; the planes on which parry 0.18 would not return (a mesh edge in the plane that the plane does not cross: all on the L-prism) are recognised and not run", || format!("{} planes, {} curves, {} not run", through, through_curves, guarded));

    // ---- (4) SEQUENCES: the same section twice; a section before and after a split and a section by another plane (the mesh
    // is not changed by either); the halves of a split, split again by the same plane, are wholly on their own sides; the
    // halves split by a second plane conserve their own area
    let mut seq = 0usize;
    for (mname, base, _) in base_meshes().iter() {
        for (pname, pose) in [("identity", Iso3::identity()), ("R(2,-1,2)1.1rad then +(-2,1.5,0.25)", general)] {
            let m = moved(base, &pose);
            let name = format!("{} in pose {}", mname, pname);
            mark(r, &name);
            for n in normals17.iter() {
                let (sv, lo, hi) = extent(&m, n);
                for kf in [3.0, 7.0, 10.0] {
                    let d = lo + (hi - lo) * kf / 16.0;
                    if too_close(&sv, d) { continue; }
                    let desc = || format!("{} plane normal ({:?}, {:?}, {:?}) d {:?}", name, n.x, n.y, n.z, d);
                    r.case();
                    let pl = plane(n, d);
                    let bits = |c: &Vec<Curve3>| -> Vec<Vec<[u64; 3]>> { c.iter().map(|x| x.points().iter().map(|p| [p.x.to_bits(), p.y.to_bits(), p.z.to_bits()]).collect()).collect() };
                    let first = match m.section(&pl, None) { Ok(c) => c, Err(_) => { r.check(false, "section: returns Ok", desc); continue; } };
                    let again = m.section(&pl, None).unwrap_or_default();
                    r.check(bits(&first) == bits(&again), "section: the same mesh and plane twice yield the same curves (deterministic)", desc);
                    let other = nv(n.y + 0.3, n.z - 0.2, n.x + 0.1);
                    let (osv, olo, ohi) = extent(&m, &other);
                    let od = olo + (ohi - olo) * 0.4375;
                    let halves = m.split(&pl);
                    let _ = m.section(&plane(&other, od), Some(1.0e-3));
                    let after = m.section(&pl, None).unwrap_or_default();
                    r.check(bits(&first) == bits(&after), "section: unchanged by an intervening split and a section by another plane (the mesh is not modified)", desc);
                    if let SplitResult::Pair(a, b) = halves {
                        seq += 1;
                        let va = matches!(a.split(&pl), SplitResult::Negative);
                        let vb = matches!(b.split(&pl), SplitResult::Positive);
                        r.check(va, "split: the first mesh, split again by the same plane, is reported wholly on the negative side", desc);
                        r.check(vb, "split: the second mesh, split again by the same plane, is reported wholly on the positive side", desc);
                        if !too_close(&osv, od) {
                            for (hn, h) in [("negative half", &a), ("positive half", &b)] {
                                if too_close(&extent(h, &other).0, od) { continue; }
                                check_split2(r, &format!("{} of {} cut by normal ({:?}, {:?}, {:?}) d {:?}", hn, name, n.x, n.y, n.z, d), h, &other, od, true, &none);
                            }
                        }
                    } else {
                        r.check(false, "split: yields two meshes when the plane crosses the mesh", desc);
                    }
                }
            }
        }
    }
    r.check(seq >= 300, "coverage: the input space contains split-then-split sequences", || format!("{}", seq));
    if dbg { eprintln!("seq {}", seq); }
}
