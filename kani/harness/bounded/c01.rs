//! C01 bounded: station consistency on every polyline with 2..=4 vertices on the integer grid {0,1,2}^2 (2D) and a
//! fixed family of 3D polylines, open / naturally closed / force-closed, for l at every stored vertex length, every
//! edge midpoint and quarter point, 0, L, and just outside [0, L].
//! LONG curves (31, 32, 33, 64, 100, 128 edges, a few with 257 and 1000; 2D and 3D): uniform edge lengths (unit staircase, straight run, 3-4-5
//! zig-zag, closed / force-closed square loops), the same scaled by 0.1 and 2^-20 (inexact cumulative lengths), and
//! non-uniform ones (edge lengths 1,2,1,2,.. / one long last edge / one long first edge), probed exactly at EVERY stored
//! vertex length: the station at an interior vertex (2D) must carry the normalised sum of the adjacent edge directions
//! and equal the by-vertex / iterated station.  TINY edges: curves of total length ~1e-3 with ~1300 edges shorter than
//! 1e-6 (tolerance 1e-9): directions parallel to the edge, points reproduced within 1e-9 * extent.
//!
//! WAVE 5 (parameter-space audit, notes/w5_audit_C01.md).  Every curve, 2D and 3D alike, is additionally probed one
//! ulp (f64::from_bits +-1) either side of every stored vertex length, at -0.0, L + 1 ulp, -(smallest subnormal);
//! by fraction (0, -0.0, 1, k/8, 1/3, 2/3, l_i / L, and outside: 1 + eps, -eps, -1, 2) with the FULL
//! station compared (index, fraction, length-along, point, direction), by at_front / at_back, by the vertex navigation
//! of a station (at_index; 2D also at_next_index / previous / next), through a Clone and through a curve rebuilt from
//! the stored vertices; the stored vertices themselves are compared with the input (in-order subsequence; unchanged when
//! the input survives de-duplication).  New enumerated families: far from the origin (offsets 1e3 .. 1e8, 2^30; exact
//! integer shapes and 0.1-scaled ones), tiny extents (1e-6, 1e-9, 2^-30; tol 0 and 1e-3 * scale), edge-length ratios
//! 1e6 .. 1e9 (a 1e6 edge followed by 1e-3 edges), 2048 / 4096 / 4097 / 5000 edges (uniform and not, 2D / 3D, closed
//! loop with 4400 edges), tolerance relations (tol 0 with an exactly closed / force-closed input, tol larger than some
//! edges so that de-duplication eats vertices, closed WITHIN tolerance with a non-zero gap, a gap just above tol
//! force-closed by a short closing edge), every 5-vertex sequence over a 3x2 grid (2D) and every 4-vertex sequence over
//! {0,1}^3 (3D), short asymmetric chains with 2..=8 vertices.  All length comparisons are relative to min(1 + |l|, L)
//! and all point comparisons to the edge scale plus 8 ulp of the coordinate magnitude, so that they stay meaningful on
//! tiny curves and far from the origin.
use super::{close, Report};
use crate::geom2::{Curve2, CurveStation2, Point2};
use crate::geom3::{Curve3, CurveStation3, Point3};

fn lerp2(a: &Point2, b: &Point2, f: f64) -> Point2 { Point2::new(a.x + (b.x - a.x) * f, a.y + (b.y - a.y) * f) }
fn lerp3(a: &Point3, b: &Point3, f: f64) -> Point3 { Point3::new(a.x + (b.x - a.x) * f, a.y + (b.y - a.y) * f, a.z + (b.z - a.z) * f) }

fn unit2(a: &Point2, b: &Point2) -> (f64, f64) { let d = ((b.x - a.x).powi(2) + (b.y - a.y).powi(2)).sqrt(); ((b.x - a.x) / d, (b.y - a.y) / d) }
fn unit3(a: &Point3, b: &Point3) -> (f64, f64, f64) { let d = d3(a, b); ((b.x - a.x) / d, (b.y - a.y) / d, (b.z - a.z) / d) }
fn d2(a: &Point2, b: &Point2) -> f64 { ((b.x - a.x).powi(2) + (b.y - a.y).powi(2)).sqrt() }
fn d3(a: &Point3, b: &Point3) -> f64 { ((b.x - a.x).powi(2) + (b.y - a.y).powi(2) + (b.z - a.z).powi(2)).sqrt() }

/// the next representable number above / below a finite x >= 0 (below 0.0: the negative smallest subnormal)
fn up(x: f64) -> f64 { if x == 0.0 { f64::from_bits(1) } else { f64::from_bits(x.to_bits() + 1) } }
fn down(x: f64) -> f64 { if x == 0.0 { -f64::from_bits(1) } else { f64::from_bits(x.to_bits() - 1) } }

/// index k with ls[k] == l in the strictly increasing list ls (own bisection: the oracle does not use the std search)
fn find(ls: &[f64], l: f64) -> Option<usize> {
    let (mut lo, mut hi) = (0usize, ls.len());
    while lo < hi { let mid = (lo + hi) / 2; if ls[mid] < l { lo = mid + 1 } else { hi = mid } }
    if lo < ls.len() && ls[lo] == l { Some(lo) } else { None }
}
/// edge i with ls[i] < l < ls[i + 1] for an l in (0, L) that is not a stored vertex length
fn edge_of(ls: &[f64], l: f64) -> usize {
    let (mut lo, mut hi) = (0usize, ls.len());
    while lo < hi { let mid = (lo + hi) / 2; if ls[mid] < l { lo = mid + 1 } else { hi = mid } }
    lo.max(1) - 1
}

/// comparison scales of one curve: coordinate magnitude, longest edge, total length
struct Scale { ext: f64, emax: f64, total: f64 }
impl Scale {
    /// coordinates: 1e-9 of the edge scale (of the extent when that is smaller) plus 8 ulp of the coordinate magnitude
    fn pt(&self, a: f64, b: f64) -> bool { (a - b).abs() <= 1e-9 * self.ext.min(1.0 + self.emax) + 8.0 * f64::EPSILON * self.ext }
    /// arc lengths: 1e-9 relative to 1 + |l|, and to the total length when that is smaller
    fn len(&self, a: f64, b: f64) -> bool { (a - b).abs() <= 1e-9 * (1.0 + a.abs().max(b.abs())).min(self.total) }
}
fn same_f(a: f64, b: f64) -> bool { (a.is_nan() && b.is_nan()) || close(a, b) }
fn same2(a: &CurveStation2, b: &CurveStation2) -> bool {
    a.index() == b.index() && a.fraction() == b.fraction() && a.point() == b.point() && same_f(a.direction().x, b.direction().x) && same_f(a.direction().y, b.direction().y)
}
fn same3(a: &CurveStation3, b: &CurveStation3) -> bool {
    a.index() == b.index() && a.fraction() == b.fraction() && a.point() == b.point()
        && same_f(a.direction().x, b.direction().x) && same_f(a.direction().y, b.direction().y) && same_f(a.direction().z, b.direction().z)
}
/// the fractions every curve is asked for (inside [0, 1]) and the ones that must give no station
const FRACTIONS: [f64; 12] = [0.0, -0.0, 1.0, 0.125, 0.25, 0.375, 0.5, 0.625, 0.75, 0.875, 1.0 / 3.0, 2.0 / 3.0];
const FRACTIONS_OUT: [f64; 4] = [1.0 + f64::EPSILON, -f64::EPSILON, -1.0, 2.0];
/// vertex indices used for the per-vertex extras: all of them on short curves, ~48 spread ones (and the ends) on long ones
fn sample(n: usize) -> Vec<usize> {
    if n <= 64 { return (0..n).collect(); }
    let mut s: Vec<usize> = (0..48).map(|k| k * (n - 1) / 47).collect();
    s.extend([1, 2, n - 3, n - 2]);
    s.sort(); s.dedup(); s
}

/// is l a stored vertex length whose adjacent edge directions cancel?
fn doubles_back(v: &[Point2], closed: bool, l: f64, ls: &[f64]) -> bool {
    let n = v.len();
    let k = match find(ls, l) { Some(k) => k, None => return false };
    let (e0, e1) = if closed && (k == 0 || k == n - 1) { (0, n - 2) } else if k == 0 || k == n - 1 { return false } else { (k - 1, k) };
    let a = unit2(&v[e0], &v[e0 + 1]);
    let b = unit2(&v[e1], &v[e1 + 1]);
    (a.0 + b.0).abs() < 1e-12 && (a.1 + b.1).abs() < 1e-12
}

/// vertex list for a failure message: in full up to 40 points; longer lists (the generated LONG families, whose edge
/// vectors repeat cyclically) as their first 10 points and the total count
fn show(pts: &[Vec<f64>]) -> String {
    let one = |q: &Vec<f64>| format!("({})", q.iter().map(|x| format!("{:?}", x)).collect::<Vec<_>>().join(", "));
    let list = |l: &[Vec<f64>]| l.iter().map(one).collect::<Vec<_>>().join(", ");
    if pts.len() <= 40 { format!("[{}]", list(pts)) } else { format!("[{}, .. {} points in all (edge vectors repeat cyclically, see long_curves), last point {}]", list(&pts[..10]), pts.len(), one(&pts[pts.len() - 1])) }
}

fn check_curve2(r: &mut Report, pts: &[Point2], force_closed: bool) { check_curve2_tol(r, pts, force_closed, 1e-6) }
fn check_curve2_tol(r: &mut Report, pts: &[Point2], force_closed: bool, tol: f64) {
    let c = match Curve2::from_points(pts, tol, force_closed) { Ok(c) => c, Err(_) => return };
    r.case();
    let desc = || format!("Curve2::from_points({}, tol={:?}, force_closed={})", show(&pts.iter().map(|p| vec![p.x, p.y]).collect::<Vec<_>>()), tol, force_closed);
    let v = c.points().to_vec();
    let n = v.len();
    let ls = c.lengths().clone();
    if n < 2 || ls.len() != n { r.check(false, "lengths start at 0 and match the vertex count", desc); return; }
    // point comparisons: relative to the extent of the curve when that is below one unit, to the edge scale otherwise
    let ext = v.iter().fold(0.0f64, |m, q| m.max(q.x.abs()).max(q.y.abs()));
    let emax = (0..n - 1).fold(0.0f64, |m, i| m.max(d2(&v[i], &v[i + 1])));
    let sc = Scale { ext, emax, total: c.length() };
    let cp = |a: f64, b: f64| sc.pt(a, b);
    // cumulative lengths: start at 0, increase by exactly the edge lengths, end at the sum of edge lengths
    r.check(ls.len() == n && ls[0] == 0.0, "lengths start at 0 and match the vertex count", desc);
    let mut sum = 0.0;
    for i in 0..n - 1 {
        let d = d2(&v[i], &v[i + 1]);
        sum += d;
        r.check(sc.len(ls[i + 1] - ls[i], d) && ls[i + 1] > ls[i], "length increments equal edge lengths", desc);
    }
    r.check(sc.len(c.length(), sum), "total length is the sum of edge lengths", desc);
    // a curve whose total length is not a positive finite number has no stations to ask for (NaN lengths are out of scope)
    if !(c.length() > 0.0 && c.length().is_finite() && ls.iter().all(|x| x.is_finite())) { r.check(false, "total length is the sum of edge lengths", desc); return; }
    let dfl = d2(&v[n - 1], &v[0]);
    r.check(c.is_closed() == (dfl <= tol), "closed flag <=> first and last vertex within tol", desc);
    if force_closed { r.check(c.is_closed(), "force-closed curve is closed", desc); }
    // stations
    let total = c.length();
    let mut probes: Vec<f64> = vec![0.0, total];
    for i in 0..n - 1 { for f in [0.0, 0.25, 0.5, 1.0] { probes.push(ls[i] + (ls[i + 1] - ls[i]) * f); } }
    // just off a stored vertex length (well inside the curve tolerance, and one ulp either side): still an edge station
    for i in 0..n { for d in [tol * 0.25, -tol * 0.25, ls[i] * f64::EPSILON, -ls[i] * f64::EPSILON] { let l = ls[i] + d; if l > 0.0 && l < total { probes.push(l); } } }
    // exactly one ulp either side of every stored vertex length
    for i in 0..n { for l in [up(ls[i]), down(ls[i])] { if l > 0.0 && l < total { probes.push(l); } } }
    for &l in probes.iter() {
        let d2_ = || format!("{} at_length({:?})", desc(), l);
        match c.at_length(l) {
            None => r.check(false, "a length inside [0, L] yields a station", d2_),
            Some(s) => {
                r.check(s.index() + 1 < n, "edge index in range", d2_);
                r.check(s.fraction() >= 0.0 && s.fraction() <= 1.0, "fraction in [0,1]", d2_);
                r.check(sc.len(s.length_along(), l), "length_along == l", d2_);
                if find(&ls, l).is_none() && s.index() + 1 < n {
                    // not a stored vertex length: the station lies strictly inside the edge that contains l
                    r.check(ls[s.index()] < l && l < ls[s.index() + 1], "a length that is not a stored vertex length lies strictly inside its edge", d2_);
                    r.check((s.length_along() - l).abs() <= 4.0 * f64::EPSILON * (total.min(1.0) + l.abs()), "length_along == l to rounding (no snapping to a nearby vertex)", d2_);
                    let e = unit2(&v[s.index()], &v[s.index() + 1]);
                    r.check(close(s.direction().x, e.0) && close(s.direction().y, e.1), "direction parallel to the edge the station lies on", d2_);
                }
                if s.index() + 1 < n {
                    let p = lerp2(&v[s.index()], &v[s.index() + 1], s.fraction());
                    r.check(cp(p.x, s.point().x) && cp(p.y, s.point().y), "index+fraction reproduce the point", d2_);
                    // lies on the curve: on the edge that contains l, at the arc length l - l[index] from its start
                    let e = unit2(&v[s.index()], &v[s.index() + 1]);
                    let q = Point2::new(v[s.index()].x + e.0 * (l - ls[s.index()]), v[s.index()].y + e.1 * (l - ls[s.index()]));
                    r.check(cp(q.x, s.point().x) && cp(q.y, s.point().y), "the station lies on the curve at arc length l (start of its edge + unit edge direction * (l - l[index]))", d2_);
                }
                // the same place by fraction
                if total > 0.0 {
                    if let Some(s2) = c.at_fraction(l / total) {
                        r.check(cp(s2.point().x, s.point().x) && cp(s2.point().y, s.point().y), "at_fraction(l/L) gives the same point", d2_);
                    } else if l / total * total <= total { r.check(false, "at_fraction(l/L) yields a station", d2_); }
                }
                let dn = (s.direction().x.powi(2) + s.direction().y.powi(2)).sqrt();
                // a vertex whose two adjacent edges are exactly anti-parallel (the curve doubles back) has no
                // "normalised sum of the two adjacent edge directions": reported under its own name
                if doubles_back(&v, c.is_closed(), l, &ls) {
                    r.check(close(dn, 1.0), "unit direction at a doubled-back vertex (adjacent edges anti-parallel: the sum of the edge directions is the zero vector)", d2_);
                } else {
                    r.check(close(dn, 1.0), "unit direction", d2_);
                }
            }
        }
    }
    // by vertex index / by iteration: the station at a stored vertex length is that vertex
    let stations: Vec<_> = c.iter().collect();
    r.check(stations.len() == n, "iteration yields one station per vertex", desc);
    for (k, st) in stations.iter().enumerate() {
        if k >= n { break; }
        let d3_ = || format!("{} vertex {}", desc(), k);
        r.check(st.point() == v[k], "iterated station k is vertex k", d3_);
        r.check(sc.len(st.length_along(), ls[k]), "iterated station k has the stored length", d3_);
        if let Some(s) = c.at_length(ls[k]) {
            r.check(s.index() == st.index() && s.fraction() == st.fraction(), "at_length(stored length k) == station of vertex k (index, fraction)", d3_);
            if !doubles_back(&v, c.is_closed(), ls[k], &ls) {
                r.check(close(s.direction().x, st.direction().x) && close(s.direction().y, st.direction().y), "same direction by length and by vertex", d3_);
            }
            let (ei, ef) = if k == n - 1 { (k - 1, 1.0) } else { (k, 0.0) };
            r.check(s.index() == ei && s.fraction() == ef, "vertex station is (k, 0.0), last vertex (n-2, 1.0)", d3_);
            r.check(s.point() == v[k], "station at a stored vertex length is that vertex", d3_);
            // the direction the statement prescribes, computed from the vertices alone
            if !doubles_back(&v, c.is_closed(), ls[k], &ls) {
                let seam = c.is_closed() && (k == 0 || k == n - 1);
                let want = if seam || (k > 0 && k < n - 1) {
                    let (e0, e1) = if seam { (n - 2, 0) } else { (k - 1, k) };
                    let (a, b) = (unit2(&v[e0], &v[e0 + 1]), unit2(&v[e1], &v[e1 + 1]));
                    let m = ((a.0 + b.0).powi(2) + (a.1 + b.1).powi(2)).sqrt();
                    ((a.0 + b.0) / m, (a.1 + b.1) / m)
                } else if k == 0 { unit2(&v[0], &v[1]) } else { unit2(&v[n - 2], &v[n - 1]) };
                r.check(close(s.direction().x, want.0) && close(s.direction().y, want.1), "at_length(stored vertex length): direction is the normalised sum of the two adjacent edge directions at an interior vertex / closed seam, the edge direction at an open end", d3_);
                r.check(close(st.direction().x, want.0) && close(st.direction().y, want.1), "iterated vertex station: direction is the normalised sum of the two adjacent edge directions at an interior vertex / closed seam, the edge direction at an open end", d3_);
            }
        } else { r.check(false, "stored vertex length yields a station", d3_); }
    }
    // outside [0, L]: no station (no clamping / extrapolation)
    for l in [-1e-9, -f64::MIN_POSITIVE, total + 1e-9, total * (1.0 + 4.0 * f64::EPSILON) + f64::MIN_POSITIVE, -1.0, total + 1.0,
              down(0.0), up(total), total + tol * 0.5, -tol * 0.5 - f64::MIN_POSITIVE] {
        if !(l < 0.0 || l > total) { continue; }
        r.check(c.at_length(l).is_none(), "a length outside [0, L] yields no station", || format!("{} at_length({:?})", desc(), l));
    }
    if stations.len() != n { return; }

    // ---- wave 5 ----
    // the two ends, asked for by vertex (at_front / at_back), by length (0, -0.0, L) and by iteration
    let (f0, b0) = (c.at_front(), c.at_back());
    r.check(f0.index() == 0 && f0.fraction() == 0.0 && f0.point() == v[0] && sc.len(f0.length_along(), 0.0) && same2(&f0, &stations[0]),
        "at_front() is the station of the first vertex: (0, 0.0), length-along 0, equal to the first iterated station", desc);
    r.check(b0.index() == n - 2 && b0.fraction() == 1.0 && b0.point() == v[n - 1] && sc.len(b0.length_along(), total) && same2(&b0, &stations[n - 1]),
        "at_back() is the station of the last vertex: (n-2, 1.0), length-along L, equal to the last iterated station", desc);
    for l in [0.0, -0.0] {
        r.check(c.at_length(l).map_or(false, |s| same2(&s, &stations[0])), "at_length(0.0) and at_length(-0.0) give the station of the first vertex", || format!("{} at_length({:?})", desc(), l));
    }
    r.check(c.at_length(total).map_or(false, |s| same2(&s, &stations[n - 1])), "at_length(L) gives the station of the last vertex", desc);
    // by fraction: the full station
    let mut fr: Vec<f64> = FRACTIONS.to_vec();
    for &k in sample(n).iter() { fr.push(ls[k] / total); }
    for &f in fr.iter() {
        let l = f * total;
        let d4 = || format!("{} at_fraction({:?}) [f * L = {:?}]", desc(), f, l);
        if !(l >= 0.0 && l <= total) { continue; }
        match c.at_fraction(f) {
            None => r.check(false, "a fraction inside [0, 1] yields a station", d4),
            Some(s) => {
                if let Some(k) = find(&ls, l) {
                    r.check(same2(&s, &stations[k]), "at_fraction(f) with f * L a stored vertex length is the station of that vertex (index, fraction, point, direction)", d4);
                } else {
                    let i = edge_of(&ls, l);
                    let e = unit2(&v[i], &v[i + 1]);
                    let q = Point2::new(v[i].x + e.0 * (l - ls[i]), v[i].y + e.1 * (l - ls[i]));
                    let ok = s.index() == i && s.fraction() >= 0.0 && s.fraction() <= 1.0 && sc.len(s.length_along(), l)
                        && cp(q.x, s.point().x) && cp(q.y, s.point().y) && close(s.direction().x, e.0) && close(s.direction().y, e.1);
                    r.check(ok, "at_fraction(f) is the station at arc length f * L (edge index, length-along, point on that edge, direction parallel to it)", d4);
                    let p = lerp2(&v[i], &v[i + 1], s.fraction());
                    r.check(s.index() != i || (cp(p.x, s.point().x) && cp(p.y, s.point().y)), "at_fraction(f): index+fraction reproduce the point", d4);
                }
            }
        }
    }
    for f in FRACTIONS_OUT {
        r.check(c.at_fraction(f).is_none(), "a fraction outside [0, 1] yields no station", || format!("{} at_fraction({:?})", desc(), f));
    }
    // vertex navigation from a station: by vertex index == by iterating
    let mut nav: Vec<CurveStation2> = vec![];
    for &k in sample(n).iter() { nav.push(stations[k]); if k + 1 < n { if let Some(s) = c.at_length(ls[k] + (ls[k + 1] - ls[k]) * 0.5) { nav.push(s); } } }
    for s in nav.iter() {
        let (i, f) = (s.index(), s.fraction());
        if i + 1 >= n { continue; }
        let d5 = || format!("{} station (index {}, fraction {:?})", desc(), i, f);
        r.check(same2(&s.at_index(), &stations[i]), "station.at_index() is the station of vertex `index` (the one iteration yields)", d5);
        r.check(same2(&s.at_next_index(), &stations[i + 1]), "station.at_next_index() is the station of vertex `index + 1` (the one iteration yields)", d5);
        let want_prev = if f > 0.0 { Some(i) } else if i > 0 { Some(i - 1) } else { None };
        let got = s.previous();
        r.check(match (want_prev, &got) { (None, None) => true, (Some(j), Some(g)) => same2(g, &stations[j]), _ => false },
            "station.previous() is the station of the vertex before it (vertex `index` from inside an edge, `index - 1` from a vertex, none at the first vertex)", d5);
        if f < 1.0 {
            r.check(s.next().map_or(false, |g| same2(&g, &stations[i + 1])), "station.next() is the station of vertex `index + 1` (from a vertex or from inside an edge)", d5);
        }
    }
    // the stored vertices against the input
    let mut j = 0usize;
    let mut ordered = pts.len() > 0 && v[0] == pts[0];
    for k in 0..n {
        while j < pts.len() && pts[j] != v[k] { j += 1; }
        if j == pts.len() { if !(k == n - 1 && force_closed && v[k] == v[0]) { ordered = false; } break; }
        j += 1;
    }
    r.check(ordered, "the stored vertices are input points in input order, starting with the first (plus the closing vertex of a force-closed curve)", desc);
    let tie = |d: f64| d != tol && (d - tol).abs() <= 1e-9 * tol;
    let gaps: Vec<f64> = (0..pts.len() - 1).map(|i| d2(&pts[i], &pts[i + 1])).collect();
    let gfl = d2(&pts[pts.len() - 1], &pts[0]);
    if gaps.iter().all(|&d| d > tol && !tie(d)) && !tie(gfl) {
        let push = force_closed && gfl > tol;
        r.check(n == pts.len() + push as usize && v[..pts.len()] == pts[..] && (!push || v[n - 1] == pts[0]),
            "a vertex sequence that survives de-duplication is stored unchanged (plus the closing vertex when force-closed)", desc);
    }
    // Clone, and a curve rebuilt from the stored vertices: same vertices, cumulative lengths, closedness, stations
    let cl = c.clone();
    let same_curve = |o: &Curve2| {
        let (ov, ol) = (o.points(), o.lengths());
        ov.len() == n && ol.len() == n && (0..n).all(|k| ov[k] == v[k] && sc.len(ol[k], ls[k])) && o.is_closed() == c.is_closed() && sc.len(o.length(), total)
            && [0.0, total * 0.5, total].iter().all(|&l| match (o.at_length(l), c.at_length(l)) { (Some(a), Some(b)) => same2(&a, &b) && sc.len(a.length_along(), b.length_along()), _ => false })
    };
    r.check(same_curve(&cl), "a Clone of the curve has the same vertices, cumulative lengths, closedness and stations", desc);
    for fc in [false, c.is_closed()] {
        match Curve2::from_points(&c.clone_points(), tol, fc) {
            Ok(o) => r.check(same_curve(&o), "a curve rebuilt from the stored vertices (clone_points -> from_points, same tol) has the same vertices, cumulative lengths, closedness and stations", desc),
            Err(_) => r.check(false, "a curve rebuilt from the stored vertices (clone_points -> from_points, same tol) has the same vertices, cumulative lengths, closedness and stations", desc),
        }
    }
}

fn check_curve3(r: &mut Report, pts: &[Point3]) { check_curve3_tol(r, pts, 1e-6) }
fn check_curve3_tol(r: &mut Report, pts: &[Point3], tol: f64) {
    let c = match Curve3::from_points(pts, tol) { Ok(c) => c, Err(_) => return };
    r.case();
    let desc = || format!("Curve3::from_points({}, tol={:?})", show(&pts.iter().map(|p| vec![p.x, p.y, p.z]).collect::<Vec<_>>()), tol);
    let v = c.points().to_vec();
    let n = v.len();
    let ls = c.lengths().to_vec();
    if n < 2 || ls.len() != n { r.check(false, "lengths start at 0 and match the vertex count", desc); return; }
    let ext = v.iter().fold(0.0f64, |m, q| m.max(q.x.abs()).max(q.y.abs()).max(q.z.abs()));
    let emax = (0..n - 1).fold(0.0f64, |m, i| m.max(d3(&v[i], &v[i + 1])));
    let sc = Scale { ext, emax, total: c.length() };
    let cp = |a: f64, b: f64| sc.pt(a, b);
    r.check(ls.len() == n && ls[0] == 0.0, "lengths start at 0 and match the vertex count", desc);
    let mut sum = 0.0;
    for i in 0..n - 1 {
        let d = d3(&v[i], &v[i + 1]);
        sum += d;
        r.check(sc.len(ls[i + 1] - ls[i], d) && ls[i + 1] > ls[i], "length increments equal edge lengths", desc);
    }
    r.check(sc.len(c.length(), sum), "total length is the sum of edge lengths", desc);
    if !(c.length() > 0.0 && c.length().is_finite() && ls.iter().all(|x| x.is_finite())) { r.check(false, "total length is the sum of edge lengths", desc); return; }
    let total = c.length();
    for k in 0..n {
        let d3_ = || format!("{} vertex {}", desc(), k);
        if let Some(s) = c.at_length(ls[k]) {
            let (ei, ef) = if k == n - 1 { (k - 1, 1.0) } else { (k, 0.0) };
            r.check(s.index() == ei && s.fraction() == ef, "vertex station is (k, 0.0), last vertex (n-2, 1.0)", d3_);
            r.check(s.point() == v[k], "station at a stored vertex length is that vertex", d3_);
            // direction = direction of edge `index` for k < n-1
            let e = if k == n - 1 { k - 1 } else { k };
            let dv = v[e + 1] - v[e];
            let dn = dv / dv.norm();
            r.check(close(s.direction().x, dn.x) && close(s.direction().y, dn.y) && close(s.direction().z, dn.z), "vertex direction parallel to its edge", d3_);
        } else { r.check(false, "stored vertex length yields a station", d3_); }
    }
    let mut probes3: Vec<f64> = vec![];
    for i in 0..n - 1 { for f in [0.25, 0.5] { probes3.push(ls[i] + (ls[i + 1] - ls[i]) * f); } }
    for i in 0..n { for d in [tol * 0.25, -tol * 0.25, ls[i] * f64::EPSILON, -ls[i] * f64::EPSILON] { let l = ls[i] + d; if l > 0.0 && l < total && find(&ls, l).is_none() { probes3.push(l); } } }
    // exactly one ulp either side of every stored vertex length
    for i in 0..n { for l in [up(ls[i]), down(ls[i])] { if l > 0.0 && l < total && find(&ls, l).is_none() { probes3.push(l); } } }
    for &l in probes3.iter() {
        let d2_ = || format!("{} at_length({:?})", desc(), l);
        if let Some(s) = c.at_length(l) {
            r.check(s.index() + 1 < n, "edge index in range", d2_);
            r.check(s.fraction() >= 0.0 && s.fraction() <= 1.0, "fraction in [0,1]", d2_);
            r.check(sc.len(s.length_along(), l), "length_along == l", d2_);
            if s.index() + 1 < n {
                r.check(ls[s.index()] < l && l < ls[s.index() + 1], "a length that is not a stored vertex length lies strictly inside its edge", d2_);
                r.check((s.length_along() - l).abs() <= 4.0 * f64::EPSILON * (total.min(1.0) + l.abs()), "length_along == l to rounding (no snapping to a nearby vertex)", d2_);
                let dv = v[s.index() + 1] - v[s.index()];
                let dn = dv / dv.norm();
                r.check(close(s.direction().x, dn.x) && close(s.direction().y, dn.y) && close(s.direction().z, dn.z), "direction parallel to the edge the station lies on", d2_);
            }
            if s.index() + 1 < n {
                let p = lerp3(&v[s.index()], &v[s.index() + 1], s.fraction());
                r.check(cp(p.x, s.point().x) && cp(p.y, s.point().y) && cp(p.z, s.point().z), "index+fraction reproduce the point", d2_);
                let dv = v[s.index() + 1] - v[s.index()];
                let q = v[s.index()] + dv / dv.norm() * (l - ls[s.index()]);
                r.check(cp(q.x, s.point().x) && cp(q.y, s.point().y) && cp(q.z, s.point().z), "the station lies on the curve at arc length l (start of its edge + unit edge direction * (l - l[index]))", d2_);
            }
            let dn = (s.direction().x.powi(2) + s.direction().y.powi(2) + s.direction().z.powi(2)).sqrt();
            r.check(close(dn, 1.0), "unit direction", d2_);
        } else { r.check(false, "a length inside [0, L] yields a station", d2_); }
    }
    for l in [-1e-9, total + 1e-9, -1.0, total + 1.0, -f64::MIN_POSITIVE, down(0.0), up(total), total * (1.0 + 4.0 * f64::EPSILON) + f64::MIN_POSITIVE,
              total + tol * 0.5, -tol * 0.5 - f64::MIN_POSITIVE] {
        if !(l < 0.0 || l > total) { continue; }
        r.check(c.at_length(l).is_none(), "a length outside [0, L] yields no station", || format!("{} at_length({:?})", desc(), l));
    }
    let mut k = 0;
    for st in c.iter() {
        if k >= n { k += 1; continue; }
        if let Some(s) = c.at_length(ls[k]) {
            r.check(s.index() == st.index() && s.fraction() == st.fraction() && s.point() == st.point()
                && close(s.direction().x, st.direction().x) && close(s.direction().y, st.direction().y) && close(s.direction().z, st.direction().z),
                "at_length(stored length k) == iterated station k (index, fraction, point, direction)", || format!("{} vertex {}", desc(), k));
        }
        r.check(sc.len(st.length_along(), ls[k]), "iterated station k has the stored length", desc);
        r.check(st.point() == v[k], "iterated station k is vertex k", desc);
        let dn = (st.direction().x.powi(2) + st.direction().y.powi(2) + st.direction().z.powi(2)).sqrt();
        r.check(close(dn, 1.0), "unit direction (3D vertex station)", desc);
        k += 1;
    }
    r.check(k == n, "iteration yields one station per vertex", desc);
    if k != n { return; }

    // ---- wave 5: the 3D counterpart of every 2D clause ----
    let stations: Vec<CurveStation3> = c.iter().collect();
    let (f0, b0) = (c.at_front(), c.at_back());
    r.check(f0.index() == 0 && f0.fraction() == 0.0 && f0.point() == v[0] && sc.len(f0.length_along(), 0.0) && same3(&f0, &stations[0]),
        "at_front() is the station of the first vertex: (0, 0.0), length-along 0, equal to the first iterated station", desc);
    r.check(b0.index() == n - 2 && b0.fraction() == 1.0 && b0.point() == v[n - 1] && sc.len(b0.length_along(), total) && same3(&b0, &stations[n - 1]),
        "at_back() is the station of the last vertex: (n-2, 1.0), length-along L, equal to the last iterated station", desc);
    for l in [0.0, -0.0] {
        r.check(c.at_length(l).map_or(false, |s| same3(&s, &stations[0])), "at_length(0.0) and at_length(-0.0) give the station of the first vertex", || format!("{} at_length({:?})", desc(), l));
    }
    r.check(c.at_length(total).map_or(false, |s| same3(&s, &stations[n - 1])), "at_length(L) gives the station of the last vertex", desc);
    let mut fr: Vec<f64> = FRACTIONS.to_vec();
    for &k in sample(n).iter() { fr.push(ls[k] / total); }
    for &f in fr.iter() {
        let l = f * total;
        let d4 = || format!("{} at_fraction({:?}) [f * L = {:?}]", desc(), f, l);
        if !(l >= 0.0 && l <= total) { continue; }
        match c.at_fraction(f) {
            None => r.check(false, "a fraction inside [0, 1] yields a station", d4),
            Some(s) => {
                if let Some(k) = find(&ls, l) {
                    r.check(same3(&s, &stations[k]), "at_fraction(f) with f * L a stored vertex length is the station of that vertex (index, fraction, point, direction)", d4);
                } else {
                    let i = edge_of(&ls, l);
                    let e = unit3(&v[i], &v[i + 1]);
                    let q = Point3::new(v[i].x + e.0 * (l - ls[i]), v[i].y + e.1 * (l - ls[i]), v[i].z + e.2 * (l - ls[i]));
                    let ok = s.index() == i && s.fraction() >= 0.0 && s.fraction() <= 1.0 && sc.len(s.length_along(), l)
                        && cp(q.x, s.point().x) && cp(q.y, s.point().y) && cp(q.z, s.point().z)
                        && close(s.direction().x, e.0) && close(s.direction().y, e.1) && close(s.direction().z, e.2);
                    r.check(ok, "at_fraction(f) is the station at arc length f * L (edge index, length-along, point on that edge, direction parallel to it)", d4);
                    let p = lerp3(&v[i], &v[i + 1], s.fraction());
                    r.check(s.index() != i || (cp(p.x, s.point().x) && cp(p.y, s.point().y) && cp(p.z, s.point().z)), "at_fraction(f): index+fraction reproduce the point", d4);
                }
            }
        }
    }
    for f in FRACTIONS_OUT {
        r.check(c.at_fraction(f).is_none(), "a fraction outside [0, 1] yields no station", || format!("{} at_fraction({:?})", desc(), f));
    }
    let mut nav: Vec<CurveStation3> = vec![];
    for &k in sample(n).iter() { nav.push(stations[k]); if k + 1 < n { if let Some(s) = c.at_length(ls[k] + (ls[k + 1] - ls[k]) * 0.5) { nav.push(s); } } }
    for s in nav.iter() {
        let (i, f) = (s.index(), s.fraction());
        if i + 1 >= n { continue; }
        r.check(same3(&s.at_index(), &stations[i]), "station.at_index() is the station of vertex `index` (the one iteration yields)", || format!("{} station (index {}, fraction {:?})", desc(), i, f));
    }
    let mut j = 0usize;
    let mut ordered = pts.len() > 0 && v[0] == pts[0];
    for k in 0..n {
        while j < pts.len() && pts[j] != v[k] { j += 1; }
        if j == pts.len() { ordered = false; break; }
        j += 1;
    }
    r.check(ordered, "the stored vertices are input points in input order, starting with the first (plus the closing vertex of a force-closed curve)", desc);
    let tie = |d: f64| d != tol && (d - tol).abs() <= 1e-9 * tol;
    if (0..pts.len() - 1).all(|i| { let d = d3(&pts[i], &pts[i + 1]); d > tol && !tie(d) }) {
        r.check(n == pts.len() && v[..] == pts[..], "a vertex sequence that survives de-duplication is stored unchanged (plus the closing vertex when force-closed)", desc);
    }
    let same_curve = |o: &Curve3| {
        let (ov, ol) = (o.points(), o.lengths());
        ov.len() == n && ol.len() == n && (0..n).all(|k| ov[k] == v[k] && sc.len(ol[k], ls[k])) && sc.len(o.length(), total)
            && [0.0, total * 0.5, total].iter().all(|&l| match (o.at_length(l), c.at_length(l)) { (Some(a), Some(b)) => same3(&a, &b) && sc.len(a.length_along(), b.length_along()), _ => false })
    };
    r.check(same_curve(&c.clone()), "a Clone of the curve has the same vertices, cumulative lengths, closedness and stations", desc);
    match Curve3::from_points(&c.clone_points(), tol) {
        Ok(o) => r.check(same_curve(&o), "a curve rebuilt from the stored vertices (clone_points -> from_points, same tol) has the same vertices, cumulative lengths, closedness and stations", desc),
        Err(_) => r.check(false, "a curve rebuilt from the stored vertices (clone_points -> from_points, same tol) has the same vertices, cumulative lengths, closedness and stations", desc),
    }
}

pub fn run() -> Report {
    let mut r = Report::new("2D: all vertex sequences of length 2..=4 over the 3x3 integer grid and of length 5 over a 3x2 grid (x force_closed in {false,true}), plus sequences with near-duplicate points (gap 1e-7 < tol); 3D: 2..=4 vertices over {0,1}^3 plus near-duplicates; probe lengths: 0, -0.0, L, every vertex length and one ulp either side of it, quarter/half points of every edge, 10 values outside [0, L] (L + 1 ulp, -subnormal, +-tol/2), fractions 0, 1, k/8, 1/3, 2/3, l_i/L and 4 outside [0, 1], at_front / at_back, station navigation (at_index, at_next_index, previous, next), Clone and rebuilt curve; LONG curves with 31, 32, 33, 64, 100, 128 edges (2D: 8 families uniform / non-uniform, open and force-closed; 3D: 3 families) x scales 1, 0.1, 2^-20, closed square loops with 32..128 edges (seam at a corner / inside a side), 4 families with 257 and 1000 edges, 2048 / 4096 / 4097 / 5000 edges (uniform and not), a closed loop with 4400 edges, probed at EVERY stored vertex length; curves of ~1300 edges shorter than 1e-6 (total length ~1e-3, tol 1e-9) and unit-size curves with a dense stretch of such edges; 7 asymmetric shapes x offsets up to 1e8 x scales 1 / 0.1, x tiny scales 1e-6 / 1e-9 / 2^-30; edge-length ratios up to 1e9; tolerances 0, 1e-6, and coarse ones that eat vertices or close the curve within tolerance");
    let grid: Vec<Point2> = (0..9).map(|k| Point2::new((k % 3) as f64, (k / 3) as f64)).collect();
    for len in 2..=4usize {
        let mut idx = vec![0usize; len];
        loop {
            let pts: Vec<Point2> = idx.iter().map(|&i| grid[i]).collect();
            for fc in [false, true] { check_curve2(&mut r, &pts, fc); }
            // odometer
            let mut p = 0;
            loop { idx[p] += 1; if idx[p] < 9 { break; } idx[p] = 0; p += 1; if p == len { break; } }
            if p == len { break; }
        }
    }
    // near-duplicates (closer than tol but not identical) and a gap exactly equal to tol
    let nd = vec![Point2::new(0.0, 0.0), Point2::new(1.0, 0.0), Point2::new(1.0 + 1e-7, 0.0), Point2::new(1.0, 1.0), Point2::new(1e-7, 1e-7)];
    check_curve2(&mut r, &nd, false); check_curve2(&mut r, &nd, true);
    let eq = vec![Point2::new(0.0, 0.0), Point2::new(2.0, 0.0), Point2::new(2.0, 2.0), Point2::new(0.0, 1e-6)];
    check_curve2(&mut r, &eq, false);
    // tolerance exactly 0 with exactly repeated points; a coarse tolerance
    let dup2 = vec![Point2::new(0.0, 0.0), Point2::new(1.0, 0.0), Point2::new(1.0, 0.0), Point2::new(1.0, 2.0), Point2::new(1.0, 2.0)];
    check_curve2_tol(&mut r, &dup2, false, 0.0); check_curve2_tol(&mut r, &dup2, true, 0.0);
    check_curve2_tol(&mut r, &grid[..5].to_vec(), false, 0.25); check_curve2_tol(&mut r, &[grid[0], grid[1], grid[4], grid[3]], true, 0.25);
    let g3: Vec<Point3> = (0..8).map(|k| Point3::new((k % 2) as f64, ((k / 2) % 2) as f64, (k / 4) as f64)).collect();
    for a in 0..8 { for b in 0..8 { check_curve3(&mut r, &[g3[a], g3[b]]); for c in 0..8 { check_curve3(&mut r, &[g3[a], g3[b], g3[c]]); } } }
    let nd3 = vec![Point3::new(0.0, 0.0, 0.0), Point3::new(1.0, 0.0, 0.0), Point3::new(1.0 + 1e-7, 0.0, 0.0), Point3::new(1.0, 2.0, 0.0), Point3::new(1.0, 2.0, 1e-7), Point3::new(1.0, 2.0, 2.0)];
    check_curve3(&mut r, &nd3);
    let dup3 = vec![Point3::new(0.0, 0.0, 0.0), Point3::new(1.0, 0.0, 0.0), Point3::new(1.0, 0.0, 0.0), Point3::new(1.0, 2.0, 0.0), Point3::new(1.0, 2.0, 0.0), Point3::new(1.0, 2.0, 2.0)];
    check_curve3_tol(&mut r, &dup3, 0.0);
    check_curve3_tol(&mut r, &[g3[0], g3[1], g3[3], g3[7]], 0.25);
    long_curves(&mut r);
    wave5_families(&mut r);
    r
}

/// polyline from a start point and a cyclic list of edge vectors, `n` edges, every coordinate multiplied by `f`
fn chain2(n: usize, steps: &[(f64, f64)], f: f64) -> Vec<Point2> {
    let (mut x, mut y) = (0.0, 0.0);
    let mut v = vec![Point2::new(0.0, 0.0)];
    for k in 0..n { x += steps[k % steps.len()].0; y += steps[k % steps.len()].1; v.push(Point2::new(x * f, y * f)); }
    v
}
fn chain3(n: usize, steps: &[(f64, f64, f64)], f: f64) -> Vec<Point3> {
    let (mut x, mut y, mut z) = (0.0, 0.0, 0.0);
    let mut v = vec![Point3::new(0.0, 0.0, 0.0)];
    for k in 0..n { let s = steps[k % steps.len()]; x += s.0; y += s.1; z += s.2; v.push(Point3::new(x * f, y * f, z * f)); }
    v
}
/// square loop with m unit edges per side (4m edges), first vertex repeated at the end when `repeat`
fn loop2(m: usize, repeat: bool, f: f64, start: usize) -> Vec<Point2> {
    let mut ring = vec![];
    for k in 0..m { ring.push((k as f64, 0.0)); }
    for k in 0..m { ring.push((m as f64, k as f64)); }
    for k in 0..m { ring.push(((m - k) as f64, m as f64)); }
    for k in 0..m { ring.push((0.0, (m - k) as f64)); }
    let mut v: Vec<Point2> = (0..4 * m).map(|i| { let q = ring[(i + start) % (4 * m)]; Point2::new(q.0 * f, q.1 * f) }).collect();
    if repeat { v.push(v[0]); }
    v
}

/// LONG curves, uniform and not, and curves with edges shorter than 1e-6: see the header
fn long_curves(r: &mut Report) {
    let scales = [1.0, 0.1, 2f64.powi(-20)];
    for &n in [31usize, 32, 33, 64, 100, 128].iter() {
        for &f in scales.iter() {
            let tol = 1e-6 * f;
            // uniform: unit staircase, straight run, 3-4-5 zig-zag (edge length 5), diagonal staircase with a flat step
            check_curve2_tol(r, &chain2(n, &[(1.0, 0.0), (0.0, 1.0)], f), false, tol);
            check_curve2_tol(r, &chain2(n, &[(1.0, 0.0)], f), false, tol);
            check_curve2_tol(r, &chain2(n, &[(3.0, 4.0), (3.0, -4.0)], f), false, tol);
            check_curve2_tol(r, &chain2(n, &[(3.0, 4.0), (5.0, 0.0), (4.0, -3.0), (0.0, 5.0)], f), false, tol);
            // uniform, force-closed by a closing edge of a different length
            check_curve2_tol(r, &chain2(n, &[(1.0, 0.0), (0.0, 1.0)], f), true, tol);
            // non-uniform: lengths 1,2,1,2,..; one long last edge; one long first edge
            check_curve2_tol(r, &chain2(n, &[(1.0, 0.0), (0.0, 2.0)], f), false, tol);
            let mut tail = chain2(n - 1, &[(1.0, 0.0), (0.0, 1.0)], f); let e = *tail.last().unwrap(); tail.push(Point2::new(e.x + 40.0 * f, e.y));
            check_curve2_tol(r, &tail, false, tol);
            let mut head = vec![Point2::new(-40.0 * f, 0.0)]; head.extend(chain2(n - 1, &[(0.0, 1.0), (1.0, 0.0)], f));
            check_curve2_tol(r, &head, false, tol);
            // 3D
            check_curve3_tol(r, &chain3(n, &[(1.0, 0.0, 0.0), (0.0, 1.0, 0.0), (0.0, 0.0, 1.0)], f), tol);
            check_curve3_tol(r, &chain3(n, &[(1.0, 2.0, 2.0), (2.0, -1.0, 2.0)], f), tol);
            check_curve3_tol(r, &chain3(n, &[(1.0, 0.0, 0.0), (0.0, 2.0, 0.0), (0.0, 0.0, 1.0)], f), tol);
        }
    }
    // very long: 257 and 1000 edges, uniform staircase / non-uniform, 2D and 3D
    for &n in [257usize, 1000].iter() {
        check_curve2_tol(r, &chain2(n, &[(1.0, 0.0), (0.0, 1.0)], 1.0), false, 1e-6);
        check_curve2_tol(r, &chain2(n, &[(1.0, 0.0), (0.0, 1.0)], 0.1), true, 1e-7);
        check_curve2_tol(r, &chain2(n, &[(3.0, 4.0), (5.0, 0.0), (8.0, -6.0)], 1.0), false, 1e-6);
        check_curve3_tol(r, &chain3(n, &[(1.0, 0.0, 0.0), (0.0, 1.0, 0.0), (0.0, 0.0, 1.0)], 1.0), 1e-6);
    }
    // closed square loops with 8, 16, 25, 32 unit edges per side, naturally closed and force-closed, the seam at a corner
    // and inside a side
    for &m in [8usize, 16, 25, 32].iter() { for &f in scales.iter() { for start in [0usize, 3] {
        check_curve2_tol(r, &loop2(m, true, f, start), false, 1e-6 * f);
        check_curve2_tol(r, &loop2(m, false, f, start), true, 1e-6 * f);
    } } }
    // edges shorter than 1e-6 with a tolerance below that: 1300 edges of length 5 * 2^-23 (2D) / 13 * 2^-24 (3D), bent
    let h2 = 2f64.powi(-23);
    let mut steps2 = vec![];
    for k in 0..1300 { steps2.push(match (k / 100) % 3 { 0 => (3.0, 4.0), 1 => (4.0, -3.0), _ => (5.0, 0.0) }); }
    check_curve2_tol(r, &chain2(1300, &steps2, h2), false, 1e-9);
    let h3 = 2f64.powi(-24);
    let mut steps3 = vec![];
    for k in 0..1300 { steps3.push(match (k / 100) % 3 { 0 => (3.0, 4.0, 12.0), 1 => (12.0, 3.0, -4.0), _ => (4.0, -12.0, 3.0) }); }
    check_curve3_tol(r, &chain3(1300, &steps3, h3), 1e-9);
    // a unit-size curve with a locally dense stretch (64 edges of length 5 * 2^-23) in its middle
    let mut d2v = vec![Point2::new(-1.0, 0.0)];
    d2v.extend(chain2(64, &[(3.0, 4.0), (4.0, 3.0)], h2));
    let e = *d2v.last().unwrap(); d2v.push(Point2::new(e.x, e.y + 1.0));
    check_curve2_tol(r, &d2v, false, 1e-9);
    let mut d3v = vec![Point3::new(-1.0, 0.0, 0.0)];
    d3v.extend(chain3(64, &[(3.0, 4.0, 12.0), (4.0, 12.0, 3.0)], h3));
    let e = *d3v.last().unwrap(); d3v.push(Point3::new(e.x, e.y, e.z + 1.0));
    check_curve3_tol(r, &d3v, 1e-9);
}

/// WAVE 5 families: magnitudes (far / tiny / long / edge ratios), tolerance relations, shape classes; see the header
fn wave5_families(r: &mut Report) {
    // (5) shape classes: every 5-vertex sequence over the 3x2 grid (two interior vertices next to each other: hairpins,
    // collinear runs, self-touching), every 4-vertex sequence over the unit cube
    let g6: Vec<Point2> = (0..6).map(|k| Point2::new((k % 3) as f64, (k / 3) as f64)).collect();
    for code in 0..6usize.pow(5) {
        let pts: Vec<Point2> = (0..5).map(|p| g6[(code / 6usize.pow(p)) % 6]).collect();
        for fc in [false, true] { check_curve2(r, &pts, fc); }
    }
    let g3: Vec<Point3> = (0..8).map(|k| Point3::new((k % 2) as f64, ((k / 2) % 2) as f64, (k / 4) as f64)).collect();
    for code in 0..8usize.pow(4) {
        let pts: Vec<Point3> = (0..4).map(|p| g3[(code / 8usize.pow(p)) % 8]).collect();
        check_curve3(r, &pts);
    }
    // asymmetric integer shapes (edge lengths all different; sharp turn; collinear run; exactly closed; closing edge of
    // its own length when force-closed)
    let shapes2: Vec<Vec<(f64, f64)>> = vec![
        vec![(0.0, 0.0), (3.0, 4.0), (3.0, 10.0), (11.0, 4.0)],
        vec![(0.0, 0.0), (4.0, 0.0), (4.0, 3.0), (0.0, 0.0)],
        vec![(0.0, 0.0), (8.0, 0.0), (8.0, 6.0), (3.0, 6.0)],
        vec![(0.0, 0.0), (5.0, 0.0), (2.0, 1.0), (2.0, 7.0)],
        vec![(0.0, 0.0), (1.0, 0.0), (3.0, 0.0), (7.0, 0.0), (7.0, 1.0)],
        vec![(0.0, 0.0), (12.0, 5.0)],
        vec![(2.0, 1.0), (5.0, 5.0), (5.0, -7.0), (0.0, 5.0), (-3.0, 1.0), (2.0, 1.0)],
    ];
    let shapes3: Vec<Vec<(f64, f64, f64)>> = vec![
        vec![(0.0, 0.0, 0.0), (3.0, 4.0, 12.0), (3.0, 4.0, 2.0), (15.0, 1.0, 6.0)],
        vec![(0.0, 0.0, 0.0), (1.0, 2.0, 2.0), (1.0, 2.0, 9.0), (0.0, 0.0, 0.0)],
        vec![(0.0, 0.0, 0.0), (2.0, 0.0, 0.0), (5.0, 0.0, 0.0), (5.0, 0.0, 1.0), (1.0, 0.0, 1.0)],
        vec![(0.0, 0.0, 0.0), (2.0, 3.0, 6.0)],
        vec![(1.0, 1.0, 1.0), (5.0, 1.0, 4.0), (5.0, 13.0, -1.0), (3.0, 7.0, -4.0), (1.0, 1.0, 1.0), (1.0, 1.0, 8.0)],
    ];
    // (1) far from the origin: exact (integer offset + integer shape) and inexact (0.1-scaled shape) coordinates
    let offs2 = [(0.0, 0.0), (1e3, -1e3), (1e5, 3e5), (1e8, 1e8), (-1e8, 2e7), (1073741824.0, -7.0)];
    for sh in shapes2.iter() { for &(ox, oy) in offs2.iter() { for &f in [1.0, 0.1].iter() {
        let pts: Vec<Point2> = sh.iter().map(|q| Point2::new(ox + q.0 * f, oy + q.1 * f)).collect();
        for fc in [false, true] { check_curve2_tol(r, &pts, fc, 1e-6); }
    } } }
    let offs3 = [(0.0, 0.0, 0.0), (1e3, -1e3, 1e3), (1e5, 3e5, -2e5), (1e8, 1e8, -1e8), (-1e8, 2e7, 5.0), (3.0, 1073741824.0, -7.0)];
    for sh in shapes3.iter() { for &(ox, oy, oz) in offs3.iter() { for &f in [1.0, 0.1].iter() {
        let pts: Vec<Point3> = sh.iter().map(|q| Point3::new(ox + q.0 * f, oy + q.1 * f, oz + q.2 * f)).collect();
        check_curve3_tol(r, &pts, 1e-6);
    } } }
    // (1) tiny extents, with tolerance 0 and a tolerance scaled with the curve
    for &f in [1e-6, 1e-9, 2f64.powi(-30), 1e-10, 1e-12].iter() { for &tol in [0.0, 1e-3 * f].iter() {
        for sh in shapes2.iter() {
            let pts: Vec<Point2> = sh.iter().map(|q| Point2::new(q.0 * f, q.1 * f)).collect();
            for fc in [false, true] { check_curve2_tol(r, &pts, fc, tol); }
        }
        for sh in shapes3.iter() {
            let pts: Vec<Point3> = sh.iter().map(|q| Point3::new(q.0 * f, q.1 * f, q.2 * f)).collect();
            check_curve3_tol(r, &pts, tol);
        }
    } }
    // (1) edge-length ratios: 1000 / 0.001 alternating; one 1e6 edge followed by (and preceded by) edges of length 5e-3 / 1.3e-2
    check_curve2_tol(r, &chain2(12, &[(1000.0, 0.0), (0.0, 0.001)], 1.0), false, 1e-6);
    check_curve2_tol(r, &chain2(12, &[(1000.0, 0.0), (0.0, 0.001)], 1.0), true, 1e-6);
    let mut steps = vec![(1e6, 0.0)]; for k in 0..24 { steps.push(if k % 2 == 0 { (3e-3, 4e-3) } else { (4e-3, -3e-3) }); }
    check_curve2_tol(r, &chain2(25, &steps, 1.0), false, 1e-6);
    let mut rev = chain2(25, &steps, 1.0); rev.reverse();
    check_curve2_tol(r, &rev, false, 1e-6); check_curve2_tol(r, &rev, true, 1e-6);
    check_curve3_tol(r, &chain3(12, &[(1000.0, 0.0, 0.0), (0.0, 0.001, 0.0), (0.0, 0.0, 1.0)], 1.0), 1e-6);
    let mut steps = vec![(6e5, 0.0, 8e5)]; for k in 0..24 { steps.push(if k % 2 == 0 { (3e-3, 4e-3, 12e-3) } else { (12e-3, -3e-3, 4e-3) }); }
    check_curve3_tol(r, &chain3(25, &steps, 1.0), 1e-6);
    let mut rev = chain3(25, &steps, 1.0); rev.reverse();
    check_curve3_tol(r, &rev, 1e-6);
    // short asymmetric chains, 2..=8 vertices, open and force-closed
    for n in 1..=7usize {
        check_curve2_tol(r, &chain2(n, &[(3.0, 4.0), (0.0, -1.0), (12.0, 5.0), (-2.0, 0.0)], 1.0), false, 1e-6);
        check_curve2_tol(r, &chain2(n, &[(3.0, 4.0), (0.0, -1.0), (12.0, 5.0), (-2.0, 0.0)], 0.1), true, 1e-6);
        check_curve3_tol(r, &chain3(n, &[(3.0, 4.0, 12.0), (0.0, -1.0, 0.0), (1.0, 2.0, 2.0), (0.0, 0.0, -7.0)], 1.0), 1e-6);
        check_curve3_tol(r, &chain3(n, &[(3.0, 4.0, 12.0), (0.0, -1.0, 0.0), (1.0, 2.0, 2.0), (0.0, 0.0, -7.0)], 0.1), 0.0);
    }
    // (1) very long: 2048, 4096, 4097, 5000 edges, uniform (a direct edge guess is right) and non-uniform, 2D and 3D
    for &n in [2048usize, 4096, 4097, 5000].iter() {
        check_curve2_tol(r, &chain2(n, &[(1.0, 0.0), (0.0, 1.0)], 1.0), false, 1e-6);
        check_curve2_tol(r, &chain2(n, &[(3.0, 4.0), (5.0, 0.0), (4.0, -3.0)], 0.1), false, 1e-7);
        check_curve2_tol(r, &chain2(n, &[(1.0, 0.0), (0.0, 2.0), (3.0, 4.0)], 1.0), true, 1e-6);
        check_curve3_tol(r, &chain3(n, &[(1.0, 0.0, 0.0), (0.0, 1.0, 0.0), (0.0, 0.0, 1.0)], 1.0), 1e-6);
        check_curve3_tol(r, &chain3(n, &[(1.0, 2.0, 2.0), (2.0, -1.0, 2.0), (2.0, 2.0, -1.0)], 0.1), 1e-7);
        check_curve3_tol(r, &chain3(n, &[(1.0, 0.0, 0.0), (0.0, 2.0, 0.0), (3.0, 4.0, 12.0)], 1.0), 1e-6);
    }
    check_curve2_tol(r, &loop2(1100, true, 1.0, 0), false, 1e-6);
    check_curve2_tol(r, &loop2(1100, false, 1.0, 7), true, 1e-6);
    // (2) tolerance relations
    // tol = 0 and the input exactly closed / not closed, force-closed or not
    let tri = vec![Point2::new(0.0, 0.0), Point2::new(4.0, 0.0), Point2::new(4.0, 3.0), Point2::new(0.0, 0.0)];
    for fc in [false, true] { check_curve2_tol(r, &tri, fc, 0.0); check_curve2_tol(r, &tri[..3], fc, 0.0); }
    // a tolerance larger than some edges: de-duplication eats vertices (each point is compared with the last one kept)
    let run2: Vec<Point2> = (0..12).map(|k| Point2::new(0.3 * k as f64, if k >= 8 { 2.0 } else { 0.0 })).collect();
    for fc in [false, true] { for tol in [0.5, 0.25, 0.3, 1.0] { check_curve2_tol(r, &run2, fc, tol); } }
    let run3: Vec<Point3> = (0..12).map(|k| Point3::new(0.3 * k as f64, if k >= 8 { 2.0 } else { 0.0 }, if k >= 4 { -3.0 } else { 0.0 })).collect();
    for tol in [0.5, 0.25, 0.3, 1.0] { check_curve3_tol(r, &run3, tol); }
    // closed WITHIN tolerance (gap 0.0625 <= tol 0.125, not identical), and the same gap just above a finer tolerance
    // (open; force-closing adds a short closing edge next to long ones)
    let near = vec![Point2::new(0.0, 0.0), Point2::new(4.0, 0.0), Point2::new(4.0, 3.0), Point2::new(1.0, 5.0), Point2::new(0.0, 0.0625)];
    for fc in [false, true] { for tol in [0.125, 0.0625, 0.03125, 1e-6, 0.0] { check_curve2_tol(r, &near, fc, tol); } }
    let near2 = vec![Point2::new(0.0, 0.0), Point2::new(4.0, 0.0), Point2::new(4.0, 3.0), Point2::new(1.0, 5.0), Point2::new(0.0, 1.5e-6)];
    for fc in [false, true] { check_curve2_tol(r, &near2, fc, 1e-6); check_curve2_tol(r, &near2, fc, 2e-6); }
    // 3D has no closed flag: a first/last pair within tolerance stays an ordinary open curve
    let near3 = vec![Point3::new(0.0, 0.0, 0.0), Point3::new(4.0, 0.0, 0.0), Point3::new(4.0, 3.0, 0.0), Point3::new(1.0, 5.0, 2.0), Point3::new(0.0, 0.0625, 0.0)];
    for tol in [0.125, 0.0625, 0.03125, 1e-6, 0.0] { check_curve3_tol(r, &near3, tol); }
}
