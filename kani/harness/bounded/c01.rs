//! C01 bounded: station consistency on every polyline with 2..=4 vertices on the integer grid {0,1,2}^2 (2D) and a
//! fixed family of 3D polylines, open / naturally closed / force-closed, for l at every stored vertex length, every
//! edge midpoint and quarter point, 0, L, and just outside [0, L].
//! LONG curves (31, 32, 33, 64, 100, 128 edges, a few with 257 and 1000; 2D and 3D): uniform edge lengths (unit staircase, straight run, 3-4-5
//! zig-zag, closed / force-closed square loops), the same scaled by 0.1 and 2^-20 (inexact cumulative lengths), and
//! non-uniform ones (edge lengths 1,2,1,2,.. / one long last edge / one long first edge), probed exactly at EVERY stored
//! vertex length: the station at an interior vertex (2D) must carry the normalised sum of the adjacent edge directions
//! and equal the by-vertex / iterated station.  TINY edges: curves of total length ~1e-3 with ~1300 edges shorter than
//! 1e-6 (tolerance 1e-9): directions parallel to the edge, points reproduced within 1e-9 * extent.
use super::{close, Report};
use crate::geom2::{Curve2, Point2};
use crate::geom3::{Curve3, Point3};

fn lerp2(a: &Point2, b: &Point2, f: f64) -> Point2 { Point2::new(a.x + (b.x - a.x) * f, a.y + (b.y - a.y) * f) }
fn lerp3(a: &Point3, b: &Point3, f: f64) -> Point3 { Point3::new(a.x + (b.x - a.x) * f, a.y + (b.y - a.y) * f, a.z + (b.z - a.z) * f) }

fn unit2(a: &Point2, b: &Point2) -> (f64, f64) { let d = ((b.x - a.x).powi(2) + (b.y - a.y).powi(2)).sqrt(); ((b.x - a.x) / d, (b.y - a.y) / d) }
/// is l a stored vertex length whose adjacent edge directions cancel?
fn doubles_back(v: &[Point2], closed: bool, l: f64, ls: &[f64]) -> bool {
    let n = v.len();
    for k in 0..n {
        if ls[k] != l { continue; }
        let (e0, e1) = if closed && (k == 0 || k == n - 1) { (0, n - 2) } else if k == 0 || k == n - 1 { return false } else { (k - 1, k) };
        let a = unit2(&v[e0], &v[e0 + 1]);
        let b = unit2(&v[e1], &v[e1 + 1]);
        if (a.0 + b.0).abs() < 1e-12 && (a.1 + b.1).abs() < 1e-12 { return true; }
    }
    false
}

/// vertex list for a failure message: in full up to 40 points; longer lists (the generated LONG families, whose edge
/// vectors repeat cyclically) as their first 10 points and the total count
fn show(pts: &[Vec<f64>]) -> String {
    let one = |q: &Vec<f64>| format!("({})", q.iter().map(|x| format!("{:?}", x)).collect::<Vec<_>>().join(", "));
    let list = |l: &[Vec<f64>]| l.iter().map(one).collect::<Vec<_>>().join(", ");
    if pts.len() <= 40 { format!("[{}]", list(pts)) } else { format!("[{}, .. {} points in all (edge vectors repeat cyclically, see long_curves), last point {}]", list(&pts[..10]), pts.len(), one(&pts[pts.len() - 1])) }
}

fn check_curve2(r: &mut Report, pts: &[Point2], force_closed: bool) { check_curve2_tol(r, pts, force_closed, 1e-6) }
fn check_curve2_tol(r: &mut Report, pts: &[Point2], force_closed: bool, tol: f64) {
    let c = match Curve2::from_points(pts, tol, force_closed) { Ok(c) => c, Err(_) => return };
    r.case();
    let desc = || format!("Curve2::from_points({}, tol={:?}, force_closed={})", show(&pts.iter().map(|p| vec![p.x, p.y]).collect::<Vec<_>>()), tol, force_closed);
    let v = c.points().to_vec();
    let n = v.len();
    let ls = c.lengths().clone();
    // point comparisons: relative to the extent of the curve when that is below one unit
    let ext = v.iter().fold(0.0f64, |m, q| m.max(q.x.abs()).max(q.y.abs()));
    let cp = |a: f64, b: f64| if ext < 1.0 { (a - b).abs() <= 1e-9 * ext } else { close(a, b) };
    // cumulative lengths: start at 0, increase by exactly the edge lengths, end at the sum of edge lengths
    r.check(ls.len() == n && ls[0] == 0.0, "lengths start at 0 and match the vertex count", desc);
    let mut sum = 0.0;
    for i in 0..n - 1 {
        let d = ((v[i + 1].x - v[i].x).powi(2) + (v[i + 1].y - v[i].y).powi(2)).sqrt();
        sum += d;
        r.check(close(ls[i + 1] - ls[i], d) && ls[i + 1] > ls[i], "length increments equal edge lengths", desc);
    }
    r.check(close(c.length(), sum), "total length is the sum of edge lengths", desc);
    let dfl = ((v[0].x - v[n - 1].x).powi(2) + (v[0].y - v[n - 1].y).powi(2)).sqrt();
    r.check(c.is_closed() == (dfl <= tol), "closed flag <=> first and last vertex within tol", desc);
    if force_closed { r.check(c.is_closed(), "force-closed curve is closed", desc); }
    // stations
    let total = c.length();
    let mut probes: Vec<f64> = vec![0.0, total];
    for i in 0..n - 1 { for f in [0.0, 0.25, 0.5, 1.0] { probes.push(ls[i] + (ls[i + 1] - ls[i]) * f); } }
    // just off a stored vertex length (well inside the curve tolerance, and one ulp either side): still an edge station
    for i in 0..n { for d in [tol * 0.25, -tol * 0.25, ls[i] * f64::EPSILON, -ls[i] * f64::EPSILON] { let l = ls[i] + d; if l > 0.0 && l < total { probes.push(l); } } }
    for &l in probes.iter() {
        let d2 = || format!("{} at_length({:?})", desc(), l);
        match c.at_length(l) {
            None => r.check(false, "a length inside [0, L] yields a station", d2),
            Some(s) => {
                r.check(s.index() + 1 < n, "edge index in range", d2);
                r.check(s.fraction() >= 0.0 && s.fraction() <= 1.0, "fraction in [0,1]", d2);
                r.check(close(s.length_along(), l), "length_along == l", d2);
                if !ls.iter().any(|x| *x == l) && s.index() + 1 < n {
                    // not a stored vertex length: the station lies strictly inside the edge that contains l
                    r.check(ls[s.index()] < l && l < ls[s.index() + 1], "a length that is not a stored vertex length lies strictly inside its edge", d2);
                    r.check((s.length_along() - l).abs() <= 4.0 * f64::EPSILON * (1.0 + l.abs()), "length_along == l to rounding (no snapping to a nearby vertex)", d2);
                    let e = unit2(&v[s.index()], &v[s.index() + 1]);
                    r.check(close(s.direction().x, e.0) && close(s.direction().y, e.1), "direction parallel to the edge the station lies on", d2);
                }
                if s.index() + 1 < n {
                    let p = lerp2(&v[s.index()], &v[s.index() + 1], s.fraction());
                    r.check(cp(p.x, s.point().x) && cp(p.y, s.point().y), "index+fraction reproduce the point", d2);
                    // lies on the curve: on the edge that contains l, at the arc length l - l[index] from its start
                    let e = unit2(&v[s.index()], &v[s.index() + 1]);
                    let q = Point2::new(v[s.index()].x + e.0 * (l - ls[s.index()]), v[s.index()].y + e.1 * (l - ls[s.index()]));
                    r.check(cp(q.x, s.point().x) && cp(q.y, s.point().y), "the station lies on the curve at arc length l (start of its edge + unit edge direction * (l - l[index]))", d2);
                }
                // the same place by fraction
                if total > 0.0 {
                    if let Some(s2) = c.at_fraction(l / total) {
                        r.check(cp(s2.point().x, s.point().x) && cp(s2.point().y, s.point().y), "at_fraction(l/L) gives the same point", d2);
                    } else if l / total * total <= total { r.check(false, "at_fraction(l/L) yields a station", d2); }
                }
                let dn = (s.direction().x.powi(2) + s.direction().y.powi(2)).sqrt();
                // a vertex whose two adjacent edges are exactly anti-parallel (the curve doubles back) has no
                // "normalised sum of the two adjacent edge directions": reported under its own name
                if doubles_back(&v, c.is_closed(), l, &ls) {
                    r.check(close(dn, 1.0), "unit direction at a doubled-back vertex (adjacent edges anti-parallel: the sum of the edge directions is the zero vector)", d2);
                } else {
                    r.check(close(dn, 1.0), "unit direction", d2);
                }
            }
        }
    }
    // by vertex index / by iteration: the station at a stored vertex length is that vertex
    let stations: Vec<_> = c.iter().collect();
    r.check(stations.len() == n, "iteration yields one station per vertex", desc);
    for (k, st) in stations.iter().enumerate() {
        let d3 = || format!("{} vertex {}", desc(), k);
        r.check(st.point() == v[k], "iterated station k is vertex k", d3);
        r.check(close(st.length_along(), ls[k]), "iterated station k has the stored length", d3);
        if let Some(s) = c.at_length(ls[k]) {
            r.check(s.index() == st.index() && s.fraction() == st.fraction(), "at_length(stored length k) == station of vertex k (index, fraction)", d3);
            if !doubles_back(&v, c.is_closed(), ls[k], &ls) {
                r.check(close(s.direction().x, st.direction().x) && close(s.direction().y, st.direction().y), "same direction by length and by vertex", d3);
            }
            let (ei, ef) = if k == n - 1 { (k - 1, 1.0) } else { (k, 0.0) };
            r.check(s.index() == ei && s.fraction() == ef, "vertex station is (k, 0.0), last vertex (n-2, 1.0)", d3);
            r.check(s.point() == v[k], "station at a stored vertex length is that vertex", d3);
            // the direction the statement prescribes, computed from the vertices alone
            if !doubles_back(&v, c.is_closed(), ls[k], &ls) {
                let seam = c.is_closed() && (k == 0 || k == n - 1);
                let want = if seam || (k > 0 && k < n - 1) {
                    let (e0, e1) = if seam { (n - 2, 0) } else { (k - 1, k) };
                    let (a, b) = (unit2(&v[e0], &v[e0 + 1]), unit2(&v[e1], &v[e1 + 1]));
                    let m = ((a.0 + b.0).powi(2) + (a.1 + b.1).powi(2)).sqrt();
                    ((a.0 + b.0) / m, (a.1 + b.1) / m)
                } else if k == 0 { unit2(&v[0], &v[1]) } else { unit2(&v[n - 2], &v[n - 1]) };
                r.check(close(s.direction().x, want.0) && close(s.direction().y, want.1), "at_length(stored vertex length): direction is the normalised sum of the two adjacent edge directions at an interior vertex / closed seam, the edge direction at an open end", d3);
                r.check(close(st.direction().x, want.0) && close(st.direction().y, want.1), "iterated vertex station: direction is the normalised sum of the two adjacent edge directions at an interior vertex / closed seam, the edge direction at an open end", d3);
            }
        } else { r.check(false, "stored vertex length yields a station", d3); }
    }
    // outside [0, L]: no station (no clamping / extrapolation)
    for l in [-1e-9, -f64::MIN_POSITIVE, total + 1e-9, total * (1.0 + 4.0 * f64::EPSILON) + f64::MIN_POSITIVE, -1.0, total + 1.0] {
        r.check(c.at_length(l).is_none(), "a length outside [0, L] yields no station", || format!("{} at_length({:?})", desc(), l));
    }
}

fn check_curve3(r: &mut Report, pts: &[Point3]) { check_curve3_tol(r, pts, 1e-6) }
fn check_curve3_tol(r: &mut Report, pts: &[Point3], tol: f64) {
    let c = match Curve3::from_points(pts, tol) { Ok(c) => c, Err(_) => return };
    r.case();
    let desc = || format!("Curve3::from_points({}, tol={:?})", show(&pts.iter().map(|p| vec![p.x, p.y, p.z]).collect::<Vec<_>>()), tol);
    let v = c.points().to_vec();
    let n = v.len();
    let ls = c.lengths().to_vec();
    let ext = v.iter().fold(0.0f64, |m, q| m.max(q.x.abs()).max(q.y.abs()).max(q.z.abs()));
    let cp = |a: f64, b: f64| if ext < 1.0 { (a - b).abs() <= 1e-9 * ext } else { close(a, b) };
    r.check(ls.len() == n && ls[0] == 0.0, "lengths start at 0 and match the vertex count", desc);
    let mut sum = 0.0;
    for i in 0..n - 1 {
        let d = ((v[i + 1].x - v[i].x).powi(2) + (v[i + 1].y - v[i].y).powi(2) + (v[i + 1].z - v[i].z).powi(2)).sqrt();
        sum += d;
        r.check(close(ls[i + 1] - ls[i], d) && ls[i + 1] > ls[i], "length increments equal edge lengths", desc);
    }
    r.check(close(c.length(), sum), "total length is the sum of edge lengths", desc);
    let total = c.length();
    for k in 0..n {
        let d3 = || format!("{} vertex {}", desc(), k);
        if let Some(s) = c.at_length(ls[k]) {
            let (ei, ef) = if k == n - 1 { (k - 1, 1.0) } else { (k, 0.0) };
            r.check(s.index() == ei && s.fraction() == ef, "vertex station is (k, 0.0), last vertex (n-2, 1.0)", d3);
            r.check(s.point() == v[k], "station at a stored vertex length is that vertex", d3);
            // direction = direction of edge `index` for k < n-1
            let e = if k == n - 1 { k - 1 } else { k };
            let dv = v[e + 1] - v[e];
            let dn = dv / dv.norm();
            r.check(close(s.direction().x, dn.x) && close(s.direction().y, dn.y) && close(s.direction().z, dn.z), "vertex direction parallel to its edge", d3);
        } else { r.check(false, "stored vertex length yields a station", d3); }
    }
    let mut probes3: Vec<f64> = vec![];
    for i in 0..n - 1 { for f in [0.25, 0.5] { probes3.push(ls[i] + (ls[i + 1] - ls[i]) * f); } }
    for i in 0..n { for d in [tol * 0.25, -tol * 0.25, ls[i] * f64::EPSILON, -ls[i] * f64::EPSILON] { let l = ls[i] + d; if l > 0.0 && l < total && !ls.iter().any(|x| *x == l) { probes3.push(l); } } }
    for &l in probes3.iter() {
        let d2 = || format!("{} at_length({:?})", desc(), l);
        if let Some(s) = c.at_length(l) {
            r.check(close(s.length_along(), l), "length_along == l", d2);
            if s.index() + 1 < n {
                r.check(ls[s.index()] < l && l < ls[s.index() + 1], "a length that is not a stored vertex length lies strictly inside its edge", d2);
                r.check((s.length_along() - l).abs() <= 4.0 * f64::EPSILON * (1.0 + l.abs()), "length_along == l to rounding (no snapping to a nearby vertex)", d2);
                let dv = v[s.index() + 1] - v[s.index()];
                let dn = dv / dv.norm();
                r.check(close(s.direction().x, dn.x) && close(s.direction().y, dn.y) && close(s.direction().z, dn.z), "direction parallel to the edge the station lies on", d2);
            }
            if s.index() + 1 < n {
                let p = lerp3(&v[s.index()], &v[s.index() + 1], s.fraction());
                r.check(cp(p.x, s.point().x) && cp(p.y, s.point().y) && cp(p.z, s.point().z), "index+fraction reproduce the point", d2);
                let dv = v[s.index() + 1] - v[s.index()];
                let q = v[s.index()] + dv / dv.norm() * (l - ls[s.index()]);
                r.check(cp(q.x, s.point().x) && cp(q.y, s.point().y) && cp(q.z, s.point().z), "the station lies on the curve at arc length l (start of its edge + unit edge direction * (l - l[index]))", d2);
            }
        } else { r.check(false, "a length inside [0, L] yields a station", d2); }
    }
    for l in [-1e-9, total + 1e-9, -1.0, total + 1.0] {
        r.check(c.at_length(l).is_none(), "a length outside [0, L] yields no station", || format!("{} at_length({:?})", desc(), l));
    }
    let mut k = 0;
    for st in c.iter() {
        if let Some(s) = c.at_length(ls[k]) {
            r.check(s.index() == st.index() && s.fraction() == st.fraction() && s.point() == st.point()
                && close(s.direction().x, st.direction().x) && close(s.direction().y, st.direction().y) && close(s.direction().z, st.direction().z),
                "at_length(stored length k) == iterated station k (index, fraction, point, direction)", || format!("{} vertex {}", desc(), k));
        }
        r.check(close(st.length_along(), ls[k]), "iterated station k has the stored length", desc);
        r.check(st.point() == v[k], "iterated station k is vertex k", desc);
        let dn = (st.direction().x.powi(2) + st.direction().y.powi(2) + st.direction().z.powi(2)).sqrt();
        r.check(close(dn, 1.0), "unit direction (3D vertex station)", desc);
        k += 1;
    }
    r.check(k == n, "iteration yields one station per vertex", desc);
}

pub fn run() -> Report {
    let mut r = Report::new("2D: all vertex sequences of length 2..=4 over the 3x3 integer grid (x force_closed in {false,true}), plus sequences with near-duplicate points (gap 1e-7 < tol); 3D: 2..=3 vertices over {0,1}^3 plus near-duplicates; probe lengths: 0, L, every vertex length, quarter/half points of every edge, and 6 values outside [0, L]; LONG curves with 31, 32, 33, 64, 100, 128 edges (2D: 8 families uniform / non-uniform, open and force-closed; 3D: 3 families) x scales 1, 0.1, 2^-20, closed square loops with 32..128 edges (seam at a corner / inside a side), 4 families with 257 and 1000 edges, probed at EVERY stored vertex length; curves of ~1300 edges shorter than 1e-6 (total length ~1e-3, tol 1e-9) and unit-size curves with a dense stretch of such edges");
    let grid: Vec<Point2> = (0..9).map(|k| Point2::new((k % 3) as f64, (k / 3) as f64)).collect();
    for len in 2..=4usize {
        let mut idx = vec![0usize; len];
        loop {
            let pts: Vec<Point2> = idx.iter().map(|&i| grid[i]).collect();
            for fc in [false, true] { check_curve2(&mut r, &pts, fc); }
            // odometer
            let mut p = 0;
            loop { idx[p] += 1; if idx[p] < 9 { break; } idx[p] = 0; p += 1; if p == len { break; } }
            if p == len { break; }
        }
    }
    // near-duplicates (closer than tol but not identical) and a gap exactly equal to tol
    let nd = vec![Point2::new(0.0, 0.0), Point2::new(1.0, 0.0), Point2::new(1.0 + 1e-7, 0.0), Point2::new(1.0, 1.0), Point2::new(1e-7, 1e-7)];
    check_curve2(&mut r, &nd, false); check_curve2(&mut r, &nd, true);
    let eq = vec![Point2::new(0.0, 0.0), Point2::new(2.0, 0.0), Point2::new(2.0, 2.0), Point2::new(0.0, 1e-6)];
    check_curve2(&mut r, &eq, false);
    // tolerance exactly 0 with exactly repeated points; a coarse tolerance
    let dup2 = vec![Point2::new(0.0, 0.0), Point2::new(1.0, 0.0), Point2::new(1.0, 0.0), Point2::new(1.0, 2.0), Point2::new(1.0, 2.0)];
    check_curve2_tol(&mut r, &dup2, false, 0.0); check_curve2_tol(&mut r, &dup2, true, 0.0);
    check_curve2_tol(&mut r, &grid[..5].to_vec(), false, 0.25); check_curve2_tol(&mut r, &[grid[0], grid[1], grid[4], grid[3]], true, 0.25);
    let g3: Vec<Point3> = (0..8).map(|k| Point3::new((k % 2) as f64, ((k / 2) % 2) as f64, (k / 4) as f64)).collect();
    for a in 0..8 { for b in 0..8 { check_curve3(&mut r, &[g3[a], g3[b]]); for c in 0..8 { check_curve3(&mut r, &[g3[a], g3[b], g3[c]]); } } }
    let nd3 = vec![Point3::new(0.0, 0.0, 0.0), Point3::new(1.0, 0.0, 0.0), Point3::new(1.0 + 1e-7, 0.0, 0.0), Point3::new(1.0, 2.0, 0.0), Point3::new(1.0, 2.0, 1e-7), Point3::new(1.0, 2.0, 2.0)];
    check_curve3(&mut r, &nd3);
    let dup3 = vec![Point3::new(0.0, 0.0, 0.0), Point3::new(1.0, 0.0, 0.0), Point3::new(1.0, 0.0, 0.0), Point3::new(1.0, 2.0, 0.0), Point3::new(1.0, 2.0, 0.0), Point3::new(1.0, 2.0, 2.0)];
    check_curve3_tol(&mut r, &dup3, 0.0);
    check_curve3_tol(&mut r, &[g3[0], g3[1], g3[3], g3[7]], 0.25);
    long_curves(&mut r);
    r
}

/// polyline from a start point and a cyclic list of edge vectors, `n` edges, every coordinate multiplied by `f`
fn chain2(n: usize, steps: &[(f64, f64)], f: f64) -> Vec<Point2> {
    let (mut x, mut y) = (0.0, 0.0);
    let mut v = vec![Point2::new(0.0, 0.0)];
    for k in 0..n { x += steps[k % steps.len()].0; y += steps[k % steps.len()].1; v.push(Point2::new(x * f, y * f)); }
    v
}
fn chain3(n: usize, steps: &[(f64, f64, f64)], f: f64) -> Vec<Point3> {
    let (mut x, mut y, mut z) = (0.0, 0.0, 0.0);
    let mut v = vec![Point3::new(0.0, 0.0, 0.0)];
    for k in 0..n { let s = steps[k % steps.len()]; x += s.0; y += s.1; z += s.2; v.push(Point3::new(x * f, y * f, z * f)); }
    v
}
/// square loop with m unit edges per side (4m edges), first vertex repeated at the end when `repeat`
fn loop2(m: usize, repeat: bool, f: f64, start: usize) -> Vec<Point2> {
    let mut ring = vec![];
    for k in 0..m { ring.push((k as f64, 0.0)); }
    for k in 0..m { ring.push((m as f64, k as f64)); }
    for k in 0..m { ring.push(((m - k) as f64, m as f64)); }
    for k in 0..m { ring.push((0.0, (m - k) as f64)); }
    let mut v: Vec<Point2> = (0..4 * m).map(|i| { let q = ring[(i + start) % (4 * m)]; Point2::new(q.0 * f, q.1 * f) }).collect();
    if repeat { v.push(v[0]); }
    v
}

/// LONG curves, uniform and not, and curves with edges shorter than 1e-6: see the header
fn long_curves(r: &mut Report) {
    let scales = [1.0, 0.1, 2f64.powi(-20)];
    for &n in [31usize, 32, 33, 64, 100, 128].iter() {
        for &f in scales.iter() {
            let tol = 1e-6 * f;
            // uniform: unit staircase, straight run, 3-4-5 zig-zag (edge length 5), diagonal staircase with a flat step
            check_curve2_tol(r, &chain2(n, &[(1.0, 0.0), (0.0, 1.0)], f), false, tol);
            check_curve2_tol(r, &chain2(n, &[(1.0, 0.0)], f), false, tol);
            check_curve2_tol(r, &chain2(n, &[(3.0, 4.0), (3.0, -4.0)], f), false, tol);
            check_curve2_tol(r, &chain2(n, &[(3.0, 4.0), (5.0, 0.0), (4.0, -3.0), (0.0, 5.0)], f), false, tol);
            // uniform, force-closed by a closing edge of a different length
            check_curve2_tol(r, &chain2(n, &[(1.0, 0.0), (0.0, 1.0)], f), true, tol);
            // non-uniform: lengths 1,2,1,2,..; one long last edge; one long first edge
            check_curve2_tol(r, &chain2(n, &[(1.0, 0.0), (0.0, 2.0)], f), false, tol);
            let mut tail = chain2(n - 1, &[(1.0, 0.0), (0.0, 1.0)], f); let e = *tail.last().unwrap(); tail.push(Point2::new(e.x + 40.0 * f, e.y));
            check_curve2_tol(r, &tail, false, tol);
            let mut head = vec![Point2::new(-40.0 * f, 0.0)]; head.extend(chain2(n - 1, &[(0.0, 1.0), (1.0, 0.0)], f));
            check_curve2_tol(r, &head, false, tol);
            // 3D
            check_curve3_tol(r, &chain3(n, &[(1.0, 0.0, 0.0), (0.0, 1.0, 0.0), (0.0, 0.0, 1.0)], f), tol);
            check_curve3_tol(r, &chain3(n, &[(1.0, 2.0, 2.0), (2.0, -1.0, 2.0)], f), tol);
            check_curve3_tol(r, &chain3(n, &[(1.0, 0.0, 0.0), (0.0, 2.0, 0.0), (0.0, 0.0, 1.0)], f), tol);
        }
    }
    // very long: 257 and 1000 edges, uniform staircase / non-uniform, 2D and 3D
    for &n in [257usize, 1000].iter() {
        check_curve2_tol(r, &chain2(n, &[(1.0, 0.0), (0.0, 1.0)], 1.0), false, 1e-6);
        check_curve2_tol(r, &chain2(n, &[(1.0, 0.0), (0.0, 1.0)], 0.1), true, 1e-7);
        check_curve2_tol(r, &chain2(n, &[(3.0, 4.0), (5.0, 0.0), (8.0, -6.0)], 1.0), false, 1e-6);
        check_curve3_tol(r, &chain3(n, &[(1.0, 0.0, 0.0), (0.0, 1.0, 0.0), (0.0, 0.0, 1.0)], 1.0), 1e-6);
    }
    // closed square loops with 8, 16, 25, 32 unit edges per side, naturally closed and force-closed, the seam at a corner
    // and inside a side
    for &m in [8usize, 16, 25, 32].iter() { for &f in scales.iter() { for start in [0usize, 3] {
        check_curve2_tol(r, &loop2(m, true, f, start), false, 1e-6 * f);
        check_curve2_tol(r, &loop2(m, false, f, start), true, 1e-6 * f);
    } } }
    // edges shorter than 1e-6 with a tolerance below that: 1300 edges of length 5 * 2^-23 (2D) / 13 * 2^-24 (3D), bent
    let h2 = 2f64.powi(-23);
    let mut steps2 = vec![];
    for k in 0..1300 { steps2.push(match (k / 100) % 3 { 0 => (3.0, 4.0), 1 => (4.0, -3.0), _ => (5.0, 0.0) }); }
    check_curve2_tol(r, &chain2(1300, &steps2, h2), false, 1e-9);
    let h3 = 2f64.powi(-24);
    let mut steps3 = vec![];
    for k in 0..1300 { steps3.push(match (k / 100) % 3 { 0 => (3.0, 4.0, 12.0), 1 => (12.0, 3.0, -4.0), _ => (4.0, -12.0, 3.0) }); }
    check_curve3_tol(r, &chain3(1300, &steps3, h3), 1e-9);
    // a unit-size curve with a locally dense stretch (64 edges of length 5 * 2^-23) in its middle
    let mut d2v = vec![Point2::new(-1.0, 0.0)];
    d2v.extend(chain2(64, &[(3.0, 4.0), (4.0, 3.0)], h2));
    let e = *d2v.last().unwrap(); d2v.push(Point2::new(e.x, e.y + 1.0));
    check_curve2_tol(r, &d2v, false, 1e-9);
    let mut d3v = vec![Point3::new(-1.0, 0.0, 0.0)];
    d3v.extend(chain3(64, &[(3.0, 4.0, 12.0), (4.0, 12.0, 3.0)], h3));
    let e = *d3v.last().unwrap(); d3v.push(Point3::new(e.x, e.y, e.z + 1.0));
    check_curve3_tol(r, &d3v, 1e-9);
}
