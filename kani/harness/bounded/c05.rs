//! C05 bounded: resampling, simplifying and gap filling on the REAL code over an enumerated input space.
//!
//! Curves: fixed families of 2D and 3D polylines with small integer / dyadic coordinates (straight with uneven vertex
//! density, L-shape, stair with a dense stretch, Pythagorean zig-zags, 3-4-5 triangle naturally closed, unit square open
//! and force-closed, dense octagon ring closed / force-closed, nearly closed "C"), each scaled by powers of two so that
//! the total length runs from 1e-3 to about 1e3; plus single straight segments of length L for a list of L with
//! different mantissas (1..20, 0.1..0.9, 100, 1000, ...).
//! Requests: counts 2..=30 and 31, 50, 64, 100, 101, 120 (single segments: every count 2..=130); spacings and maximum
//! spacings from a fixed relative and absolute set; simplification tolerances from a fixed set (incl. closed rings of
//! extent ~0.02 with e = 1e-3 and 1e-2); gap filling on 2D / 3D point lists incl. oblique gaps.
//! NEAR-MULTIPLE requests: every family x maximum spacings / spacings m = (L - d)/k, L/k, (L + d)/k for k in
//! {1..=6, 10, 17} and d in {tol/2, tol, 1e-6 L, 1e-9 L, 1e-11 L} (the total length exceeds a whole number of spacings by
//! at most the curve tolerance, and by tiny fractions), plus 2D/3D straight and bent curves built with
//! L = k*m + d for m in {2.5, 1, 0.3}, tol in {1e-4, 1e-6} (e.g. L = 10.00005, tol = 1e-4, max 2.5).
//! TINY EDGES: curves of ~1300 edges shorter than 1e-6 (total length ~1e-3, tolerance 1e-9 below the edge length) and
//! unit-size curves with a dense stretch of 64 such edges around L/2, 2D and 3D.
//! SEAM IN A STRAIGHT RUN: closed 4x2 rectangle outlines (4 vertices per unit) and the dense octagon ring started at EVERY
//! vertex (so the seam lies on corners and inside straight runs), naturally closed / force-closed (2D) and closed (3D),
//! simplified with e in {0, 2^-10, 0.01, 2^-5, 0.25} x scale.
//! WAVE 5 (parameter-space audit, notes/w5_audit_C05.md): see run_wave5 -- shape classes (closed within tolerance,
//! asymmetric non-convex closed, hairpin, self-crossing), magnitudes (offsets 1e3 .. 1e8, counts up to 10001, RDP recursion
//! depth 1500), parameter relations (curve tol 0 / 1e-12, simplification tolerance vs curve tolerance), exact and near
//! ties in gap filling, and sequences of operations.
//! The oracle is dimension-free brute force on [f64; 3] copies of the vertices.
use super::Report;
use crate::common::points::{evenly_spaced_points_between, fill_gaps, ramer_douglas_peucker};
use crate::common::Resample;
use crate::geom2::{Curve2, Point2};
use crate::geom3::{Curve3, Point3};
use std::panic::{catch_unwind, AssertUnwindSafe};

pub type P = [f64; 3];
pub fn sub(a: &P, b: &P) -> P { [a[0] - b[0], a[1] - b[1], a[2] - b[2]] }
pub fn dot(a: &P, b: &P) -> f64 { a[0] * b[0] + a[1] * b[1] + a[2] * b[2] }
pub fn d(a: &P, b: &P) -> f64 { let s = sub(a, b); dot(&s, &s).sqrt() }
pub fn lerp(a: &P, b: &P, f: f64) -> P { [a[0] + (b[0] - a[0]) * f, a[1] + (b[1] - a[1]) * f, a[2] + (b[2] - a[2]) * f] }
pub fn seg_dist(a: &P, b: &P, p: &P) -> f64 {
    let ab = sub(b, a);
    let l2 = dot(&ab, &ab);
    if l2 == 0.0 { return d(a, p); }
    let t = (dot(&sub(p, a), &ab) / l2).clamp(0.0, 1.0);
    d(&lerp(a, b, t), p)
}
/// distance from p to the polyline (brute force over all segments)
pub fn poly_dist(poly: &[P], p: &P) -> f64 {
    if poly.len() == 1 { return d(&poly[0], p); }
    let mut m = f64::INFINITY;
    for i in 0..poly.len() - 1 { m = m.min(seg_dist(&poly[i], &poly[i + 1], p)); }
    m
}
pub fn cum(poly: &[P]) -> Vec<f64> {
    let mut c = vec![0.0];
    for i in 0..poly.len() - 1 { let l = c[i] + d(&poly[i], &poly[i + 1]); c.push(l); }
    c
}
/// the point of the polyline at arc length l (l clamped to [0, L])
pub fn at(poly: &[P], cu: &[f64], l: f64) -> P {
    let total = *cu.last().unwrap();
    let l = l.clamp(0.0, total);
    for i in 0..poly.len() - 1 {
        if l <= cu[i + 1] {
            let e = cu[i + 1] - cu[i];
            if e == 0.0 { return poly[i]; }
            return lerp(&poly[i], &poly[i + 1], (l - cu[i]) / e);
        }
    }
    *poly.last().unwrap()
}
pub fn extent(poly: &[P]) -> f64 {
    let mut m: f64 = 0.0;
    for p in poly { for k in 0..3 { m = m.max(p[k].abs()); } }
    m
}
pub fn bbox_size(poly: &[P]) -> f64 {
    let mut m: f64 = 0.0;
    for k in 0..3 {
        let lo = poly.iter().map(|p| p[k]).fold(f64::INFINITY, f64::min);
        let hi = poly.iter().map(|p| p[k]).fold(f64::NEG_INFINITY, f64::max);
        m = m.max(hi - lo);
    }
    m
}
pub fn p2(p: &Point2) -> P { [p.x, p.y, 0.0] }
pub fn p3(p: &Point3) -> P { [p.x, p.y, p.z] }
pub fn to2(p: &P) -> Point2 { Point2::new(p[0], p[1]) }
pub fn to3(p: &P) -> Point3 { Point3::new(p[0], p[1], p[2]) }

/// run the real code; a panic is a failing outcome with its message
pub fn guarded<T, F: FnOnce() -> T>(f: F) -> Result<T, String> {
    match catch_unwind(AssertUnwindSafe(f)) {
        Ok(v) => Ok(v),
        Err(e) => Err(format!("PANIC: {}", e.downcast_ref::<&str>().map(|s| s.to_string()).or_else(|| e.downcast_ref::<String>().cloned()).unwrap_or_default())),
    }
}
/// silence the default panic printer while the enumerated inputs run (panics are caught and reported as clause failures)
pub fn quiet<T, F: FnOnce() -> T>(f: F) -> T {
    let prev = std::panic::take_hook();
    std::panic::set_hook(Box::new(|_| {}));
    let v = f();
    std::panic::set_hook(prev);
    v
}

/// Watchdog: the enumerated inputs run on a worker thread; the calling thread watches (a) the resident memory of the
/// process and (b) the progress counter.  A change that makes one of the loops under check run away (the vertex walk of
/// between_lengths, the position loop of resample_by_spacing, the `while` of fill_gaps) is then DECIDED as a failure of
/// the clause "terminates", with the input that was running, instead of exhausting the machine.  Both criteria are far
/// outside anything the unchanged code does (a few MB, microseconds per case): resident memory above 3 GB, or no new
/// case for 120 s.
pub mod dog {
    use super::super::Report;
    use std::sync::atomic::{AtomicU64, AtomicUsize, Ordering::Relaxed};
    use std::sync::Mutex;
    static CURVE: Mutex<String> = Mutex::new(String::new());
    static OP: AtomicUsize = AtomicUsize::new(0);
    static ARGS: [AtomicU64; 3] = [AtomicU64::new(0), AtomicU64::new(0), AtomicU64::new(0)];
    static TICK: AtomicU64 = AtomicU64::new(0);
    /// the receiver of the calls that follow
    pub fn subject(s: &str) { if let Ok(mut g) = CURVE.lock() { g.clear(); g.push_str(s); } }
    /// the call about to be made: `ops[op]` with up to three numeric arguments (NaN = absent)
    pub fn call(op: usize, a: f64, b: f64, c: f64) {
        OP.store(op, Relaxed); ARGS[0].store(a.to_bits(), Relaxed); ARGS[1].store(b.to_bits(), Relaxed); ARGS[2].store(c.to_bits(), Relaxed);
        TICK.fetch_add(1, Relaxed);
    }
    fn resident_bytes() -> u64 {
        std::fs::read_to_string("/proc/self/statm").ok().and_then(|t| t.split_whitespace().nth(1).and_then(|x| x.parse::<u64>().ok())).map(|p| p * 4096).unwrap_or(0)
    }
    pub fn run(bound: &'static str, ops: &'static [&'static str], f: fn() -> Report) -> Report {
        let (tx, rx) = std::sync::mpsc::channel();
        let worker = std::thread::Builder::new().stack_size(256 << 20).spawn(move || { let r = super::quiet(f); let _ = tx.send(r); });
        if worker.is_err() { return super::quiet(f); }
        let mut last = (TICK.load(Relaxed), std::time::Instant::now());
        loop {
            match rx.recv_timeout(std::time::Duration::from_millis(5)) {
                Ok(r) => return r,
                Err(std::sync::mpsc::RecvTimeoutError::Disconnected) => {
                    let mut r = Report::new(bound);
                    r.check(false, "the bounded harness itself runs to completion", current(ops));
                    return r;
                }
                Err(std::sync::mpsc::RecvTimeoutError::Timeout) => {
                    let t = TICK.load(Relaxed);
                    if t != last.0 { last = (t, std::time::Instant::now()); }
                    let mem = resident_bytes();
                    let stalled = last.1.elapsed().as_secs() >= 120;
                    if mem > (3u64 << 30) || stalled {
                        let mut r = Report::new(bound);
                        r.cases = t; r.checks = t;
                        let why = if stalled { "no result after 120 s".to_string() } else { format!("resident memory grew to {} MB", mem >> 20) };
                        let inp = current(ops)();
                        r.check(false, "terminates (the call returns; no runaway loop)", move || format!("{} -> {}", inp, why));
                        return r;
                    }
                }
            }
        }
    }
    fn current(ops: &'static [&'static str]) -> impl FnOnce() -> String {
        move || {
            let subj = CURVE.lock().map(|g| g.clone()).unwrap_or_default();
            let args: Vec<String> = ARGS.iter().map(|a| f64::from_bits(a.load(Relaxed))).filter(|x| !x.is_nan()).map(|x| format!("{:?}", x)).collect();
            format!("{} {}({})", subj, ops.get(OP.load(Relaxed)).unwrap_or(&"?"), args.join(", "))
        }
    }
}

pub enum Cv { D2(Curve2), D3(Curve3) }
impl Cv {
    pub fn pts(&self) -> Vec<P> { match self { Cv::D2(c) => c.points().iter().map(p2).collect(), Cv::D3(c) => c.points().iter().map(p3).collect() } }
    pub fn length(&self) -> f64 { match self { Cv::D2(c) => c.length(), Cv::D3(c) => c.length() } }
    pub fn tol(&self) -> f64 { match self { Cv::D2(c) => c.tol(), Cv::D3(c) => c.tol() } }
    pub fn closed(&self) -> bool {
        match self { Cv::D2(c) => c.is_closed(), Cv::D3(c) => { let v = c.points(); d(&p3(&v[0]), &p3(&v[v.len() - 1])) <= c.tol() } }
    }
    fn resample(&self, m: Resample) -> Result<Cv, String> {
        match m { Resample::ByCount(n) => dog::call(0, n as f64, f64::NAN, f64::NAN), Resample::BySpacing(x) => dog::call(1, x, f64::NAN, f64::NAN), Resample::ByMaxSpacing(x) => dog::call(2, x, f64::NAN, f64::NAN) }
        match self {
            Cv::D2(c) => match guarded(|| c.resample(m)) { Ok(Ok(x)) => Ok(Cv::D2(x)), Ok(Err(e)) => Err(format!("Err({})", e)), Err(p) => Err(p) },
            Cv::D3(c) => guarded(|| c.resample(m)).map(Cv::D3),
        }
    }
    fn simplify(&self, e: f64) -> Result<Cv, String> {
        dog::call(3, e, f64::NAN, f64::NAN);
        match self { Cv::D2(c) => guarded(|| c.simplify(e)).map(Cv::D2), Cv::D3(c) => guarded(|| c.simplify(e)).map(Cv::D3) }
    }
}

#[derive(Clone)]
pub struct Shape { pub name: String, pub dim: usize, pub pts: Vec<P>, pub fc: bool, pub straight: bool, pub tol: f64, pub unit: f64 }
impl Shape {
    pub fn build(&self) -> Option<Cv> {
        if self.dim == 2 {
            let v: Vec<Point2> = self.pts.iter().map(to2).collect();
            Curve2::from_points(&v, self.tol, self.fc).ok().map(Cv::D2)
        } else {
            let v: Vec<Point3> = self.pts.iter().map(to3).collect();
            Curve3::from_points(&v, self.tol).ok().map(Cv::D3)
        }
    }
    pub fn desc(&self) -> String {
        let pts: Vec<String> = self.pts.iter().map(|p| if self.dim == 2 { format!("({:?},{:?})", p[0], p[1]) } else { format!("({:?},{:?},{:?})", p[0], p[1], p[2]) }).collect();
        if self.dim == 2 { format!("Curve2::from_points([{}], tol={:?}, force_closed={}) [{}]", pts.join(","), self.tol, self.fc, self.name) }
        else { format!("Curve3::from_points([{}], tol={:?}) [{}]", pts.join(","), self.tol, self.name) }
    }
}

fn v2(l: &[(f64, f64)]) -> Vec<P> { l.iter().map(|&(x, y)| [x, y, 0.0]).collect() }
fn v3(l: &[(f64, f64, f64)]) -> Vec<P> { l.iter().map(|&(x, y, z)| [x, y, z]).collect() }

/// dense octagon ring with integer corners and (unevenly placed) extra points on its edges; closed by repeating the first point
fn ring2() -> Vec<P> {
    let c = [(2.0, 0.0), (4.0, 0.0), (6.0, 2.0), (6.0, 4.0), (4.0, 6.0), (2.0, 6.0), (0.0, 4.0), (0.0, 2.0)];
    let mut v = vec![];
    for i in 0..8 {
        let a = [c[i].0, c[i].1, 0.0];
        let b = [c[(i + 1) % 8].0, c[(i + 1) % 8].1, 0.0];
        v.push(a);
        // uneven density: one, two or three extra collinear points per edge
        let fr: &[f64] = match i % 3 { 0 => &[0.5], 1 => &[0.25, 0.5], _ => &[0.125, 0.25, 0.75] };
        for &f in fr { v.push(lerp(&a, &b, f)); }
    }
    v.push(v[0]);
    v
}

/// the unscaled shape families: (name, dim, points, force_closed, straight)
pub fn base_shapes() -> Vec<(&'static str, usize, Vec<P>, bool, bool)> {
    let mut s: Vec<(&'static str, usize, Vec<P>, bool, bool)> = vec![];
    s.push(("line-uneven", 2, v2(&[(0.0, 0.0), (0.25, 0.0), (0.5, 0.0), (1.0, 0.0), (4.0, 0.0)]), false, true));
    s.push(("L-3-4", 2, v2(&[(0.0, 0.0), (3.0, 0.0), (3.0, 4.0)]), false, false));
    s.push(("stair-uneven", 2, v2(&[(0.0, 0.0), (1.0, 0.0), (1.0, 1.0), (1.25, 1.0), (1.5, 1.0), (1.75, 1.0), (2.0, 1.0), (2.0, 3.0), (8.0, 3.0)]), false, false));
    s.push(("triangle-3-4-5-closed", 2, v2(&[(0.0, 0.0), (4.0, 0.0), (4.0, 3.0), (0.0, 0.0)]), false, false));
    s.push(("square-open", 2, v2(&[(0.0, 0.0), (1.0, 0.0), (1.0, 1.0), (0.0, 1.0)]), false, false));
    s.push(("square-force-closed", 2, v2(&[(0.0, 0.0), (1.0, 0.0), (1.0, 1.0), (0.0, 1.0)]), true, false));
    s.push(("zigzag-3-4-5", 2, v2(&[(0.0, 0.0), (3.0, 4.0), (6.0, 0.0), (9.0, 4.0), (12.0, 0.0)]), false, false));
    s.push(("octagon-dense-closed", 2, ring2(), false, false));
    let mut open_ring = ring2(); open_ring.pop();
    s.push(("octagon-dense-force-closed", 2, open_ring, true, false));
    s.push(("C-nearly-closed", 2, v2(&[(0.0, 0.0), (2.0, 0.0), (4.0, 0.0), (4.0, 4.0), (2.0, 4.0), (0.0, 4.0), (0.0, 2.0), (0.0, 0.015625)]), false, false));
    s.push(("bumpy-line", 2, v2(&[(0.0, 0.0), (1.0, 0.015625), (2.0, 0.0), (3.0, -0.03125), (4.0, 0.0), (5.0, 0.125), (6.0, 0.0), (7.0, 0.0), (8.0, 1.0), (9.0, 0.0), (10.0, 0.0078125), (12.0, 0.0)]), false, false));
    // 3D
    s.push(("line3-uneven", 3, v3(&[(0.0, 0.0, 0.0), (0.25, 0.5, 0.5), (1.0, 2.0, 2.0), (3.0, 6.0, 6.0)]), false, true));
    s.push(("pyth3-open", 3, v3(&[(0.0, 0.0, 0.0), (1.0, 2.0, 2.0), (3.0, 5.0, 8.0), (7.0, 9.0, 15.0)]), false, false));
    s.push(("box-path3", 3, v3(&[(0.0, 0.0, 0.0), (1.0, 0.0, 0.0), (1.0, 1.0, 0.0), (1.0, 1.0, 0.25), (1.0, 1.0, 0.5), (1.0, 1.0, 1.0), (0.0, 1.0, 1.0)]), false, false));
    s.push(("triangle3-3-4-5-closed", 3, v3(&[(0.0, 0.0, 0.0), (4.0, 0.0, 0.0), (4.0, 0.0, 3.0), (0.0, 0.0, 0.0)]), false, false));
    // the octagon ring tilted out of the plane (z = x / 2): closed
    s.push(("octagon3-dense-closed", 3, ring2().iter().map(|p| [p[0], p[1], p[0] * 0.5]).collect(), false, false));
    s.push(("bumpy-line3", 3, v3(&[(0.0, 0.0, 0.0), (1.0, 0.015625, 0.0), (2.0, 0.0, 0.03125), (3.0, 0.0, 0.0), (4.0, 0.5, 0.5), (5.0, 0.0, 0.0), (6.0, 0.0, -0.0078125), (8.0, 0.0, 0.0)]), false, false));
    s
}

/// every base shape at every power-of-two scale for which the total length lies in [1e-3, 1.3e3]
pub fn scaled_shapes(exps: &[i32]) -> Vec<Shape> {
    let mut out = vec![];
    for (name, dim, pts, fc, straight) in base_shapes() {
        let mut l0 = *cum(&pts).last().unwrap();
        if fc { l0 += d(&pts[0], pts.last().unwrap()); }
        for &k in exps {
            let f = 2f64.powi(k);
            if l0 * f < 1e-3 || l0 * f > 1.3e3 { continue; }
            let p: Vec<P> = pts.iter().map(|q| [q[0] * f, q[1] * f, q[2] * f]).collect();
            out.push(Shape { name: format!("{} x 2^{}", name, k), dim, pts: p, fc, straight, tol: 1e-7 * f, unit: f });
        }
    }
    out
}

#[derive(Clone, Copy, Debug)]
enum Mode { ByCount(usize), BySpacing(f64), ByMaxSpacing(f64) }
impl Mode { fn get(&self) -> Resample { match *self { Mode::ByCount(n) => Resample::ByCount(n), Mode::BySpacing(s) => Resample::BySpacing(s), Mode::ByMaxSpacing(s) => Resample::ByMaxSpacing(s) } } }

fn check_resample(r: &mut Report, cv: &Cv, sd: &str, straight: bool, mode: Mode) {
    r.case();
    dog::subject(sd);
    let src = cv.pts();
    let cu = cum(&src);
    let total = *cu.last().unwrap();
    // rounding allowance: 1e-9 of the curve's own size (bounding box / total length) + 1e-12 of the coordinate magnitude
    // (the same as 1e-9 * max(extent, total) for curves that start at the origin)
    let eps = 1e-9 * bbox_size(&src).max(total) + 1e-12 * extent(&src);
    let desc = || format!("{} .resample({:?})  [L = {:?}]", sd, mode, total);
    let out = match cv.resample(mode.get()) {
        Ok(c) => { r.check(true, "resample succeeds (no panic, no Err) on a well-posed request", desc); c }
        Err(why) => { r.check(false, "resample succeeds (no panic, no Err) on a well-posed request", || format!("{} -> {}", desc(), why)); return; }
    };
    let v = out.pts();
    let n = v.len();
    // all vertices lie on the original
    let worst = v.iter().map(|p| poly_dist(&src, p)).fold(0.0, f64::max);
    r.check(worst <= eps, "every resampled vertex lies on the original (distance to the polyline <= 1e-9*scale)", || format!("{} -> worst distance {:?}", desc(), worst));
    // the expected arc-length position of every result vertex
    let mut want: Option<Vec<f64>> = None;
    match mode {
        Mode::ByCount(c) => {
            r.check(n == c, "by count: vertex count equals the request", || format!("{} -> {} vertices", desc(), n));
            want = Some((0..n).map(|k| total * k as f64 / (n - 1) as f64).collect());
        }
        Mode::ByMaxSpacing(m) => {
            r.check(n >= 2 && total / (n - 1) as f64 <= m * (1.0 + 1e-12), "by max spacing: every spacing <= max", || format!("{} -> {} vertices, spacing {:?}", desc(), n, total / (n - 1) as f64));
            want = Some((0..n).map(|k| total * k as f64 / (n - 1) as f64).collect());
        }
        Mode::BySpacing(s) => {
            // K samples at m + k*s with equal margins m = (L - (K-1)s)/2, 0 <= m < s; a closed 2D curve gets its first
            // sample appended once more as the closing vertex
            let mut cands = vec![(n, false)];
            if matches!(cv, Cv::D2(_)) && cv.closed() && n >= 3 && d(&v[0], &v[n - 1]) <= eps { cands.push((n - 1, true)); }
            let mut margin_ok = false;
            for (k, appended) in cands {
                let m = (total - (k - 1) as f64 * s) / 2.0;
                if !(m >= -eps && m < s) { continue; }
                let mut w: Vec<f64> = (0..k).map(|i| m + i as f64 * s).collect();
                if appended { w.push(m); }
                let matches = (0..n).all(|i| d(&at(&src, &cu, w[i]), &v[i]) <= eps);
                if !margin_ok || matches { want = Some(w); }
                margin_ok = true;
                if matches { break; }
            }
            r.check(margin_ok, "by spacing: centred, equal margins smaller than one spacing (vertex count consistent with 0 <= (L-(K-1)s)/2 < s)", || format!("{} -> {} vertices", desc(), n));
        }
    }
    if let Some(w) = want.as_ref() {
        if w.len() == n {
            let mut bad = None;
            for k in 0..n { let e = at(&src, &cu, w[k]); if d(&e, &v[k]) > eps { bad = Some((k, w[k], e, v[k])); break; } }
            r.check(bad.is_none(), "resampled vertex k is the point of the original at the requested arc length (spacing matches the request, source order)", || format!("{} -> {:?}", desc(), bad));
            // length: differs from the original only by the chord error of the sampling = chord sum of the on-curve samples
            let mut chords = 0.0;
            for k in 0..n - 1 { chords += d(&at(&src, &cu, w[k]), &at(&src, &cu, w[k + 1])); }
            r.check((out.length() - chords).abs() <= eps, "length differs from the original only by the chord error (equals the chord sum of the on-curve sample points)", || format!("{} -> length {:?}, chord sum {:?}", desc(), out.length(), chords));
        }
    }
    // spans the original from its first to its last point
    match mode {
        Mode::BySpacing(_) => {}
        _ => {
            r.check(d(&v[0], &src[0]) <= eps, "spans the original: starts at its first point", || format!("{} -> first {:?}", desc(), v[0]));
            r.check(d(&v[n - 1], &src[src.len() - 1]) <= eps, "spans the original: ends at its last point", || format!("{} -> last {:?}", desc(), v[n - 1]));
            if straight { r.check((out.length() - total).abs() <= eps, "straight curve: resampled length equals the original length", || format!("{} -> {:?}", desc(), out.length())); }
        }
    }
    r.check(out.length() <= total + eps, "resampled length <= original length", || format!("{} -> {:?}", desc(), out.length()));
}

/// is `sub_` a subsequence of `all` (exact equality, in order)?  returns the matched indices
fn subsequence(all: &[P], sub_: &[P]) -> Option<Vec<usize>> {
    let mut idx = vec![];
    let mut j = 0;
    for p in sub_ {
        while j < all.len() && all[j] != *p { j += 1; }
        if j == all.len() { return None; }
        idx.push(j);
        j += 1;
    }
    Some(idx)
}

fn check_simplify(r: &mut Report, cv: &Cv, sd: &str, e: f64) {
    r.case();
    dog::subject(sd);
    let src = cv.pts();
    let scale = extent(&src).max(*cum(&src).last().unwrap());
    let desc = || format!("{} .simplify({:?})", sd, e);
    let out = match cv.simplify(e) {
        Ok(c) => { r.check(true, "simplify succeeds (no panic)", desc); c }
        Err(why) => { r.check(false, "simplify succeeds (no panic)", || format!("{} -> {}", desc(), why)); return; }
    };
    let v = out.pts();
    r.check(v[0] == src[0] && v[v.len() - 1] == src[src.len() - 1], "simplify keeps both end points", || format!("{} -> first {:?} last {:?}", desc(), v[0], v[v.len() - 1]));
    r.check(out.closed() == cv.closed(), "simplify keeps closedness", || format!("{} -> closed {} (source {})", desc(), out.closed(), cv.closed()));
    r.check(out.tol() == cv.tol(), "simplify keeps the curve's own tolerance", || format!("{} -> tol {:?}", desc(), out.tol()));
    let idx = subsequence(&src, &v);
    r.check(idx.is_some(), "simplified vertices are a subsequence of the original vertices", || format!("{} -> {:?}", desc(), v));
    discarded_within(r, &src, &v, idx.as_ref(), e, scale, &desc);
}

/// distance from p to the infinite line through a and b (to the point a when a == b): the measure RDP itself uses
fn line_dist(a: &P, b: &P, p: &P) -> f64 {
    let ab = sub(b, a);
    let l2 = dot(&ab, &ab);
    if l2 == 0.0 { return d(a, p); }
    let t = dot(&sub(p, a), &ab) / l2;
    d(&lerp(a, b, t), p)
}

/// "leaves every discarded vertex within e of the simplified curve": evaluated with the segment distance (the
/// statement).  When the clause fails although every discarded vertex IS within e of the infinite line through its
/// kept neighbours, the failure is exactly the line-versus-segment gap of classical RDP (design finding D14) and is
/// reported under its own clause name.
fn discarded_within(r: &mut Report, src: &[P], kept: &[P], idx: Option<&Vec<usize>>, e: f64, scale: f64, desc: &dyn Fn() -> String) {
    let bound = e * (1.0 + 1e-9) + 1e-12 * scale;
    let worst_seg = src.iter().map(|p| poly_dist(kept, p)).fold(0.0, f64::max);
    let mut worst_line = 0.0f64;
    if let Some(idx) = idx {
        for g in 0..idx.len().saturating_sub(1) { for i in idx[g] + 1..idx[g + 1] { worst_line = worst_line.max(line_dist(&src[idx[g]], &src[idx[g + 1]], &src[i])); } }
        r.check(worst_line <= bound, "every discarded vertex within e of the line through its kept neighbours (of the kept point, for a zero-length chord)", || format!("{} -> {:?} away; kept {:?}", desc(), worst_line, kept));
    }
    if idx.is_some() && worst_line <= bound && worst_seg > bound {
        r.check(false, "[D14 line-vs-segment] every discarded vertex within e of the simplified curve: RDP measures to the infinite line through the kept neighbours, the vertex projects outside the kept segment", || format!("{} -> a discarded vertex is {:?} away from the simplified curve {:?}", desc(), worst_seg, kept));
    } else {
        r.check(worst_seg <= bound, "every discarded vertex within e of the simplified curve (segment distance, brute force)", || format!("{} -> a discarded vertex is {:?} away from the simplified curve {:?}", desc(), worst_seg, kept));
    }
}

fn check_rdp_raw(r: &mut Report, pts: &[P], dim: usize, e: f64) {
    r.case();
    let desc = || format!("ramer_douglas_peucker::<{}>({:?}, {:?})", dim, pts, e);
    dog::subject(&format!("{:?}", pts)); dog::call(4, e, f64::NAN, f64::NAN);
    let res = if dim == 2 {
        let v: Vec<Point2> = pts.iter().map(to2).collect();
        guarded(|| ramer_douglas_peucker(&v, e)).map(|o| o.iter().map(p2).collect::<Vec<P>>())
    } else {
        let v: Vec<Point3> = pts.iter().map(to3).collect();
        guarded(|| ramer_douglas_peucker(&v, e)).map(|o| o.iter().map(p3).collect::<Vec<P>>())
    };
    let v = match res { Ok(v) => v, Err(why) => { r.check(false, "ramer_douglas_peucker succeeds (no panic)", || format!("{} -> {}", desc(), why)); return; } };
    r.check((v.len() >= 2 || pts.len() < 2) && v.len() >= 1 && v[0] == pts[0] && v[v.len() - 1] == pts[pts.len() - 1], "ramer_douglas_peucker keeps both end points", || format!("{} -> {:?}", desc(), v));
    r.check(subsequence(pts, &v).is_some(), "ramer_douglas_peucker keeps a subsequence of the input", || format!("{} -> {:?}", desc(), v));
    let scale = extent(pts);
    let idx = subsequence(pts, &v);
    discarded_within(r, pts, &v, idx.as_ref(), e, scale, &desc);
}

/// least n >= 0 with dist/(n+1) <= max, with a relative slack of 1e-12 on the comparison
fn min_inserted_ok(dist: f64, max: f64, n: usize) -> bool {
    let fits = dist / (n as f64 + 1.0) <= max * (1.0 + 1e-12);
    let minimal = n == 0 || dist / n as f64 > max * (1.0 - 1e-12);
    fits && minimal
}

fn check_fill(r: &mut Report, pts: &[P], dim: usize, max: f64) {
    r.case();
    let desc = || format!("fill_gaps::<{}>({:?}, {:?})", dim, pts, max);
    dog::subject(&format!("{:?}", pts)); dog::call(5, max, f64::NAN, f64::NAN);
    let res = if dim == 2 {
        let v: Vec<Point2> = pts.iter().map(to2).collect();
        guarded(|| fill_gaps(&v, max)).map(|o| o.iter().map(p2).collect::<Vec<P>>())
    } else {
        let v: Vec<Point3> = pts.iter().map(to3).collect();
        guarded(|| fill_gaps(&v, max)).map(|o| o.iter().map(p3).collect::<Vec<P>>())
    };
    let out = match res { Ok(v) => v, Err(why) => { r.check(false, "fill_gaps succeeds (no panic)", || format!("{} -> {}", desc(), why)); return; } };
    // long results are abbreviated in failure messages
    let show = |o: &Vec<P>| if o.len() <= 40 { format!("{:?}", o) } else { format!("{:?} .. {:?} ({} points)", &o[..6], &o[o.len() - 2..], o.len()) };
    if pts.len() < 2 { r.check(out == pts, "fill_gaps of fewer than two points returns them unchanged", desc); return; }
    let scale = extent(pts).max(max);
    // all original points kept, in order
    let idx = subsequence(&out, pts);
    r.check(idx.is_some() && out[0] == pts[0] && out[out.len() - 1] == pts[pts.len() - 1], "fill_gaps keeps all original points in order (first and last included)", || format!("{} -> {}", desc(), show(&out)));
    // no consecutive pair farther apart than max
    let worst = (0..out.len() - 1).map(|i| d(&out[i], &out[i + 1])).fold(0.0, f64::max);
    r.check(worst <= max * (1.0 + 1e-12) + 1e-12 * scale, "fill_gaps leaves no consecutive pair farther apart than max", || format!("{} -> a consecutive pair is {:?} apart: {}", desc(), worst, show(&out)));
    // inserted count per gap is minimal, inserted points evenly spaced on the segment.  The original points are matched
    // greedily from the left: with repeated points (zero gaps) the match is still the construction order.
    if let Some(idx) = idx {
        let mut ok_min = true; let mut ok_even = true; let mut bad = (0usize, 0usize);
        for i in 0..pts.len() - 1 {
            let n = idx[i + 1] - idx[i] - 1;
            let g = d(&pts[i], &pts[i + 1]);
            if !min_inserted_ok(g, max, n) { ok_min = false; bad = (i, n); }
            for k in 1..=n {
                let e = lerp(&pts[i], &pts[i + 1], k as f64 / (n + 1) as f64);
                if d(&e, &out[idx[i] + k]) > 1e-12 * scale { ok_even = false; bad = (i, n); }
            }
        }
        r.check(ok_min, "fill_gaps inserts the least n with d/(n+1) <= max into every gap", || format!("{} -> gap {} got {} points: {}", desc(), bad.0, bad.1, show(&out)));
        r.check(ok_even, "fill_gaps: inserted points are evenly spaced on the segment between their neighbours", || format!("{} -> gap {}: {}", desc(), bad.0, show(&out)));
    }
}

fn check_between(r: &mut Report, a: &P, b: &P, dim: usize, n: usize) {
    r.case();
    let desc = || format!("evenly_spaced_points_between::<{}>({:?}, {:?}, {})", dim, a, b, n);
    dog::subject(&format!("{:?} {:?}", a, b)); dog::call(6, n as f64, f64::NAN, f64::NAN);
    let res = if dim == 2 { guarded(|| evenly_spaced_points_between(&to2(a), &to2(b), n)).map(|o| o.iter().map(p2).collect::<Vec<P>>()) }
              else { guarded(|| evenly_spaced_points_between(&to3(a), &to3(b), n)).map(|o| o.iter().map(p3).collect::<Vec<P>>()) };
    let out = match res { Ok(v) => v, Err(why) => { r.check(false, "evenly_spaced_points_between succeeds (no panic)", || format!("{} -> {}", desc(), why)); return; } };
    r.check(out.len() == n, "evenly_spaced_points_between returns exactly n points", || format!("{} -> {}", desc(), out.len()));
    let scale = extent(&[*a, *b]).max(1e-300);
    let mut ok = out.len() == n;
    if ok { for k in 1..=n { if d(&lerp(a, b, k as f64 / (n + 1) as f64), &out[k - 1]) > 1e-12 * scale { ok = false; } } }
    r.check(ok, "evenly_spaced_points_between: point k is start + (end-start)*k/(n+1)", || format!("{} -> {:?}", desc(), out));
    // hence every consecutive distance (incl. to the end points) is d/(n+1)
    if out.len() == n {
        let mut chain = vec![*a]; chain.extend(out.iter().cloned()); chain.push(*b);
        let g = d(a, b) / (n + 1) as f64;
        let bad = (0..chain.len() - 1).any(|i| (d(&chain[i], &chain[i + 1]) - g).abs() > 1e-12 * scale);
        r.check(!bad, "evenly_spaced_points_between: consecutive distance is d/(n+1)", || format!("{} -> {:?}", desc(), out));
    }
}

const COUNTS: [usize; 35] = [2, 3, 4, 5, 6, 7, 8, 9, 10, 11, 12, 13, 14, 15, 16, 17, 18, 19, 20, 21, 22, 23, 24, 25, 26, 27, 28, 29, 30, 31, 50, 64, 100, 101, 120];
const REL_SPACINGS: [f64; 10] = [0.9, 0.5, 1.0 / 3.0, 0.3, 0.25, 1.0 / 7.0, 0.11, 0.0625, 0.05, 0.013];
const ABS_SPACINGS: [f64; 9] = [0.001, 0.01, 0.1, 0.25, 1.0, 3.0, 7.5, 10.0, 100.0];

fn resample_all(r: &mut Report, cv: &Cv, sd: &str, straight: bool, counts: &[usize]) {
    let total = cv.length();
    let closed = cv.closed();
    for &n in counts {
        // two samples of a closed curve coincide: not a curve (ill-posed), start at 3
        if closed && n < 3 { continue; }
        check_resample(r, cv, sd, straight, Mode::ByCount(n));
    }
    let mut sp: Vec<f64> = REL_SPACINGS.iter().map(|f| f * total).collect();
    for &a in ABS_SPACINGS.iter() { if a >= total / 150.0 && a < total { sp.push(a); } }
    for &s in sp.iter() {
        // a spacing that leaves a single sample is ill-posed; on a closed curve at least three samples are needed
        if closed && s > total / 3.0 { continue; }
        check_resample(r, cv, sd, straight, Mode::BySpacing(s));
    }
    let mut mx = sp.clone();
    if !closed { mx.push(total); mx.push(total * 1.5); mx.push(total * 16.0); }
    for &m in mx.iter() {
        if closed && m > total / 3.0 { continue; }
        check_resample(r, cv, sd, straight, Mode::ByMaxSpacing(m));
    }
}

/// requests whose spacing is a whole fraction of the total length up to the curve tolerance / a tiny fraction
fn near_multiple_requests(r: &mut Report, cv: &Cv, sd: &str, straight: bool) {
    let total = cv.length();
    let closed = cv.closed();
    let tol = cv.tol();
    let mut deltas = vec![0.0, tol * 0.5, tol, 1e-6 * total, 1e-9 * total, 1e-11 * total];
    deltas.retain(|d| *d < total * 0.01);
    for k in [1usize, 2, 3, 4, 5, 6, 10, 17] {
        if closed && k < 3 { continue; }
        for &dl in deltas.iter() {
            for sign in [-1.0, 1.0] {
                if dl == 0.0 && sign > 0.0 { continue; }
                let m = (total + sign * dl) / k as f64;
                check_resample(r, cv, sd, straight, Mode::ByMaxSpacing(m));
                // fixed spacing: a single sample (k == 1 with m >= L) is ill-posed
                if m < total && !(closed && m > total / 3.0) { check_resample(r, cv, sd, straight, Mode::BySpacing(m)); }
            }
        }
    }
}

/// curves built so that L = k*m + d exactly as the statement's example (L = 10.00005, tol = 1e-4, max 2.5)
fn near_multiple_lengths(r: &mut Report) {
    for &m in [2.5f64, 1.0, 0.3].iter() { for k in [1usize, 4, 7] { for &tol in [1e-4f64, 1e-6].iter() { for &dl in [tol * 0.5, tol * 0.99, tol / 1024.0, tol * 2.0].iter() {
        let total = k as f64 * m + dl;
        for dim in [2usize, 3] { for bent in [false, true] {
            // straight along an axis, or an L with legs 0.25*m and the rest (both legs axis-parallel: lengths add exactly up to rounding)
            let a = 0.25 * m;
            let pts: Vec<P> = match (dim, bent) {
                (2, false) => vec![[0.0, 0.0, 0.0], [total, 0.0, 0.0]],
                (2, true) => vec![[0.0, 0.0, 0.0], [a, 0.0, 0.0], [a, total - a, 0.0]],
                (_, false) => vec![[0.0, 0.0, 0.0], [0.0, 0.0, total]],
                (_, true) => vec![[0.0, 0.0, 0.0], [0.0, a, 0.0], [0.0, a, total - a]],
            };
            let s = Shape { name: format!("length {} * {:?} + {:?}", k, m, dl), dim, pts, fc: false, straight: !bent, tol, unit: m };
            let cv = match s.build() { Some(c) => c, None => continue };
            let sd = s.desc();
            check_resample(r, &cv, &sd, !bent, Mode::ByMaxSpacing(m));
            check_resample(r, &cv, &sd, !bent, Mode::ByMaxSpacing(m * 0.5));
            if k > 1 { check_resample(r, &cv, &sd, !bent, Mode::BySpacing(m)); }
            check_resample(r, &cv, &sd, !bent, Mode::ByCount(k + 1));
        } }
    } } } }
}

/// polyline from cyclic edge vectors, every coordinate multiplied by h
fn chain(n: usize, steps: &[(f64, f64, f64)], h: f64, start: P) -> Vec<P> {
    let (mut x, mut y, mut z) = (0.0, 0.0, 0.0);
    let mut v = vec![start];
    for k in 0..n { let s = steps[k % steps.len()]; x += s.0; y += s.1; z += s.2; v.push([start[0] + x * h, start[1] + y * h, start[2] + z * h]); }
    v
}

/// edges shorter than 1e-6 with a curve tolerance below that
fn tiny_edge_shapes() -> Vec<Shape> {
    let mut out = vec![];
    let (h2, h3) = (2f64.powi(-23), 2f64.powi(-24));
    // ~1300 edges, total length ~1e-3 (2D: 5 * 2^-23 = 6.0e-7 each, 3D: 13 * 2^-24 = 7.7e-7 each), bent every 100 edges
    let s2: Vec<(f64, f64, f64)> = (0..1300).map(|k| match (k / 100) % 3 { 0 => (3.0, 4.0, 0.0), 1 => (4.0, -3.0, 0.0), _ => (5.0, 0.0, 0.0) }).collect();
    let s3: Vec<(f64, f64, f64)> = (0..1300).map(|k| match (k / 100) % 3 { 0 => (3.0, 4.0, 12.0), 1 => (12.0, 3.0, -4.0), _ => (4.0, -12.0, 3.0) }).collect();
    out.push(Shape { name: "1300 tiny edges 2D".into(), dim: 2, pts: chain(1300, &s2, h2, [0.0; 3]), fc: false, straight: false, tol: 1e-9, unit: h2 });
    out.push(Shape { name: "1300 tiny edges 3D".into(), dim: 3, pts: chain(1300, &s3, h3, [0.0; 3]), fc: false, straight: false, tol: 1e-9, unit: h3 });
    // unit-size: leg of length 1, 64 tiny edges, leg of length 1 + one tiny edge (so that L/2 falls inside a tiny edge)
    let mut d2v = vec![[-1.0, 0.0, 0.0]];
    d2v.extend(chain(64, &[(3.0, 4.0, 0.0), (4.0, 3.0, 0.0)], h2, [0.0; 3]));
    let e = *d2v.last().unwrap(); d2v.push([e[0], e[1] + 1.0 + 5.0 * h2, 0.0]);
    out.push(Shape { name: "unit legs around 64 tiny edges 2D".into(), dim: 2, pts: d2v, fc: false, straight: false, tol: 1e-9, unit: 1.0 });
    let mut d3v = vec![[-1.0, 0.0, 0.0]];
    d3v.extend(chain(64, &[(3.0, 4.0, 12.0), (4.0, 12.0, 3.0)], h3, [0.0; 3]));
    let e = *d3v.last().unwrap(); d3v.push([e[0], e[1], e[2] + 1.0 + 13.0 * h3]);
    out.push(Shape { name: "unit legs around 64 tiny edges 3D".into(), dim: 3, pts: d3v, fc: false, straight: false, tol: 1e-9, unit: 1.0 });
    out
}

/// closed outlines started at every one of their vertices: the seam on corners and inside straight runs
fn seam_shapes() -> Vec<Shape> {
    let mut out = vec![];
    // 4 x 2 rectangle, 4 vertices per unit of length
    let mut rect: Vec<P> = vec![];
    for k in 0..16 { rect.push([k as f64 * 0.25, 0.0, 0.0]); }
    for k in 0..8 { rect.push([4.0, k as f64 * 0.25, 0.0]); }
    for k in 0..16 { rect.push([4.0 - k as f64 * 0.25, 2.0, 0.0]); }
    for k in 0..8 { rect.push([0.0, 2.0 - k as f64 * 0.25, 0.0]); }
    let mut oct = ring2(); oct.pop();
    for (name, ring) in [("rectangle 4x2 outline", rect), ("octagon ring", oct)] {
        let n = ring.len();
        for start in 0..n {
            for k in [0i32, -9, 5] {
                // the small and large scales only for every third seam position
                if k != 0 && start % 3 != 1 { continue; }
                let f = 2f64.powi(k);
                let open: Vec<P> = (0..n).map(|i| { let q = ring[(i + start) % n]; [q[0] * f, q[1] * f, 0.0] }).collect();
                let mut rep = open.clone(); rep.push(open[0]);
                out.push(Shape { name: format!("{} from vertex {}, closed, x 2^{}", name, start, k), dim: 2, pts: rep.clone(), fc: false, straight: false, tol: 1e-7 * f, unit: f });
                out.push(Shape { name: format!("{} from vertex {}, force-closed, x 2^{}", name, start, k), dim: 2, pts: open, fc: true, straight: false, tol: 1e-7 * f, unit: f });
                // 3D: tilted out of the plane (z = x / 2)
                out.push(Shape { name: format!("{} from vertex {}, tilted, closed, x 2^{}", name, start, k), dim: 3, pts: rep.iter().map(|q| [q[0], q[1], q[0] * 0.5]).collect(), fc: false, straight: false, tol: 1e-7 * f, unit: f });
            }
        }
    }
    out
}

// ================================================================ wave 5: shape classes, magnitudes, parameter relations, sequences
/// closed within tolerance, asymmetric non-convex closed, hairpin, self-crossing, tol = 0, far from the origin, deep RDP recursion
fn w5_shapes() -> Vec<Shape> {
    let mut out = vec![];
    let t10 = 1.0 / 1024.0;
    let mk = |name: &str, dim: usize, pts: Vec<P>, fc: bool, tol: f64| Shape { name: name.to_string(), dim, pts, fc, straight: false, tol, unit: 1.0 };
    // CLOSED WITHIN TOLERANCE (last vertex != first, gap tol/2, 0.9 tol, tol)
    for (k, g) in [[0.0, 0.5 * t10, 0.0], [0.75 * t10, 0.5 * t10, 0.0], [0.0, t10, 0.0]].iter().enumerate() {
        out.push(mk(&format!("quad-closed-within-tol-{}", k), 2, vec![[0.0, 0.0, 0.0], [8.0, 0.0, 0.0], [8.0, 6.0, 0.0], [5.0, 10.0, 0.0], *g], false, t10));
        out.push(mk(&format!("quad3-closed-within-tol-{}", k), 3, vec![[0.0, 0.0, 0.0], [8.0, 0.0, 0.0], [8.0, 6.0, 0.0], [5.0, 10.0, 3.0], [0.5 * g[0], g[1], 0.5 * g[0]]], false, t10));
    }
    out.push(mk("quad-gap-1.5-tol (open)", 2, vec![[0.0, 0.0, 0.0], [8.0, 0.0, 0.0], [8.0, 6.0, 0.0], [5.0, 10.0, 0.0], [0.0, 1.5 * t10, 0.0]], false, t10));
    // asymmetric non-convex closed hexagon, edges 7, 1, 6, 4, 1, 5
    let hex: Vec<P> = v2(&[(0.0, 0.0), (7.0, 0.0), (7.0, 1.0), (1.0, 1.0), (1.0, 5.0), (0.0, 5.0)]);
    let mut hc = hex.clone(); hc.push(hex[0]);
    out.push(mk("L-hexagon-closed", 2, hc.clone(), false, 1e-7));
    out.push(mk("L-hexagon-force-closed", 2, hex.clone(), true, 1e-7));
    out.push(mk("L-hexagon-seam-mid-edge", 2, v2(&[(3.0, 0.0), (7.0, 0.0), (7.0, 1.0), (1.0, 1.0), (1.0, 5.0), (0.0, 5.0), (0.0, 0.0), (3.0, 0.0)]), false, 1e-7));
    out.push(mk("L-hexagon3-closed (tilted)", 3, hc.iter().map(|q| [q[0], q[1], 0.5 * q[0] - 0.25 * q[1]]).collect(), false, 1e-7));
    // hairpin, self-crossing
    out.push(mk("hairpin-open", 2, v2(&[(0.0, 0.0), (8.0, 0.0), (8.0, 0.25), (0.5, 0.25), (0.5, 0.5), (8.0, 0.5)]), false, 1e-7));
    out.push(mk("hairpin3-open", 3, v3(&[(0.0, 0.0, 0.0), (8.0, 0.0, 0.0), (8.0, 0.25, 0.0), (0.5, 0.25, 0.0), (0.5, 0.25, 0.25), (8.0, 0.25, 0.25)]), false, 1e-7));
    out.push(mk("figure-eight-closed", 2, v2(&[(0.0, 0.0), (4.0, 3.0), (4.0, 0.0), (0.0, 3.0), (0.0, 0.0)]), false, 1e-7));
    // tolerance 0 and 1e-12
    let stair: Vec<P> = v2(&[(0.0, 0.0), (1.0, 0.0), (1.0, 1.0), (1.25, 1.0), (1.5, 1.0), (1.75, 1.0), (2.0, 1.0), (2.0, 3.0), (8.0, 3.0)]);
    out.push(mk("stair-tol-0", 2, stair.clone(), false, 0.0));
    out.push(mk("stair3-tol-0", 3, stair.iter().map(|q| [q[0], q[1], q[1] * 0.5]).collect(), false, 0.0));
    out.push(mk("L-hexagon-closed-tol-0", 2, hc.clone(), false, 0.0));
    out.push(mk("stair-tol-1e-12", 2, stair.clone(), false, 1e-12));
    // FAR FROM THE ORIGIN: every base family (unit scale) translated; the curve tolerance stays above the coordinate rounding
    for (o, tol) in [([1.0e3, -1.0e3, 1.0e3], 1e-7), ([1.0e6, -3.0e5, 2.0e6], 1e-6), ([-1.0e8, 1.0e8, 1.0e8], t10)] {
        for (name, dim, pts, fc, straight) in base_shapes() {
            let p: Vec<P> = pts.iter().map(|q| [q[0] + o[0], q[1] + o[1], if dim == 3 { q[2] + o[2] } else { 0.0 }]).collect();
            out.push(Shape { name: format!("{} at offset {:?}", name, o), dim, pts: p, fc, straight, tol, unit: 1.0 });
        }
    }
    out
}

/// zig-zag of growing amplitude: Ramer-Douglas-Peucker splits off one vertex at a time (recursion as deep as the curve is long)
fn growing_zigzag(n: usize, dim: usize) -> Vec<P> {
    (0..n).map(|i| { let a = if i % 2 == 0 { i as f64 } else { -(i as f64) }; if dim == 2 { [i as f64, a, 0.0] } else { [i as f64, a * 0.5, a] } }).collect()
}

fn run_wave5(r: &mut Report) {
    // ---- resampling and simplification on the new shape classes
    let es = [0.0, 1.0 / 1024.0, 1.0 / 32.0, 0.25, 1.0];
    for s in w5_shapes().iter() {
        let cv = match s.build() { Some(c) => c, None => { r.check(false, "the curve of the enumerated family can be built", || s.desc()); continue } };
        let sd = s.desc();
        if s.name.contains("closed") && !s.name.contains("open") && !s.name.contains("nearly") { r.check(cv.closed(), "a curve whose end points are within tol of each other (or force-closed) is closed", || sd.clone()); }
        resample_all(r, &cv, &sd, s.straight, &[2, 3, 4, 5, 7, 8, 16, 17, 33, 64, 65, 100]);
        near_multiple_requests(r, &cv, &sd, s.straight);
        let src = cv.pts();
        let reach = src.iter().map(|p| d(p, &src[0])).fold(0.0, f64::max);
        for &e in es.iter() {
            if cv.closed() && e >= reach / 2.0 { continue; }
            check_simplify(r, &cv, &sd, e);
            check_rdp_raw(r, &src, s.dim, e);
        }
        // parameter relation: simplification tolerance below / equal to / just above the curve's own tolerance
        for e in [cv.tol() * 0.5, cv.tol(), cv.tol() * 2.0] { check_simplify(r, &cv, &sd, e); }
    }
    // ---- vertex counts beyond 130: 1000, 4097, 10001 samples
    for s in scaled_shapes(&[0]).iter().chain(w5_shapes().iter().take(9)) {
        if !["L-3-4", "octagon-dense-closed", "pyth3-open", "zigzag-3-4-5", "quad-closed-within-tol-0", "quad3-closed-within-tol-0", "L-hexagon-force-closed"].iter().any(|n| s.name.starts_with(n)) { continue; }
        let cv = match s.build() { Some(c) => c, None => continue };
        for n in [1000usize, 4097, 10001] { check_resample(r, &cv, &s.desc(), s.straight, Mode::ByCount(n)); }
        let total = cv.length();
        check_resample(r, &cv, &s.desc(), s.straight, Mode::ByMaxSpacing(total / 2999.5));
        check_resample(r, &cv, &s.desc(), s.straight, Mode::BySpacing(total / 1500.25));
    }
    // ---- deep recursion: growing zig-zag, every vertex is significant for small e; for large e only the big ones
    for dim in [2usize, 3] { for n in [100usize, 300, 1500] {
        let pts = growing_zigzag(n, dim);
        let s = Shape { name: format!("growing zig-zag, {} vertices (i, +-i)", n), dim, pts: pts.clone(), fc: false, straight: false, tol: 1e-7, unit: 1.0 };
        let cv = match s.build() { Some(c) => c, None => continue };
        let sd = if n > 100 { format!("Curve{}::from_points(growing_zigzag({}, {}) of bounded/c05.rs: vertex i = (i, +-i{}), tol=1e-7)", dim, n, dim, if dim == 3 { "/2, +-i" } else { "" }) } else { s.desc() };
        for e in [0.25, 10.0, n as f64 / 3.0, n as f64] {
            check_simplify(r, &cv, &sd, e);
            if n <= 300 { check_rdp_raw(r, &pts, dim, e); }
        }
    } }
    // ---- SEQUENCES: the operations compose (every clause again on the result of an earlier operation)
    for s in scaled_shapes(&[-9, 0, 6]).iter().chain(w5_shapes().iter().take(16)) {
        let cv = match s.build() { Some(c) => c, None => continue };
        let total = cv.length();
        let closed = cv.closed();
        for first in [Mode::ByCount(17), Mode::ByMaxSpacing(total * 0.11), Mode::BySpacing(total * 0.0625)] {
            let a = match cv.resample(first.get()) { Ok(a) => a, Err(_) => continue };
            let sd = format!("{} .resample({:?})", s.desc(), first);
            let ta = a.length();
            for second in [Mode::ByCount(9), Mode::ByCount(40), Mode::ByMaxSpacing(ta * 0.3), Mode::BySpacing(ta * 0.05)] {
                if a.closed() != closed { break; }
                check_resample(r, &a, &sd, s.straight, second);
            }
            let src = a.pts();
            let reach = src.iter().map(|p| d(p, &src[0])).fold(0.0, f64::max);
            for e in [0.0, s.unit / 32.0, s.unit * 0.25] { if a.closed() && e >= reach / 2.0 { continue; } check_simplify(r, &a, &sd, e); }
        }
        // simplified first, then resampled / simplified again with a smaller and a larger tolerance
        for e in [s.unit / 128.0, s.unit * 0.25] {
            let src = cv.pts();
            let reach = src.iter().map(|p| d(p, &src[0])).fold(0.0, f64::max);
            if closed && e >= reach / 2.0 { continue; }
            let a = match cv.simplify(e) { Ok(a) => a, Err(_) => continue };
            let sd = format!("{} .simplify({:?})", s.desc(), e);
            if a.closed() && a.pts().len() < 4 { continue; }
            for second in [Mode::ByCount(5), Mode::ByCount(33), Mode::ByMaxSpacing(a.length() * 0.3)] { check_resample(r, &a, &sd, s.straight, second); }
            let src2 = a.pts();
            let reach2 = src2.iter().map(|p| d(p, &src2[0])).fold(0.0, f64::max);
            for e2 in [e * 0.5, e, e * 4.0] { if a.closed() && e2 >= reach2 / 2.0 { continue; } check_simplify(r, &a, &sd, e2); }
        }
    }
    // ---- RDP on degenerate inputs: one point, two points, repeated points, all points equal
    for dim in [2usize, 3] {
        let z = |x: f64, y: f64| -> P { if dim == 2 { [x, y, 0.0] } else { [x, y, x - y] } };
        let lists: Vec<Vec<P>> = vec![
            vec![z(1.0, 2.0)], vec![z(1.0, 2.0), z(3.0, -1.0)], vec![z(1.0, 2.0), z(1.0, 2.0)], vec![z(1.0, 2.0), z(1.0, 2.0), z(1.0, 2.0)],
            vec![z(0.0, 0.0), z(1.0, 1.0), z(1.0, 1.0), z(2.0, 0.0), z(2.0, 0.0), z(4.0, 0.0)],
            vec![z(0.0, 0.0), z(2.0, 0.0), z(1.0, 0.0), z(3.0, 0.0)], vec![z(0.0, 0.0), z(1.0, 0.0), z(2.0, 0.0), z(3.0, 0.0), z(4.0, 0.0)],
        ];
        for l in lists.iter() { for e in [0.0, 0.5, 1.0, 1.5, f64::INFINITY] { if l.len() >= 1 { check_rdp_raw(r, l, dim, e); } } }
    }
    // ---- gap filling: far from the origin, tiny and huge scales, exact ties d == k * max, identity when nothing is too far
    for (o, f) in [([0.0, 0.0, 0.0], 2f64.powi(-30)), ([0.0, 0.0, 0.0], 2f64.powi(20)), ([1.0e6, -3.0e5, 2.0e6], 1.0), ([-1.0e8, 1.0e8, 1.0e8], 1.0), ([1.0e3, 1.0e3, -1.0e3], 0.125)] {
        for dim in [2usize, 3] {
            let q = |x: f64, y: f64, z: f64| -> P { [o[0] + x * f, o[1] + y * f, if dim == 3 { o[2] + z * f } else { 0.0 } ] };
            let chain: Vec<P> = vec![q(0.0, 0.0, 0.0), q(3.0, 4.0, 0.0), q(3.0, 4.0, 0.0), q(3.0, 10.0, 8.0), q(3.5, 10.0, 8.0), q(-4.5, 10.0, 8.0), q(-4.5, 10.0, 8.0), q(0.0, 0.0, 0.0)];
            for m in [0.25, 0.5, 1.0, 1.25, 2.0, 2.5, 5.0, 8.0, 10.0, 64.0] { check_fill(r, &chain, dim, m * f); }
            // exact ties: an axis-parallel gap of k units with max = 1 unit (k = 1 .. 6), and max = gap (nothing to insert)
            for k in 1..=6 { let pair = vec![q(1.0, 2.0, 3.0), q(1.0 + k as f64, 2.0, 3.0)]; check_fill(r, &pair, dim, f); check_fill(r, &pair, dim, k as f64 * f); check_fill(r, &pair, dim, 0.5 * k as f64 * f); }
        }
    }
    // near ties: a gap a 2^-33 fraction longer / shorter than k times the maximum (k inserted points needed / k - 1 suffice)
    for dim in [2usize, 3] { for k in 1..=5usize { for sign in [-1.0, 1.0] { for f in [1.0, 2f64.powi(-12), 2f64.powi(9)] {
        let g = k as f64 * (1.0 + sign * 2f64.powi(-33)) * f;
        let pair: Vec<P> = if dim == 2 { vec![[2.0 * f, -1.0 * f, 0.0], [2.0 * f, -1.0 * f + g, 0.0]] } else { vec![[2.0 * f, -1.0 * f, f], [2.0 * f, -1.0 * f, f + g]] };
        check_fill(r, &pair, dim, f);
    } } } }
    // filling twice with the same maximum changes nothing (exact arithmetic cases: axis-parallel integer gaps, dyadic maxima)
    for dim in [2usize, 3] { for m in [0.25, 0.5, 1.0, 2.0, 4.0] {
        let pts: Vec<P> = vec![[0.0, 0.0, 0.0], [5.0, 0.0, 0.0], [5.0, 3.0, 0.0], [5.0, 3.0, 0.0], [-2.0, 3.0, 0.0], [-2.0, 3.5, 0.0]];
        r.case();
        let once: Vec<P> = if dim == 2 { fill_gaps(&pts.iter().map(to2).collect::<Vec<_>>(), m).iter().map(p2).collect() } else { fill_gaps(&pts.iter().map(to3).collect::<Vec<_>>(), m).iter().map(p3).collect() };
        let twice: Vec<P> = if dim == 2 { fill_gaps(&once.iter().map(to2).collect::<Vec<_>>(), m).iter().map(p2).collect() } else { fill_gaps(&once.iter().map(to3).collect::<Vec<_>>(), m).iter().map(p3).collect() };
        r.check(once == twice, "fill_gaps applied to its own result inserts nothing more (no pair is farther apart than max any more)", || format!("fill_gaps::<{}>(fill_gaps({:?}, {:?}), {:?}) -> {} points after {}", dim, pts, m, m, twice.len(), once.len()));
        check_fill(r, &once, dim, m);
    } }
}

const OPS: [&str; 7] = [".resample ByCount", ".resample BySpacing", ".resample ByMaxSpacing", ".simplify", "ramer_douglas_peucker: tol =", "fill_gaps: max_dist =", "evenly_spaced_points_between: n ="];
const BOUND: &str = "2D/3D curves: 17 families with small integer/dyadic vertices (open, naturally closed, force-closed, uneven vertex density) x power-of-two scales with total length in [1e-3, 1.3e3], plus straight segments of 45 lengths (1..20, 0.1..0.9, 1e-3..1e3) x every count 2..=130; resample by count (2..=31, 50, 64, 100, 101, 120), by spacing and by max spacing (10 relative + 9 absolute values); simplify with e in {0, 2^-10, 2^-7, 2^-5, 1/4, 1} x scale plus 1e-3 / 1e-2 on closed rings of extent ~0.02, and on resampled (dense) copies; fill_gaps / evenly_spaced_points_between on 2D/3D integer-grid point pairs and chains (incl. oblique gaps) x 11 maxima x 3 scales, and single gaps of 1000 .. 12000 times the maximum; NEAR-MULTIPLE: every family x (max) spacings (L -/+ d)/k, k in {1..6,10,17}, d in {0, tol/2, tol, 1e-6 L, 1e-9 L, 1e-11 L}, and 2D/3D straight / bent curves of length k*m + d (m in {2.5, 1, 0.3}, k in {1,4,7}, tol in {1e-4,1e-6}, d in {tol/2, 0.99 tol, tol/1024, 2 tol}); TINY EDGES: 2D/3D curves of 1300 edges of length 6e-7 / 7.7e-7 (tol 1e-9) and unit-size curves with 64 such edges around L/2; SEAM IN A STRAIGHT RUN: 4x2 rectangle outline (48 vertices) and dense octagon ring (24 vertices) started at every vertex, closed / force-closed / tilted 3D, simplified with e in {0, 2^-10, 0.01, 2^-5, 0.25} x scale; PLUS (wave 5, notes/w5_audit_C05.md) curves closed within tolerance (gap tol/2 .. tol, 2D/3D) / gap 1.5 tol, asymmetric non-convex closed hexagon (closed, force-closed, seam mid-edge, tilted 3D), hairpin, figure eight, curve tol in {0, 1e-12, 2^-10}, every family translated by 1e3 / 1e6 / 1e8, simplification tolerance tol/2, tol, 2 tol; counts 65, 1000, 4097, 10001 and spacings L/1500.25, L/2999.5; growing zig-zag of 100 / 300 / 1500 vertices (RDP recursion as deep as the curve is long); sequences resample-resample, resample-simplify, simplify-resample, simplify-simplify; RDP on 1 / 2 / repeated / identical points and e = +inf; fill_gaps at offsets 1e3 .. 1e8, scales 2^-30 / 2^20, exact ties gap == k max and near ties gap == k max (1 +- 2^-33), applied twice";
pub fn run() -> Option<Report> { Some(dog::run(BOUND, &OPS, run_inner)) }

fn run_inner() -> Report {
    let mut r = Report::new(BOUND);

    // ---------------------------------------------------------------- resampling
    let shapes = scaled_shapes(&[-12, -9, -6, -3, -1, 0, 1, 3, 6, 8]);
    for s in shapes.iter() {
        let cv = match s.build() { Some(c) => c, None => continue };
        resample_all(&mut r, &cv, &s.desc(), s.straight, &COUNTS);
    }
    // straight segments: the (length, count) pairs
    let mut lens: Vec<f64> = (1..=20).map(|k| k as f64).collect();
    for k in 1..=9 { lens.push(k as f64 / 10.0); }
    lens.extend_from_slice(&[100.0, 1000.0, 0.001, 0.003, 0.009, 250.0, 999.0, 12.5, 0.15, 0.35, 33.0, 60.0, 700.0, 1e-2, 0.07, 1234.5]);
    let all_counts: Vec<usize> = (2..=130).collect();
    for &l in lens.iter() {
        for dim in [2usize, 3] {
            for three in [false, true] {
                let pts: Vec<P> = if dim == 2 {
                    if three { vec![[0.0, 0.0, 0.0], [l / 4.0, 0.0, 0.0], [l, 0.0, 0.0]] } else { vec![[0.0, 0.0, 0.0], [l, 0.0, 0.0]] }
                } else if three { vec![[0.0, 0.0, 0.0], [0.0, 0.0, l / 4.0], [0.0, 0.0, l]] } else { vec![[0.0, 0.0, 0.0], [0.0, 0.0, l]] };
                let s = Shape { name: format!("segment L={:?}", l), dim, pts, fc: false, straight: true, tol: 1e-7 * l, unit: l };
                let cv = match s.build() { Some(c) => c, None => continue };
                let sd = s.desc();
                for &n in all_counts.iter() { check_resample(&mut r, &cv, &sd, true, Mode::ByCount(n)); }
                if !three { for f in [0.5, 0.3, 0.11, 1.0 / 7.0, 0.013] { check_resample(&mut r, &cv, &sd, true, Mode::BySpacing(f * l)); check_resample(&mut r, &cv, &sd, true, Mode::ByMaxSpacing(f * l)); } }
            }
        }
    }

    // near-multiple spacings on every family (three scales), and lengths built as k*m + d
    for s in scaled_shapes(&[-9, 0, 6]).iter() {
        let cv = match s.build() { Some(c) => c, None => continue };
        near_multiple_requests(&mut r, &cv, &s.desc(), s.straight);
    }
    near_multiple_lengths(&mut r);
    // edges shorter than 1e-6
    for s in tiny_edge_shapes().iter() {
        let cv = match s.build() { Some(c) => c, None => { r.check(false, "a curve with edges shorter than 1e-6 and a tolerance below the edge length can be built", || s.name.clone()); continue } };
        r.check(cv.pts().len() == s.pts.len(), "a curve with edges shorter than 1e-6 and a tolerance below the edge length keeps all its vertices", || s.name.clone());
        let sd = if s.pts.len() > 100 { format!("{} [{} vertices, first {:?}, edge vectors cycle as in tiny_edge_shapes(), tol={:?}]", s.name, s.pts.len(), &s.pts[..3], s.tol) } else { s.desc() };
        resample_all(&mut r, &cv, &sd, false, &[2, 3, 4, 5, 7, 9, 11, 16, 17, 33, 50, 64, 100, 101, 1000, 2601]);
        near_multiple_requests(&mut r, &cv, &sd, false);
    }

    // ---------------------------------------------------------------- simplification
    for s in seam_shapes().iter() {
        let cv = match s.build() { Some(c) => c, None => continue };
        let src = cv.pts();
        r.check(cv.closed(), "outline repeated at its first vertex / force-closed is a closed curve", || s.desc());
        for e in [0.0, 1.0 / 1024.0, 0.01, 1.0 / 32.0, 0.25] {
            check_simplify(&mut r, &cv, &s.desc(), e * s.unit);
            check_rdp_raw(&mut r, &src, s.dim, e * s.unit);
        }
    }
    let sshapes = scaled_shapes(&[-12, -8, -3, 0, 4, 6]);
    for s in sshapes.iter() {
        let cv = match s.build() { Some(c) => c, None => continue };
        let src = cv.pts();
        // a closed curve simplified with a tolerance as large as the curve itself collapses to a point: ill-posed
        let reach = src.iter().map(|p| d(p, &src[0])).fold(0.0, f64::max);
        let mut es: Vec<f64> = [0.0, 1.0 / 1024.0, 1.0 / 128.0, 1.0 / 32.0, 0.25, 1.0].iter().map(|e| e * s.unit).collect();
        es.push(1e-3); es.push(1e-2);
        for &e in es.iter() {
            if cv.closed() && e >= reach / 2.0 { continue; }
            check_simplify(&mut r, &cv, &s.desc(), e);
            check_rdp_raw(&mut r, &src, s.dim, e);
        }
        // dense copies (resampled by count), then simplified: uneven density after de-duplication at corners
        for n in [16usize, 30, 101] {
            if let Ok(dense) = cv.resample(Resample::ByCount(n)) {
                let sd = format!("{} .resample(ByCount({})).unwrap()", s.desc(), n);
                let dsrc = dense.pts();
                let reach = dsrc.iter().map(|p| d(p, &dsrc[0])).fold(0.0, f64::max);
                for &e in es.iter() {
                    if dense.closed() && e >= reach / 2.0 { continue; }
                    check_simplify(&mut r, &dense, &sd, e);
                }
            }
        }
    }
    // closed rings of extent 0.02 (not a power-of-two scale): e = 1e-3 and 1e-2
    for dim in [2usize, 3] {
        for fc in [false, true] {
            if dim == 3 && fc { continue; }
            let f = 0.02 / 6.0;
            let mut pts: Vec<P> = ring2().iter().map(|p| if dim == 2 { [p[0] * f, p[1] * f, 0.0] } else { [p[0] * f, p[1] * f, p[0] * f * 0.5] }).collect();
            if fc { pts.pop(); }
            let s = Shape { name: "octagon ring of extent 0.02".to_string(), dim, pts, fc, straight: false, tol: 1e-9, unit: f };
            if let Some(cv) = s.build() {
                for e in [1e-3, 1e-2, 1e-4, 2e-3] { check_simplify(&mut r, &cv, &s.desc(), e); check_rdp_raw(&mut r, &cv.pts(), dim, e); }
                resample_all(&mut r, &cv, &s.desc(), false, &[3, 4, 8, 17, 30, 64]);
            }
        }
    }
    // hairpins: the curve runs back beyond a vertex that is kept (own clause name: RDP measures to the infinite line)
    for dim in [2usize, 3] {
        for k in [-8, 0, 5] {
            let f = 2f64.powi(k);
            let pts: Vec<P> = v2(&[(0.0, 0.0), (-1.0, 0.0009765625), (3.0, 0.0)]).iter().map(|p| if dim == 2 { [p[0] * f, p[1] * f, 0.0] } else { [p[0] * f, 0.0, p[1] * f] }).collect();
            let s = Shape { name: "hairpin".to_string(), dim, pts, fc: false, straight: false, tol: 1e-7 * f, unit: f };
            if let Some(cv) = s.build() { check_simplify(&mut r, &cv, &s.desc(), f / 128.0); }
        }
    }

    // ---------------------------------------------------------------- gap filling
    let maxima = [0.25, 0.3, 0.5, 0.7, 1.0, 1.2, 1.5, 2.0, 3.0, 5.0, 100.0];
    for k in [0i32, -10, 8] {
        let f = 2f64.powi(k);
        // 2D: every gap from the origin to a point of the grid {-1..3}^2, and chains
        for x in -1..=3 { for y in -1..=3 {
            let pts = vec![[0.0, 0.0, 0.0], [x as f64 * f, y as f64 * f, 0.0]];
            for &m in maxima.iter() { check_fill(&mut r, &pts, 2, m * f); }
        } }
        for x in -1..=2 { for y in -1..=2 { for z in -1..=2 {
            let pts = vec![[0.0, 0.0, 0.0], [x as f64 * f, y as f64 * f, z as f64 * f]];
            for &m in maxima.iter() { check_fill(&mut r, &pts, 3, m * f); }
        } } }
        let chain2: Vec<P> = v2(&[(0.0, 0.0), (1.0, 1.0), (1.0, 1.0), (4.0, 5.0), (4.0, 5.5), (11.0, 5.5), (10.0, 4.0), (10.0, 4.0625), (0.0, 0.0)]).iter().map(|p| [p[0] * f, p[1] * f, 0.0]).collect();
        let chain3: Vec<P> = v3(&[(0.0, 0.0, 0.0), (1.0, -1.0, 1.0), (3.0, 1.0, 2.0), (3.0, 1.0, 2.0), (3.0, 1.0, 9.0), (2.5, 1.0, 9.0), (0.0, 0.0, 0.0)]).iter().map(|p| [p[0] * f, p[1] * f, p[2] * f]).collect();
        for &m in maxima.iter() {
            check_fill(&mut r, &chain2, 2, m * f);
            check_fill(&mut r, &chain3, 3, m * f);
            check_fill(&mut r, &chain2[..1], 2, m * f);
            check_fill(&mut r, &[], 3, m * f);
        }
        for n in 0..=6usize {
            for (a, b) in [([0.0, 0.0, 0.0], [2.0 * f, 0.0, 0.0]), ([0.0, 0.0, 0.0], [f, f, 0.0]), ([f, -f, 0.0], [-3.0 * f, 4.0 * f, 0.0]), ([f, f, 0.0], [f, f, 0.0])] { check_between(&mut r, &a, &b, 2, n); }
            for (a, b) in [([0.0, 0.0, 0.0], [f, -f, f]), ([f, 2.0 * f, 3.0 * f], [-f, 0.5 * f, 7.0 * f])] { check_between(&mut r, &a, &b, 3, n); }
        }
    }
    // single gaps of 1000 .. 12000 times the maximum (total lengths 1e-3 .. 1e3)
    for (a, b, m) in [([0.0, 0.0, 0.0], [1000.0, 0.0, 0.0], 0.5), ([0.0, 0.0, 0.0], [0.0, 300.0, 400.0], 0.25), ([0.0, 0.0, 0.0], [1.25, 0.0, 0.0], 0.0009765625), ([1.0, 1.0, 0.0], [1.0, 7.0, 8.0], 0.001), ([0.0, 0.0, 0.0], [0.0009765625, 0.0, 0.0], 0.0000003), ([0.0, 0.0, 0.0], [768.0, 1024.0, 0.0], 0.125)] {
        for dim in [2usize, 3] {
            if dim == 2 && (a[2] != 0.0 || b[2] != 0.0) { continue; }
            check_fill(&mut r, &[a, b], dim, m);
            check_fill(&mut r, &[b, a, b], dim, m * 1.5);
        }
    }
    // the vertex lists of the curve families as gap-filling input
    for s in scaled_shapes(&[-9, 0, 6]).iter() {
        for m in [0.3, 1.0, 2.5] { check_fill(&mut r, &s.pts, s.dim, m * s.unit); }
    }
    run_wave5(&mut r);
    r
}
