//! C18 bounded: angle normalisation, directed angles (angles and vectors), angular intervals, scalar intervals on an
//! enumerated set of special values: 0, +-pi, +-2pi and their one-ulp neighbours, tiny negatives, multiples of pi up to
//! 1e6, and a coarse grid. Oracles use sin/cos of the ORIGINAL argument ("denotes the same direction").
use super::Report;
use crate::common::{angle_in_direction, angle_signed_pi, angle_to_2pi, signed_compliment_2pi, AngleDir, AngleInterval, Interval};
use crate::geom2::{directed_angle, rot270, rot90, signed_angle, Vector2};
use std::f64::consts::PI;

fn up(x: f64) -> f64 { if x == 0.0 { f64::from_bits(1) } else if x > 0.0 { f64::from_bits(x.to_bits() + 1) } else { f64::from_bits(x.to_bits() - 1) } }
fn down(x: f64) -> f64 { -up(-x) }

fn same_dir(a: f64, b: f64, scale: f64) -> bool {
    // direction equality through sin/cos; the error of reducing `a` grows with |a|
    let t = 1e-9 * (1.0 + scale.abs());
    (a.sin() - b.sin()).abs() <= t && (a.cos() - b.cos()).abs() <= t
}

fn angles() -> Vec<f64> {
    let mut v = vec![];
    for base in [0.0, PI, -PI, 2.0 * PI, -2.0 * PI, PI / 2.0, -PI / 2.0, 3.0 * PI, -3.0 * PI, 17.0 * PI, -17.0 * PI, 1000.0 * PI, 1.0e6, -1.0e6, 123456.789] {
        v.push(base);
        v.push(up(base));
        v.push(down(base));
        v.push(up(up(base)));
        v.push(down(down(base)));
    }
    for k in -20..=20 { v.push(k as f64 * 0.37); v.push(k as f64 * PI / 4.0); }
    v.extend_from_slice(&[-1e-300, -1e-17, 1e-17, -f64::MIN_POSITIVE, 6.283185307179586, 6.283185307179587, -1.976121093834741, -1.9761210938347409, 53.40707511102649]);
    // a few ulps around odd multiples of pi (17 pi .. 61 pi)
    for k in [17.0, 19.0, 33.0, 61.0] { let b: f64 = k * PI; let mut x = b; for _ in 0..4 { x = up(x); v.push(x); v.push(-x); } let mut y = b; for _ in 0..4 { y = down(y); v.push(y); v.push(-y); } }
    v
}

pub fn run() -> Option<Report> {
    let mut r = Report::new("angles: ~330 special values (0, +-pi, +-2pi, odd multiples of pi up to 61pi, 1000pi, +-1e6, each with +-1 and +-2 ulp neighbours, grids of 0.37 and pi/4, tiny negatives); all pairs of a 60-value subset for directed angles; AngleInterval over 13 starts x 13 extents x 40 probes; vectors: 24 directions x 24 directions incl. equal and exactly opposite; Interval over 9 bound values incl. +-inf, 0, -0 and equal bounds; wave 5: whole turns up to 159155 x 2pi and angles 1e-6 .. 5e-324 around 0 / pi / 2pi, directed angles over 17 first angles (up to +-1e6) x (all pairs + 24 tie partners), vectors 24 x 24 directions x lengths {1e-9,1e-3,1,1e4,1e8}^2, AngleInterval 17 starts (up to +-1e6) x 21 extents (1e-13 .. 100, both signs, one ulp around a full turn) with probes 1e-9 inside / outside each end, intersects over (11 starts x 13 extents)^2 incl. point arcs and full turns + 8 exact ties, Interval over 15 bounds (f64::MIN/MAX, +-1e300, +-1e-300, subnormals) ^4 with ulp-neighbour probes");
    let av = angles();
    for &a in av.iter() {
        r.case();
        let d = || format!("angle {:?} (bits {:#x})", a, a.to_bits());
        let u = angle_to_2pi(a);
        r.check(u >= 0.0 && u <= 2.0 * PI, "angle_to_2pi result in [0, 2pi]", d);
        r.check(same_dir(u, a, a), "angle_to_2pi denotes the same direction", d);
        let s = angle_signed_pi(a);
        r.check(s >= -PI && s <= PI, "angle_signed_pi result in [-pi, pi]", d);
        r.check(same_dir(s, a, a), "angle_signed_pi denotes the same direction", d);
        if a >= -2.0 * PI && a <= 2.0 * PI {
            let c = signed_compliment_2pi(a);
            r.check(same_dir(c, a, a), "signed_compliment_2pi denotes the same direction", d);
            r.check(c >= -2.0 * PI && c <= 2.0 * PI && (a == 0.0 || c == 0.0 || (c > 0.0) != (a > 0.0)), "signed_compliment_2pi has the opposite sign, within [-2pi, 2pi]", d);
        }
    }
    let mut sub: Vec<f64> = av.iter().cloned().filter(|x| x.abs() <= 64.0).step_by(4).collect();
    // nearly equal pairs (one ulp apart): the directed angle must not leave [0, 2pi]
    for b in [-1.976121093834741f64, 0.1, 1.0, -3.0, 3.1, 2.5] { sub.push(b); sub.push(up(b)); sub.push(down(b)); }
    for &a in sub.iter() { for &b in sub.iter() {
        r.case();
        let d = || format!("angle_in_direction({:?}, {:?})", a, b);
        let cw = angle_in_direction(a, b, AngleDir::Cw);
        let ccw = angle_in_direction(a, b, AngleDir::Ccw);
        r.check(cw >= 0.0 && cw <= 2.0 * PI && ccw >= 0.0 && ccw <= 2.0 * PI, "directed angle between two angles in [0, 2pi]", d);
        r.check(same_dir(a + ccw, b, 64.0), "rotating the first angle counter-clockwise by the directed angle gives the second", d);
        r.check(same_dir(a - cw, b, 64.0), "rotating the first angle clockwise by the directed angle gives the second", d);
        r.check((cw + ccw - 2.0 * PI).abs() <= 1e-9 || (cw.abs() <= 1e-9 && ccw.abs() <= 1e-9) || ((cw - 2.0 * PI).abs() <= 1e-9 && ccw.abs() <= 1e-9) || ((ccw - 2.0 * PI).abs() <= 1e-9 && cw.abs() <= 1e-9),
                "cw + ccw directed angles sum to a full turn or are both zero", d);
    } }
    // vectors
    let mut dirs: Vec<Vector2> = vec![];
    for k in 0..24 { let t = k as f64 * PI / 12.0; dirs.push(Vector2::new(t.cos(), t.sin())); }
    dirs.extend_from_slice(&[Vector2::new(1.0, 0.0), Vector2::new(-1.0, 0.0), Vector2::new(0.0, 1.0), Vector2::new(0.0, -1.0), Vector2::new(0.3, -0.7), Vector2::new(-0.3, 0.7), Vector2::new(-2.0, -4.0), Vector2::new(1.0, 2.0), Vector2::new(2.0, 4.0)]);
    for v1 in dirs.iter() { for v2 in dirs.iter() {
        r.case();
        let d = || format!("v1=({:?},{:?}) v2=({:?},{:?})", v1.x, v1.y, v2.x, v2.y);
        let cw = directed_angle(v1, v2, AngleDir::Cw);
        let ccw = directed_angle(v1, v2, AngleDir::Ccw);
        r.check(cw >= 0.0 && cw <= 2.0 * PI && ccw >= 0.0 && ccw <= 2.0 * PI, "directed angle between two vectors in [0, 2pi]", d);
        let rot = |v: &Vector2, t: f64| Vector2::new(v.x * t.cos() - v.y * t.sin(), v.x * t.sin() + v.y * t.cos());
        let par = |a: Vector2, b: &Vector2| { let (na, nb) = (a.norm(), b.norm()); ((a.x / na - b.x / nb).abs() <= 1e-9) && ((a.y / na - b.y / nb).abs() <= 1e-9) };
        r.check(par(rot(v1, ccw), v2), "rotating the first vector counter-clockwise by the directed angle gives the second", d);
        r.check(par(rot(v1, -cw), v2), "rotating the first vector clockwise by the directed angle gives the second", d);
        r.check((cw + ccw - 2.0 * PI).abs() <= 1e-9 || (cw.abs() <= 1e-9 && ccw.abs() <= 1e-9), "cw + ccw directed vector angles sum to a full turn or are both zero", d);
        let s = signed_angle(v1, v2);
        r.check(s >= -PI && s <= PI && par(rot(v1, s), v2), "signed_angle in [-pi, pi] and rotates v1 onto v2", d);
    } }
    for dir in [AngleDir::Cw, AngleDir::Ccw] {
        let v = Vector2::new(0.6, 0.8);
        let a = rot90(dir) * v;
        let b = rot270(dir) * v;
        let e = if matches!(dir, AngleDir::Ccw) { Vector2::new(-0.8, 0.6) } else { Vector2::new(0.8, -0.6) };
        r.check((a - e).norm() <= 1e-12 && (b + e).norm() <= 1e-12, "rot90 / rot270 rotate by a quarter / three quarters of a turn in the stated direction", || format!("{:?}", dir));
    }
    // angular intervals
    let starts = [0.0, 0.5, PI, 2.0 * PI - 0.25, 2.0 * PI, -0.5, -PI, 7.0, -7.0, 1e-13, 3.0 * PI, 0.25, 6.0];
    let extents = [0.0, 0.25, 1.0, PI, 2.0 * PI - 0.5, 2.0 * PI, 7.0, -0.25, -1.0, -PI, -2.0 * PI, -7.0, 1e-9];
    for &s0 in starts.iter() { for &e0 in extents.iter() {
        r.case();
        let iv = AngleInterval::new(s0, e0);
        let d = || format!("AngleInterval::new({:?}, {:?})", s0, e0);
        r.check(iv.start() >= 0.0 && iv.start() <= 2.0 * PI && iv.angle() >= 0.0 && iv.angle() <= 2.0 * PI, "AngleInterval start and extent normalised to [0, 2pi]", d);
        // the swept set: from s0 through s0+e0 (either sign), capped at a full turn
        let sweep = if e0.abs() >= 2.0 * PI { 2.0 * PI * e0.signum() } else { e0 };
        for k in 0..=20 {
            let a = s0 + sweep * (k as f64) / 20.0;
            r.check(iv.contains(a) && iv.contains(a + 2.0 * PI) && iv.contains(a - 4.0 * PI), "an angle swept from start through extent is contained (any representative)", || format!("{} contains({:?})", d(), a));
        }
        if sweep.abs() < 2.0 * PI - 1e-3 {
            let gap = 2.0 * PI - sweep.abs();
            for k in 1..20 {
                // strictly inside the complementary arc, at least 1e-4 away from both ends
                let off = gap * (k as f64) / 20.0;
                if off < 1e-4 || gap - off < 1e-4 { continue; }
                let a = if sweep >= 0.0 { s0 + sweep + off } else { s0 + sweep - off };
                r.check(!iv.contains(a), "an angle outside the swept set is not contained", || format!("{} contains({:?})", d(), a));
            }
        }
        r.check((iv.at_fraction(0.0) - iv.start()).abs() <= 1e-12 && (iv.at_fraction(1.0) - (iv.start() + iv.angle())).abs() <= 1e-12, "at_fraction spans start..start+extent", d);
    } }
    // intersects <=> share an angle (brute force on a fine grid of the first interval vs. containment in the second)
    for &s0 in [0.0, 1.0, 3.0, 6.0].iter() { for &e0 in [0.5, 2.0, -1.0].iter() { for &s1 in [0.25, 2.5, 5.9, 4.0].iter() { for &e1 in [0.5, 3.0, -2.0].iter() {
        r.case();
        let a = AngleInterval::new(s0, e0);
        let b = AngleInterval::new(s1, e1);
        let mut share = false;
        let mut near = false;
        for k in 0..=2000 { let t = s0 + e0 * (k as f64) / 2000.0; if b.contains(t) { share = true; } }
        for k in 0..=2000 { let t = s1 + e1 * (k as f64) / 2000.0; if a.contains(t) { share = true; } }
        // avoid grazing configurations in the oracle
        for (x, y, ex) in [(s0, &b, e0), (s1, &a, e1)] { for end in [x, x + ex] { for eps in [-1e-6, 1e-6] { if y.contains(end + eps) != y.contains(end) { near = true; } } } }
        if !near {
            r.check(a.intersects(&b) == share && b.intersects(&a) == share, "angular intervals intersect exactly when they share an angle", || format!("new({:?},{:?}) vs new({:?},{:?})", s0, e0, s1, e1));
        }
    } } } }
    // scalar intervals
    let bounds = [f64::NEG_INFINITY, -1.0, -0.0, 0.0, 0.5, 1.0, 2.0, 3.0, f64::INFINITY];
    let probes = [f64::NEG_INFINITY, -2.0, -1.0, -0.5, 0.0, 0.25, 0.5, 0.75, 1.0, 1.5, 2.0, 2.5, 3.0, 4.0, f64::INFINITY];
    for &a0 in bounds.iter() { for &a1 in bounds.iter() {
        let ia = Interval::new(a0, a1);
        let d = || format!("Interval::new({:?}, {:?})", a0, a1);
        r.case();
        r.check(ia.min <= ia.max && ((ia.min == a0 && ia.max == a1) || (ia.min == a1 && ia.max == a0)), "scalar interval orders its bounds", d);
        for &x in probes.iter() {
            r.check(ia.contains(x) == (ia.min <= x && x <= ia.max), "contains agrees with min <= x <= max", || format!("{} contains({:?})", d(), x));
            let c = ia.clamp(x);
            r.check(ia.contains(c) && (!ia.contains(x) || c == x), "clamp lands inside and is the identity inside", || format!("{} clamp({:?})", d(), x));
        }
        for &b0 in bounds.iter() { for &b1 in bounds.iter() {
            let ib = Interval::new(b0, b1);
            let d2 = || format!("{} vs Interval::new({:?}, {:?})", d(), b0, b1);
            let lo = ia.min.max(ib.min); let hi = ia.max.min(ib.max);
            let common = lo <= hi;
            r.check(ia.overlaps(&ib) == common && ib.overlaps(&ia) == common, "overlaps <=> the intervals share a point", d2);
            match (ia.intersection(&ib), ib.intersection(&ia)) {
                (None, None) => r.check(!common, "intersection is None only when nothing is shared", d2),
                (Some(i), Some(j)) => {
                    r.check(common && i.min == lo && i.max == hi && j.min == lo && j.max == hi, "intersection is [max of mins, min of maxes], commutative", d2);
                    r.check(ia.contains_interval(&i) && ib.contains_interval(&i), "intersection is contained in both operands", d2);
                }
                _ => r.check(false, "intersection is commutative (Some/None)", d2),
            }
            r.check(ia.contains_interval(&ib) == (ia.min <= ib.min && ib.max <= ia.max), "contains_interval agrees with its set definition", d2);
        } }
    } }
    r.check(Interval::try_new(f64::NAN, 0.0).is_err() && Interval::try_new(0.0, f64::NAN).is_err() && Interval::try_new(1.0, 0.0).is_ok(), "try_new rejects exactly NaN bounds", || "NaN".to_string());
    wave5(&mut r);
    Some(r)
}

// ------------------------------------------------------------------------------------------------ wave 5
// Parameter-space audit (notes/w5_audit_C18.md): magnitudes (whole turns up to 1e6 rad, tiny angles, vectors scaled
// 1e-9 .. 1e8, scalar bounds up to f64::MAX and down to subnormals), exact ties (bit-equal angles, whole-turn and
// half-turn partners, arcs touching in exactly one angle, probes one ulp either side of a scalar bound), parameter
// relations (extent < tolerance, |extent| just above / below a full turn, both signs), point intervals.

/// (cos, sin) of b - a by the addition formulas: libm reduces each argument accurately, so this is the direction of
/// the difference without ever forming b - a (which would lose the low bits for |a| ~ 1e6)
fn diff_dir(a: f64, b: f64) -> (f64, f64) { (b.cos() * a.cos() + b.sin() * a.sin(), b.sin() * a.cos() - b.cos() * a.sin()) }

/// counter-clockwise distance from angle a to angle b in [0, 2pi), own arithmetic (rem_euclid)
fn ccw_dist(a: f64, b: f64) -> f64 { (b - a).rem_euclid(2.0 * PI) }

fn wave5(r: &mut Report) {
    let tp = 2.0 * PI;
    // ---- AngleDir: the sign convention every "in the stated direction" clause rests on
    r.case();
    r.check(AngleDir::Ccw.to_sign() == 1.0 && AngleDir::Cw.to_sign() == -1.0
            && matches!(AngleDir::from_sign(1.0), AngleDir::Ccw) && matches!(AngleDir::from_sign(-1.0), AngleDir::Cw)
            && matches!(AngleDir::from_sign(-1e-300), AngleDir::Cw) && matches!(AngleDir::from_sign(1e-300), AngleDir::Ccw)
            && matches!(AngleDir::Ccw.opposite(), AngleDir::Cw) && matches!(AngleDir::Cw.opposite(), AngleDir::Ccw),
            "AngleDir: counter-clockwise is the positive sign, clockwise the negative one, opposite swaps them", || "to_sign / from_sign / opposite".to_string());

    // ---- normalisation: whole turns (remainder exactly +-0), tiny angles of both signs, thresholds of the tolerance
    let mut extra: Vec<f64> = vec![];
    for k in [1.0f64, 2.0, 3.0, 1000.0, 159154.0, 159155.0] { for s in [1.0, -1.0] { let b = s * k * tp; extra.extend_from_slice(&[b, up(b), down(b)]); } }
    for e in [1e-6f64, 1e-9, 1e-12, 1e-13, 1e-15, 1e-16, 1e-100, 5e-324] { for s in [1.0, -1.0] {
        extra.extend_from_slice(&[s * e, s * (tp - e), s * (tp + e), s * (PI - e), s * (PI + e), s * (4.0 * tp - e)]);
    } }
    for &a in extra.iter() {
        r.case();
        let d = || format!("angle {:?} (bits {:#x})", a, a.to_bits());
        let u = angle_to_2pi(a);
        r.check(u >= 0.0 && u <= tp, "angle_to_2pi result in [0, 2pi]", d);
        r.check(same_dir(u, a, a), "angle_to_2pi denotes the same direction", d);
        let s = angle_signed_pi(a);
        r.check(s >= -PI && s <= PI, "angle_signed_pi result in [-pi, pi]", d);
        r.check(same_dir(s, a, a), "angle_signed_pi denotes the same direction", d);
        if a >= -tp && a <= tp {
            let c = signed_compliment_2pi(a);
            r.check(same_dir(c, a, a), "signed_compliment_2pi denotes the same direction", d);
            r.check(c >= -tp && c <= tp && (a == 0.0 || c == 0.0 || (c > 0.0) != (a > 0.0)), "signed_compliment_2pi has the opposite sign, within [-2pi, 2pi]", d);
        }
    }

    // ---- directed angle between two angles: large magnitudes, exact ties (bit-equal, whole-turn and half-turn partners)
    let firsts = [0.0, -0.0, 0.3, -2.9, PI, -PI, 3.0, 6.0, -6.2, 1.0e6, -1.0e6, 123456.789, -98765.4321, 1000.0 * PI, 159155.0 * tp, 1e-13, -1e-13];
    let mut pairs: Vec<(f64, f64)> = vec![];
    for &a in firsts.iter() {
        for &b in firsts.iter() { pairs.push((a, b)); }
        for off in [0.0, tp, -tp, 2.0 * tp, PI, -PI, 0.5, -0.5, 1e-9, -1e-9, 100.0 * tp, -100.0 * tp] { pairs.push((a, a + off)); pairs.push((a + off, a)); }
    }
    for &(a, b) in pairs.iter() {
        r.case();
        let d = || format!("angle_in_direction({:?}, {:?})", a, b);
        let cw = angle_in_direction(a, b, AngleDir::Cw);
        let ccw = angle_in_direction(a, b, AngleDir::Ccw);
        r.check(cw >= 0.0 && cw <= tp && ccw >= 0.0 && ccw <= tp, "directed angle between two angles in [0, 2pi]", d);
        // the reduction of an angle of size 1e6 by the double nearest to 2pi is off by ~1e6 / 2pi * 2.4e-16 = 4e-11
        let t = 1e-9 + 1e-15 * (a.abs() + b.abs());
        let (c, s) = diff_dir(a, b);
        r.check((ccw.cos() - c).abs() <= t && (ccw.sin() - s).abs() <= t, "rotating the first angle counter-clockwise by the directed angle gives the second", d);
        r.check((cw.cos() - c).abs() <= t && (cw.sin() + s).abs() <= t, "rotating the first angle clockwise by the directed angle gives the second", d);
        r.check((cw + ccw - tp).abs() <= 1e-9 || (cw.abs() <= 1e-9 && ccw.abs() <= 1e-9),
                "cw + ccw directed angles sum to a full turn or are both zero", d);
    }

    // ---- directed angle between two vectors: lengths 1e-9 .. 1e8 in every combination (the angle is scale free)
    let mut dirs: Vec<Vector2> = vec![];
    for k in 0..16 { let t = 0.1 + k as f64 * PI / 8.0; dirs.push(Vector2::new(t.cos(), t.sin())); }
    dirs.extend_from_slice(&[Vector2::new(1.0, 0.0), Vector2::new(-1.0, 0.0), Vector2::new(0.0, 1.0), Vector2::new(0.0, -1.0), Vector2::new(0.3, -0.7), Vector2::new(-0.3, 0.7), Vector2::new(3.0, 4.0), Vector2::new(-3.0, -4.0)]);
    let scales = [1e-9, 1e-3, 1.0, 1e4, 1e8];
    for v1 in dirs.iter() { for v2 in dirs.iter() {
        let base_ccw = directed_angle(v1, v2, AngleDir::Ccw);
        let base_cw = directed_angle(v1, v2, AngleDir::Cw);
        for &s1 in scales.iter() { for &s2 in scales.iter() {
            r.case();
            let (w1, w2) = (v1 * s1, v2 * s2);
            let d = || format!("v1=({:?},{:?}) v2=({:?},{:?})", w1.x, w1.y, w2.x, w2.y);
            let cw = directed_angle(&w1, &w2, AngleDir::Cw);
            let ccw = directed_angle(&w1, &w2, AngleDir::Ccw);
            r.check(cw >= 0.0 && cw <= tp && ccw >= 0.0 && ccw <= tp, "directed angle between two vectors in [0, 2pi]", d);
            r.check((cw + ccw - tp).abs() <= 1e-9 || (cw.abs() <= 1e-9 && ccw.abs() <= 1e-9), "cw + ccw directed vector angles sum to a full turn or are both zero", d);
            // same pair of directions => same directed angle (0 and 2pi denote the same rotation)
            let same = |x: f64, y: f64| (x - y).abs() <= 1e-9 || ((x - y).abs() - tp).abs() <= 1e-9;
            r.check(same(ccw, base_ccw) && same(cw, base_cw), "the directed angle between two vectors does not depend on their lengths", d);
            let rot = |v: &Vector2, t: f64| Vector2::new(v.x * t.cos() - v.y * t.sin(), v.x * t.sin() + v.y * t.cos());
            let par = |a: Vector2, b: &Vector2| { let (na, nb) = (a.norm(), b.norm()); ((a.x / na - b.x / nb).abs() <= 1e-9) && ((a.y / na - b.y / nb).abs() <= 1e-9) };
            r.check(par(rot(&w1, ccw), &w2), "rotating the first vector counter-clockwise by the directed angle gives the second", d);
            r.check(par(rot(&w1, -cw), &w2), "rotating the first vector clockwise by the directed angle gives the second", d);
            let s = signed_angle(&w1, &w2);
            r.check(s >= -PI && s <= PI && par(rot(&w1, s), &w2), "signed_angle in [-pi, pi] and rotates v1 onto v2", d);
        } }
    } }
    // rot90 / rot270 on every direction (a quarter turn is exact on the axes)
    for dir in [AngleDir::Cw, AngleDir::Ccw] { for v in dirs.iter() {
        r.case();
        let sg = dir.to_sign();
        let e = Vector2::new(-v.y * sg, v.x * sg);
        let (a, b) = (rot90(dir) * v, rot270(dir) * v);
        r.check((a - e).norm() <= 1e-12 * (1.0 + v.norm()) && (b + e).norm() <= 1e-12 * (1.0 + v.norm()), "rot90 / rot270 rotate by a quarter / three quarters of a turn in the stated direction", || format!("{:?} v=({:?},{:?})", dir, v.x, v.y));
    } }

    // ---- angular intervals: membership
    // (start, extent) families: starts many turns away, extents below the tolerance, at / one ulp around / beyond a full
    // turn in both signs. Probes: the swept set (interior only when the start is large: forming start + x rounds by
    // 1e-10 there), 1e-9 inside and 1e-9 outside each end (the documented tolerance is 1e-12), the complementary arc.
    let starts = [0.0, 0.5, 3.0, tp - 0.25, tp, up(tp), down(tp), tp - 1e-13, -1e-13, 1e-13, -0.5, 7.0, 200.0 * PI + 0.5, -200.0 * PI - 0.5, 1.0e6, -1.0e6, 123456.789];
    let extents = [0.0, 1e-13, 1e-6, 0.25, 1.0, PI, 6.0, down(tp), tp, up(tp), 100.0, -1e-13, -1e-6, -0.25, -1.0, -PI, -6.0, -down(tp), -tp, -up(tp), -100.0];
    for &s0 in starts.iter() { for &e0 in extents.iter() {
        r.case();
        let iv = AngleInterval::new(s0, e0);
        let d = || format!("AngleInterval::new({:?}, {:?})", s0, e0);
        r.check(iv.start() >= 0.0 && iv.start() <= tp && iv.angle() >= 0.0 && iv.angle() <= tp, "AngleInterval start and extent normalised to [0, 2pi]", d);
        let sweep = if e0.abs() >= tp { tp * e0.signum() } else { e0 };
        let big = s0.abs() > 50.0;
        let slack = if big { 1e-8 } else { 0.0 };
        for k in 0..=16 {
            if big && (k == 0 || k == 16) && sweep.abs() < tp { continue; }
            if big && sweep.abs() < 1e-5 { continue; }
            let a = s0 + sweep * (k as f64) / 16.0;
            r.check(iv.contains(a) && iv.contains(a + tp) && iv.contains(a - 2.0 * tp), "an angle swept from start through extent is contained (any representative)", || format!("{} contains({:?})", d(), a));
        }
        if !big {
            // the parametrisation of the sweep
            for f in [0.25, 0.5, 0.75] {
                let a = iv.at_fraction(f);
                r.check((a - (iv.start() + iv.angle() * f)).abs() <= 1e-12 && iv.contains(a), "at_fraction(f) is the angle a fraction f of the way through the sweep, and is contained", || format!("{} at_fraction({})", d(), f));
            }
            if sweep.abs() >= 1e-6 {
                for a in [s0 + 1e-9 * sweep.signum(), s0 + sweep - 1e-9 * sweep.signum()] {
                    r.check(iv.contains(a), "an angle 1e-9 inside an end of the sweep is contained", || format!("{} contains({:?})", d(), a));
                }
            }
        }
        let gap = tp - sweep.abs();
        if gap >= 1e-3 {
            for k in 1..16 {
                let off = gap * (k as f64) / 16.0;
                if off < 1e-4 || gap - off < 1e-4 { continue; }
                let a = if sweep >= 0.0 { s0 + sweep + off } else { s0 + sweep - off };
                r.check(!iv.contains(a) && !iv.contains(a - tp), "an angle outside the swept set is not contained", || format!("{} contains({:?})", d(), a));
            }
            let sg = if sweep >= 0.0 { 1.0 } else { -1.0 };
            for a in [s0 - sg * (1e-9 + slack), s0 + sweep + sg * (1e-9 + slack)] {
                r.check(!iv.contains(a), "an angle 1e-9 outside an end of the sweep is not contained", || format!("{} contains({:?})", d(), a));
            }
        }
    } }

    // ---- angular intervals: intersects <=> the two swept arcs share an angle (closed form: one arc starts inside the
    // other), over point arcs, full turns, wrapping arcs, negative extents; grazing pairs (an end within 1e-6 of the other
    // arc's end) are left to the deliberate ties below
    let st = [0.0, 0.5, 1.0, 3.0, 5.5, 6.0, 6.25, -1.0, 7.0, tp, 200.0 * PI + 0.5];
    let ex = [0.0, 0.25, 0.5, 1.0, 2.0, 3.5, 6.0, tp, 7.0, -0.5, -1.0, -2.0, -7.0];
    let arc = |s: f64, e: f64| -> (f64, f64) { if e.abs() >= tp { (s, tp) } else if e < 0.0 { (s + e, -e) } else { (s, e) } };
    for &s0 in st.iter() { for &e0 in ex.iter() { for &s1 in st.iter() { for &e1 in ex.iter() {
        r.case();
        let (a0, l0) = arc(s0, e0);
        let (a1, l1) = arc(s1, e1);
        let (d01, d10) = (ccw_dist(a0, a1), ccw_dist(a1, a0));
        // a1 lies in arc 0 <=> d01 <= l0; grazing when d01 is within 1e-6 of l0 (or of a whole turn: coincident starts are fine)
        let graze = |dd: f64, l: f64| (dd - l).abs() < 1e-6 && l < tp;
        if graze(d01, l0) || graze(d10, l1) || graze(d01 - tp, l0) || graze(d10 - tp, l1) { continue; }
        let share = d01 <= l0 || d10 <= l1 || d01 > tp - 1e-9 || d10 > tp - 1e-9;
        let a = AngleInterval::new(s0, e0);
        let b = AngleInterval::new(s1, e1);
        r.check(a.intersects(&b) == share && b.intersects(&a) == share, "angular intervals intersect exactly when they share an angle", || format!("new({:?},{:?}) vs new({:?},{:?})", s0, e0, s1, e1));
    } } } }
    // deliberate ties (dyadic values, exact arithmetic): closed arcs that touch in exactly one angle share it
    for &(s0, e0, s1, e1) in [(0.5, 0.5, 1.0, 0.25), (1.0, 0.25, 0.5, 0.5), (0.5, 0.5, 1.0, 0.0), (1.0, 0.0, 1.0, 0.0), (2.0, -0.5, 2.0, 0.5), (2.0, -0.5, 1.0, 0.5), (1.5, 0.5, 3.0, -1.0), (0.25, 0.0, 0.0, 0.25)].iter() {
        r.case();
        let a = AngleInterval::new(s0, e0);
        let b = AngleInterval::new(s1, e1);
        r.check(a.intersects(&b) && b.intersects(&a), "angular intervals that touch in exactly one angle intersect", || format!("new({:?},{:?}) vs new({:?},{:?})", s0, e0, s1, e1));
    }

    // ---- scalar intervals: magnitudes (f64::MAX, subnormals), ulp neighbours of the bounds as probes, try_new == new,
    // clamp == nearest point
    let bounds = [f64::NEG_INFINITY, f64::MIN, -1e300, -1.0, -1e-300, -5e-324, -0.0, 0.0, 5e-324, 1e-300, 1.0, up(1.0), 1e300, f64::MAX, f64::INFINITY];
    let mut probes: Vec<f64> = vec![];
    for &b in bounds.iter() { probes.push(b); if b.is_finite() { probes.push(up(b)); probes.push(down(b)); } }
    probes.extend_from_slice(&[0.5, -0.5, 2.0, 1e100, -1e100]);
    for &a0 in bounds.iter() { for &a1 in bounds.iter() {
        r.case();
        let ia = Interval::new(a0, a1);
        let d = || format!("Interval::new({:?}, {:?})", a0, a1);
        r.check(ia.min <= ia.max && ((ia.min == a0 && ia.max == a1) || (ia.min == a1 && ia.max == a0)), "scalar interval orders its bounds", d);
        match Interval::try_new(a0, a1) {
            Ok(t) => r.check(t.min == ia.min && t.max == ia.max, "try_new orders its bounds like new", d),
            Err(_) => r.check(false, "try_new rejects exactly NaN bounds", d),
        }
        for &x in probes.iter() {
            let dx = || format!("{} probe {:?} (bits {:#x})", d(), x, x.to_bits());
            r.check(ia.contains(x) == (ia.min <= x && x <= ia.max), "contains agrees with min <= x <= max", dx);
            let c = ia.clamp(x);
            r.check(ia.contains(c) && (!ia.contains(x) || c == x), "clamp lands inside and is the identity inside", dx);
            r.check(if x < ia.min { c == ia.min } else if x > ia.max { c == ia.max } else { c == x }, "clamp returns the nearest point of the interval (the violated bound outside)", dx);
        }
        for &b0 in bounds.iter() { for &b1 in bounds.iter() {
            let ib = Interval::new(b0, b1);
            let d2 = || format!("{} vs Interval::new({:?}, {:?})", d(), b0, b1);
            let lo = ia.min.max(ib.min); let hi = ia.max.min(ib.max);
            let common = lo <= hi;
            r.check(ia.overlaps(&ib) == common && ib.overlaps(&ia) == common, "overlaps <=> the intervals share a point", d2);
            match (ia.intersection(&ib), ib.intersection(&ia)) {
                (None, None) => r.check(!common, "intersection is None only when nothing is shared", d2),
                (Some(i), Some(j)) => {
                    r.check(common && i.min == lo && i.max == hi && j.min == lo && j.max == hi, "intersection is [max of mins, min of maxes], commutative", d2);
                    r.check(ia.contains_interval(&i) && ib.contains_interval(&i), "intersection is contained in both operands", d2);
                }
                _ => r.check(false, "intersection is commutative (Some/None)", d2),
            }
            r.check(ia.contains_interval(&ib) == (ia.min <= ib.min && ib.max <= ia.max), "contains_interval agrees with its set definition", d2);
        } }
    } }
}
