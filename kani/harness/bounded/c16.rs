//! C16 bounded: "Deviations equal signed distance and aggregates track their contents" on the REAL code over
//!  (a) SurfaceDeviationSet: every push history of length <= 5 over the 7 values {-1, -next_up(0.1), -0.1, 0, 0.1,
//!      next_up(0.1), 1} (repeats = ties, one-ulp neighbours), started from default(), from new(vec![]) and from
//!      new(first k items) for every k: after EVERY step max / min / symmetrical_zone_size are compared with the
//!      brute-force extremes of everything held;
//!  (b) tolerance maps: every ascending (repeats allowed) breakpoint table of length 0..=4 over {-1, 0, 0.5, 2, 3} with
//!      one distinct zone per breakpoint, queried at every breakpoint exactly, its one-ulp neighbours, every midpoint,
//!      below the first and beyond the last;
//!  (c) PointCloud: every sequence of <= 3 operations among append (4 presence combinations) / merge (4 presence
//!      combinations x {0, 2} points) / create_from_indices (3 index lists) from each of 12 starting clouds (try_new with
//!      every presence combination x {0, 2} points, empty(..) with every combination), plus try_new over all 3x3x3
//!      presence / length combinations, compared step by step with a three-array model;
//!  (d) Distance::{new, value, reversed} on integer points with 9 directions (2D and 3D), and on end points offset by
//!      1e3 and 1e6 from the origin at separations 1e-3..1 (value == projection of b-a within 1e-12 of the separation,
//!      unchanged under reversal); point_curve2_deviation /
//!      line_surface_deviations on a closed CCW square of side 4 and an open L-shaped polyline, and
//!      Mesh::measure_point_deviation (both modes) on a 4x4x4 box: measured points on both sides of edge / face
//!      interiors, off corners (and box edges) and beyond the ends of the open curve, at distances 1e-7, 1e-5, 1e-4,
//!      1e-2 and 1, compared with a brute-force closest-point oracle;
//!  (a2, wave 4) SurfaceDeviationSet::new on every vector of length 1..=3 over {+-f64::MAX, +-inf, 0, +-1, +-MIN_POSITIVE,
//!      +-5e-324} followed by every single push from the same pool: extremes are Some and true, nothing panics;
//!  (b2, wave 4) breakpoint tables as the constructors deliver them: DiscreteDomain::try_from on every vector of length
//!      0..=4 over 11 values whose neighbours are one rounding step apart (accepted exactly when ascending in the sense
//!      w[0] <= w[1]), DiscreteDomain::push histories of length <= 4 (a value below the LAST breakpoint is refused and
//!      changes nothing), every resulting map queried as in (b).
//!  (wave 5, notes/w5_audit_C16.md) sizes, magnitudes, ties, long histories and shape classes:
//!  (a3) deviation sets of 2 .. 4097 (70000) items in 15 value patterns x 5 ways of building, running-extreme oracle after
//!      every push; (b3) breakpoint tables of 1 .. 4097 values in 9 families built by try_from / push / linear, signed
//!      zeros, queries at every breakpoint, +-1 ulp, midpoints, +-inf, +-f64::MAX; (c3) clouds of 33 .. 4097 points, four
//!      1100-step histories of accepted / refused appends and merges, self-merges and large index selections; (d3) all
//!      distance clauses in 2D and 3D on coordinates scaled 2^-30 .. 2^27 and offset up to 1e8, deviation records;
//!      (e3) curve deviations on 12 shapes (CW, slanted, reflex corner, hairpin, spur, single segment, closed three ways),
//!      moved by 2^10 / 2^20 / 2^27, scaled by 2^-10 / 2^10, zigzags of up to 5000 edges, offsets 0, around 1e-6, 100, 1e4,
//!      directions exactly on and within 1e-7 / 1e-9 of a tangent, interval bounds exactly on a station; (f3) mesh
//!      deviations on an asymmetric box (is_solid both ways), tetrahedron, open rectangles of both windings, single and
//!      hovering triangles, the same moved / scaled, a corrugated sheet of 131072 triangles, an open faceted cylinder.
use super::Report;
use crate::common::{DiscreteDomain, DistMode, Interval, SurfacePoint};
use crate::geom2::{Curve2, Point2, UnitVec2, Vector2};
use crate::geom3::{Mesh, Point3, PointCloud, PointCloudFeatures, UnitVec3, Vector3};
use crate::metrology::line_profiles::{line_surface_deviations, point_curve2_deviation};
use crate::metrology::{
    ConstantTolMap, DiscreteDomainTolMap, Distance2, Distance3, Measurement, SurfaceDeviation2, SurfaceDeviationSet2,
    Tolerance, ToleranceMap,
};

fn next_up(x: f64) -> f64 { f64::from_bits(x.to_bits() + 1) } // x > 0
fn next_down_pos(x: f64) -> f64 { f64::from_bits(x.to_bits() - 1) } // x > 0
fn ulp_up(x: f64) -> f64 { if x > 0.0 { next_up(x) } else if x < 0.0 { -next_down_pos(-x) } else { f64::from_bits(1) } }
fn ulp_down(x: f64) -> f64 { -ulp_up(-x) }
/// lengths of a few ulps: absolute 1e-12 plus relative 1e-9
fn near(a: f64, b: f64) -> bool { (a - b).abs() <= 1e-12 + 1e-9 * a.abs().max(b.abs()) }

// ------------------------------------------------------------------------------------------------ (a) deviation sets
fn dev(k: usize, d: f64) -> SurfaceDeviation2 {
    // the reference point carries the insertion position, so that a reported extreme can be identified among ties
    SurfaceDeviation2::new(SurfacePoint::new(Point2::new(k as f64, 0.0), UnitVec2::new_unchecked(Vector2::new(0.0, 1.0))), d)
}

fn check_set(r: &mut Report, s: &SurfaceDeviationSet2, held: &[f64], how: &dyn Fn() -> String) {
    r.check(s.len() == held.len(), "set: holds exactly what was constructed and pushed (count)", how);
    let mut same = s.len() == held.len();
    if same { for i in 0..held.len() { same &= s[i].deviation == held[i] && s[i].surface.point.x == i as f64; } }
    r.check(same, "set: holds exactly what was constructed and pushed, in order", how);
    if held.is_empty() {
        r.check(s.max().is_none(), "set: no maximum when nothing is held", how);
        r.check(s.min().is_none(), "set: no minimum when nothing is held", how);
        r.check(s.symmetrical_zone_size() == 0.0, "set: symmetric zone of nothing is 0", how);
        return;
    }
    let bmax = held.iter().cloned().fold(f64::NEG_INFINITY, f64::max);
    let bmin = held.iter().cloned().fold(f64::INFINITY, f64::min);
    let babs = held.iter().cloned().fold(0.0f64, |a, v| a.max(v.abs()));
    match s.max() {
        None => r.check(false, "set: reports the true maximum of everything held", how),
        Some(m) => {
            r.check(m.deviation == bmax, "set: reports the true maximum of everything held", how);
            let k = m.surface.point.x as usize;
            r.check(k < held.len() && held[k] == m.deviation, "set: the reported maximum is one of the held items", how);
        }
    }
    match s.min() {
        None => r.check(false, "set: reports the true minimum of everything held", how),
        Some(m) => {
            r.check(m.deviation == bmin, "set: reports the true minimum of everything held", how);
            let k = m.surface.point.x as usize;
            r.check(k < held.len() && held[k] == m.deviation, "set: the reported minimum is one of the held items", how);
        }
    }
    r.check(s.symmetrical_zone_size() == 2.0 * babs, "set: symmetric zone is twice the largest |deviation| held", how);
}

fn deviation_sets(r: &mut Report) {
    let nu = next_up(0.1);
    let vals = [-1.0, -nu, -0.1, 0.0, 0.1, nu, 1.0];
    let nv = vals.len();
    for n in 0..=5usize {
        let total = nv.pow(n as u32);
        for code in 0..total {
            let mut h = Vec::with_capacity(n);
            let mut c = code;
            for _ in 0..n { h.push(vals[c % nv]); c /= nv; }
            // start: None = default(); Some(k) = new(first k items)
            let mut starts: Vec<Option<usize>> = vec![None];
            for k in 0..=n { starts.push(Some(k)); }
            for st in starts {
                r.case();
                let k0 = st.unwrap_or(0);
                let mut s = match st {
                    None => SurfaceDeviationSet2::default(),
                    Some(k) => SurfaceDeviationSet2::new((0..k).map(|i| dev(i, h[i])).collect()),
                };
                for step in k0..=n {
                    let how = || format!("{} then push {:?} (history {:?}, checked after {} items)",
                        match st { None => "default()".to_string(), Some(k) => format!("new({:?})", &h[..k]) }, &h[k0..step], h, step);
                    check_set(r, &s, &h[..step], &how);
                    if step < n {
                        // alternate the two push entry points
                        if step % 2 == 0 { s.push(dev(step, h[step])); } else { let d = dev(step, h[step]); s.push_new(d.surface, d.deviation); }
                    }
                }
            }
        }
    }
}

// ------------------------------------------------------------------------------------------------ (b) tolerance maps
fn tolerance_maps(r: &mut Report) {
    let pool = [-1.0, 0.0, 0.5, 2.0, 3.0];
    // every non-decreasing table of length 0..=4 over the pool
    let mut tables: Vec<Vec<f64>> = vec![vec![]];
    let mut frontier: Vec<Vec<usize>> = vec![vec![]];
    for _ in 0..4 {
        let mut next = vec![];
        for t in frontier.iter() {
            let lo = t.last().cloned().unwrap_or(0);
            for j in lo..pool.len() { let mut u = t.clone(); u.push(j); next.push(u); }
        }
        for t in next.iter() { tables.push(t.iter().map(|&j| pool[j]).collect()); }
        frontier = next;
    }
    let zone = |i: usize| Tolerance::new_unchecked(-(i as f64) - 1.0, i as f64 + 0.5);
    for t in tables.iter() {
        let n = t.len();
        let domain = if n == 0 { DiscreteDomain::default() } else {
            match DiscreteDomain::try_from(t.clone()) { Ok(d) => d, Err(_) => { r.check(false, "tolmap: an ascending finite table is a valid domain", || format!("{:?}", t)); continue; } }
        };
        // one zone per breakpoint is required
        if n > 0 {
            let short: Vec<Tolerance> = (0..n - 1).map(zone).collect();
            r.check(DiscreteDomainTolMap::try_new(domain.clone(), short).is_err(), "tolmap: a zone list shorter than the table is rejected", || format!("{:?}", t));
        }
        let long: Vec<Tolerance> = (0..n + 1).map(zone).collect();
        r.check(DiscreteDomainTolMap::try_new(domain.clone(), long).is_err(), "tolmap: a zone list longer than the table is rejected", || format!("{:?}", t));
        let map = match DiscreteDomainTolMap::try_new(domain, (0..n).map(zone).collect()) {
            Ok(m) => m,
            Err(_) => { r.check(false, "tolmap: one zone per breakpoint is accepted", || format!("{:?}", t)); continue; }
        };
        r.check(map.domain.values() == &t[..] && map.tol_zones.len() == n, "tolmap: construction keeps table and zones", || format!("{:?}", t));
        let mut xs: Vec<f64> = vec![-5.0, 10.0, 0.25];
        for (i, &b) in t.iter().enumerate() {
            xs.push(b); xs.push(ulp_up(b)); xs.push(ulp_down(b));
            if i + 1 < n { xs.push(0.5 * (b + t[i + 1])); }
        }
        if n > 0 { xs.push(t[0] - 1.0); xs.push(t[n - 1] + 1.0); }
        for &x in xs.iter() {
            r.case();
            let how = || format!("breakpoints {:?} (zone i = [-(i+1), i+0.5]), get({:?})", t, x);
            let got = map.get(x);
            // the greatest breakpoint not above x (its value; with repeated breakpoints any of their zones)
            let mut best: Option<f64> = None;
            for &b in t.iter() { if b <= x { best = Some(match best { Some(c) if c > b => c, _ => b }); } }
            match best {
                None => r.check(got.is_none(), "tolmap: no zone below the first breakpoint (or on an empty table)", how),
                Some(bv) => match got {
                    None => r.check(false, "tolmap: zone of the greatest breakpoint not above x", how),
                    Some(z) => {
                        let ok = (0..n).any(|i| t[i] == bv && z.lower == zone(i).lower && z.upper == zone(i).upper);
                        if x > t[n - 1] {
                            r.check(ok, "tolmap: the last zone beyond the end", how);
                        } else if x == bv {
                            r.check(ok, "tolmap: exactly on a breakpoint the zone of that breakpoint", how);
                        } else {
                            r.check(ok, "tolmap: zone of the greatest breakpoint not above x", how);
                        }
                    }
                },
            }
        }
    }
    // the constant map returns its zone everywhere
    let c = ConstantTolMap::new(zone(7));
    for x in [-1e9, -1.0, 0.0, 2.5, 1e9] {
        r.case();
        let z = c.get(x);
        r.check(matches!(z, Some(z) if z.lower == zone(7).lower && z.upper == zone(7).upper), "tolmap: a constant map returns its zone for every x", || format!("x = {:?}", x));
    }
}

// ------------------------------------------------------------------------------------------------ (c) point clouds
#[derive(Clone, Debug, PartialEq)]
struct Model { p: Vec<[f64; 3]>, n: Option<Vec<[f64; 3]>>, c: Option<Vec<[u8; 3]>> }

fn label_point(k: usize) -> Point3 { Point3::new(k as f64, 0.5 * k as f64, -(k as f64)) }
fn label_normal(k: usize) -> UnitVec3 { UnitVec3::new_normalize(Vector3::new(1.0, k as f64, 2.0)) }
fn label_color(k: usize) -> [u8; 3] { [(k % 251) as u8, ((k / 251) % 251) as u8, 7] }
fn arr(n: &UnitVec3) -> [f64; 3] { [n.x, n.y, n.z] }

fn observe(pc: &PointCloud) -> Model {
    Model {
        p: pc.points().iter().map(|p| [p.x, p.y, p.z]).collect(),
        n: pc.normals().map(|v| v.iter().map(arr).collect()),
        c: pc.colors().map(|v| v.to_vec()),
    }
}

/// build `count` labelled elements starting at label `from`
fn make(from: usize, count: usize, hn: bool, hc: bool) -> (Vec<Point3>, Option<Vec<UnitVec3>>, Option<Vec<[u8; 3]>>, Model) {
    let p: Vec<Point3> = (from..from + count).map(label_point).collect();
    let n: Option<Vec<UnitVec3>> = if hn { Some((from..from + count).map(label_normal).collect()) } else { None };
    let c: Option<Vec<[u8; 3]>> = if hc { Some((from..from + count).map(label_color).collect()) } else { None };
    let m = Model { p: p.iter().map(|q| [q.x, q.y, q.z]).collect(), n: n.as_ref().map(|v| v.iter().map(arr).collect()), c: c.clone() };
    (p, n, c, m)
}

fn lengths_equal(r: &mut Report, pc: &PointCloud, how: &dyn Fn() -> String) {
    let l = pc.points().len();
    r.check(pc.len() == l && pc.is_empty() == (l == 0), "cloud: len / is_empty report the number of points", how);
    r.check(pc.normals().map_or(true, |v| v.len() == l), "cloud: normals, when present, are as long as points", how);
    r.check(pc.colors().map_or(true, |v| v.len() == l), "cloud: colours, when present, are as long as points", how);
}

#[derive(Clone, Copy, Debug)]
enum Op { Append(bool, bool), Merge(bool, bool, usize), Select(usize) }

fn apply(r: &mut Report, pc: &mut PointCloud, m: &mut Model, op: Op, label: &mut usize, how: &dyn Fn() -> String) {
    let before = observe(pc);
    r.check(before == *m, "cloud: the three arrays hold exactly the elements added so far", how);
    match op {
        Op::Append(hn, hc) => {
            let k = *label; *label += 1;
            let res = pc.append(label_point(k), if hn { Some(label_normal(k)) } else { None }, if hc { Some(label_color(k)) } else { None });
            let accept = m.n.is_some() == hn && m.c.is_some() == hc;
            r.check(res.is_ok() == accept, "cloud: append is accepted exactly when normal / colour presence matches the cloud", how);
            if res.is_ok() {
                let q = label_point(k);
                m.p.push([q.x, q.y, q.z]);
                if hn { if let Some(v) = m.n.as_mut() { v.push(arr(&label_normal(k))); } }
                if hc { if let Some(v) = m.c.as_mut() { v.push(label_color(k)); } }
                r.check(observe(pc) == *m || !accept, "cloud: an accepted append adds exactly the given point, normal and colour at the end", how);
                if !accept { *m = observe(pc); }
            } else {
                r.check(observe(pc) == before, "cloud: a rejected append changes nothing", how);
            }
        }
        Op::Merge(hn, hc, cnt) => {
            let (p, n, c, om) = make(*label, cnt, hn, hc);
            *label += cnt;
            let other = match PointCloud::try_new(p, n, c) { Ok(o) => o, Err(_) => { r.check(false, "cloud: try_new accepts arrays of equal length", how); return; } };
            let res = pc.merge(other);
            let accept = m.n.is_some() == hn && m.c.is_some() == hc;
            r.check(res.is_ok() == accept, "cloud: merge is accepted exactly when both clouds agree on the presence of normals and colours", how);
            if res.is_ok() {
                m.p.extend(om.p.iter().cloned());
                if let (Some(a), Some(b)) = (m.n.as_mut(), om.n.as_ref()) { a.extend(b.iter().cloned()); }
                if let (Some(a), Some(b)) = (m.c.as_mut(), om.c.as_ref()) { a.extend(b.iter().cloned()); }
                r.check(observe(pc) == *m || !accept, "cloud: an accepted merge appends exactly the other cloud's elements, in order", how);
                if !accept { *m = observe(pc); }
            } else {
                r.check(observe(pc) == before, "cloud: a rejected merge changes nothing", how);
            }
        }
        Op::Select(kind) => {
            let l = m.p.len();
            let idx: Vec<usize> = match kind { 0 => vec![], 1 => if l > 0 { vec![0] } else { vec![] }, _ => if l > 0 { vec![l - 1, 0, l - 1, l / 2] } else { vec![] } };
            // a cloud that already broke the invariant may panic inside create_from_indices: reported by the clauses above
            if !(m.n.as_ref().map_or(true, |v| v.len() == l) && m.c.as_ref().map_or(true, |v| v.len() == l)) { return; }
            let sel = pc.create_from_indices(&idx);
            let want = Model {
                p: idx.iter().map(|&i| m.p[i]).collect(),
                n: m.n.as_ref().map(|v| idx.iter().map(|&i| v[i]).collect()),
                c: m.c.as_ref().map(|v| idx.iter().map(|&i| v[i]).collect()),
            };
            r.check(observe(&sel) == want, "cloud: an index selection holds exactly the selected elements of every present array", how);
            r.check(observe(pc) == before, "cloud: an index selection leaves the source unchanged", how);
            *pc = sel; *m = want;
        }
    }
    lengths_equal(r, pc, how);
}

fn point_clouds(r: &mut Report) {
    // try_new over every presence / length combination (0 = absent, 1 = present with the right length, 2 = present, one
    // short, 3 = present, one long)
    for np in [0usize, 1, 2] {
        for kn in 0..4usize { for kc in 0..4usize {
            let len_of = |k: usize| match k { 1 => Some(np), 2 => if np > 0 { Some(np - 1) } else { None }, 3 => Some(np + 1), _ => None };
            if (kn == 2 || kc == 2) && np == 0 { continue; }
            r.case();
            let p: Vec<Point3> = (0..np).map(label_point).collect();
            let n: Option<Vec<UnitVec3>> = if kn == 0 { None } else { Some((0..len_of(kn).unwrap()).map(label_normal).collect()) };
            let c: Option<Vec<[u8; 3]>> = if kc == 0 { None } else { Some((0..len_of(kc).unwrap()).map(label_color).collect()) };
            let how = || format!("try_new({} points, normals {:?}, colours {:?})", np, n.as_ref().map(|v| v.len()), c.as_ref().map(|v| v.len()));
            let accept = kn <= 1 && kc <= 1;
            let want = Model { p: p.iter().map(|q| [q.x, q.y, q.z]).collect(), n: n.as_ref().map(|v| v.iter().map(arr).collect()), c: c.clone() };
            match PointCloud::try_new(p.clone(), n.clone(), c.clone()) {
                Ok(pc) => {
                    r.check(accept, "cloud: try_new rejects a normal / colour array whose length differs from points", how);
                    if accept { r.check(observe(&pc) == want, "cloud: try_new keeps the given arrays", how); }
                    lengths_equal(r, &pc, &how);
                }
                Err(_) => r.check(!accept, "cloud: try_new accepts arrays of equal length", how),
            }
        } }
    }
    // conversions and the rigid transform keep the arrays the same length (and the colours untouched)
    for np in [0usize, 1, 3] {
        let p: Vec<Point3> = (0..np).map(label_point).collect();
        for nn in [np, np + 1] {
            r.case();
            let n: Vec<UnitVec3> = (0..nn).map(label_normal).collect();
            let how = || format!("PointCloud::try_from(({} points, {} normals))", np, nn);
            match PointCloud::try_from((&p[..], &n[..])) {
                Ok(pc) => {
                    r.check(nn == np, "cloud: try_from(points, normals) rejects arrays of different length", how);
                    r.check(observe(&pc) == Model { p: p.iter().map(|q| [q.x, q.y, q.z]).collect(), n: Some(n.iter().map(arr).collect()), c: None }, "cloud: try_from(points, normals) keeps the given arrays", how);
                    lengths_equal(r, &pc, &how);
                }
                Err(_) => r.check(nn != np, "cloud: try_from(points, normals) accepts arrays of equal length", how),
            }
        }
        r.case();
        let how = || format!("conversions from {} points / surface points", np);
        let pc = PointCloud::from(&p[..]);
        r.check(observe(&pc) == Model { p: p.iter().map(|q| [q.x, q.y, q.z]).collect(), n: None, c: None }, "cloud: from(points) holds exactly the points", how);
        lengths_equal(r, &pc, &how);
        let sps: Vec<SurfacePoint<3>> = (0..np).map(|k| SurfacePoint::new(label_point(k), label_normal(k))).collect();
        let pc = PointCloud::from(&sps[..]);
        r.check(observe(&pc) == Model { p: p.iter().map(|q| [q.x, q.y, q.z]).collect(), n: Some((0..np).map(|k| arr(&label_normal(k))).collect()), c: None }, "cloud: from(surface points) holds exactly the points and normals", how);
        lengths_equal(r, &pc, &how);
        for (hn, hc) in [(false, false), (true, false), (false, true), (true, true)] {
            r.case();
            let (p, n, c, m) = make(0, np, hn, hc);
            let how = || format!("transform of a cloud with {} points, normals: {}, colours: {}", np, hn, hc);
            if let Ok(mut pc) = PointCloud::try_new(p, n, c) {
                let iso = crate::geom3::Iso3::new(Vector3::new(1.0, -2.0, 0.5), Vector3::new(0.0, 0.0, std::f64::consts::FRAC_PI_2));
                pc.transform(&iso);
                let o = observe(&pc);
                lengths_equal(r, &pc, &how);
                r.check(o.p.len() == m.p.len() && o.n.is_some() == hn && o.c == m.c, "cloud: a rigid transform keeps the number of points, the presence of normals and the colours", how);
                let moved = (0..np).all(|k| { let q = iso * label_point(k); near(o.p[k][0], q.x) && near(o.p[k][1], q.y) && near(o.p[k][2], q.z) });
                r.check(moved, "cloud: a rigid transform moves every point by the transform", how);
            }
        }
    }
    // operation sequences
    let mut ops: Vec<Op> = vec![];
    for hn in [false, true] { for hc in [false, true] { ops.push(Op::Append(hn, hc)); } }
    for hn in [false, true] { for hc in [false, true] { for cnt in [0usize, 2] { ops.push(Op::Merge(hn, hc, cnt)); } } }
    for k in 0..3 { ops.push(Op::Select(k)); }
    let no = ops.len();
    for start in 0..12usize {
        let (hn, hc) = ((start & 1) != 0, (start & 2) != 0);
        let kind = start / 4; // 0: try_new with 0 points, 1: try_new with 2 points, 2: empty(hn, hc)
        for len in 0..=3usize {
            for code in 0..no.pow(len as u32) {
                r.case();
                let mut seq = vec![]; let mut c = code;
                for _ in 0..len { seq.push(ops[c % no]); c /= no; }
                let mut label = 0usize;
                let (mut pc, mut m) = if kind == 2 {
                    (PointCloud::empty(hn, hc), Model { p: vec![], n: if hn { Some(vec![]) } else { None }, c: if hc { Some(vec![]) } else { None } })
                } else {
                    let cnt = if kind == 0 { 0 } else { 2 };
                    let (p, n, c, m) = make(0, cnt, hn, hc);
                    label = cnt;
                    match PointCloud::try_new(p, n, c) { Ok(pc) => (pc, m), Err(_) => { r.check(false, "cloud: try_new accepts arrays of equal length", || format!("start {}", start)); continue; } }
                };
                let startname = match kind { 0 => "try_new(0 points", 1 => "try_new(2 points", _ => "empty(" };
                for (i, &op) in seq.iter().enumerate() {
                    let how = || format!("{}, normals: {}, colours: {}) then {:?} (failing at operation #{})", startname, hn, hc, seq, i + 1);
                    apply(r, &mut pc, &mut m, op, &mut label, &how);
                }
                let how = || format!("{}, normals: {}, colours: {}) then {:?} (final state)", startname, hn, hc, seq);
                r.check(observe(&pc) == m, "cloud: the three arrays hold exactly the elements added so far", how);
                lengths_equal(r, &pc, &how);
            }
        }
    }
}

// ------------------------------------------------------------------------------------------------ (d) distances
fn distances(r: &mut Report) {
    // 3D
    let pts3 = [Point3::new(0.0, 0.0, 0.0), Point3::new(1.0, 0.0, 0.0), Point3::new(-2.0, 3.0, 1.0), Point3::new(4.0, -1.0, 2.0), Point3::new(0.5, 0.25, -8.0)];
    let dirs3 = [Vector3::new(1.0, 0.0, 0.0), Vector3::new(0.0, -1.0, 0.0), Vector3::new(0.0, 0.0, 1.0), Vector3::new(0.6, 0.8, 0.0), Vector3::new(0.0, -0.6, 0.8),
        Vector3::new(1.0, 1.0, 1.0), Vector3::new(-1.0, 2.0, -2.0), Vector3::new(3.0, 0.0, -4.0), Vector3::new(-1.0, -1.0, 0.0)];
    for a in pts3.iter() { for b in pts3.iter() {
        for k in 0..=dirs3.len() {
            let dir = if k == 0 { None } else { Some(UnitVec3::new_normalize(dirs3[k - 1])) };
            if dir.is_none() && a == b { continue; } // no direction from a to a
            r.case();
            let how = || format!("Distance3::new({:?}, {:?}, {:?})", a.coords.as_slice(), b.coords.as_slice(), dir.map(|d| arr(&d)));
            let d = Distance3::new(*a, *b, dir);
            let w = b - a;
            r.check(d.a == *a && d.b == *b, "distance: keeps its end points", how);
            match dir {
                Some(u) => r.check(d.direction == u, "distance: keeps the given direction", how),
                None => r.check(near((d.direction.into_inner() * w.norm() - w).norm(), 0.0) && near(d.value(), w.norm()),
                                "distance: the default direction points from a to b, the value is the full distance", how),
            }
            let u = d.direction.into_inner();
            let proj = u.x * w.x + u.y * w.y + u.z * w.z;
            r.check(near(d.value(), proj), "distance: value equals the projection of b-a on the direction", how);
            let rev = d.reversed();
            r.check(rev.a == *b && rev.b == *a, "distance: reversal swaps the end points", how);
            r.check(near((rev.direction.into_inner() + u).norm(), 0.0), "distance: reversal flips the direction", how);
            r.check(near(rev.value(), d.value()), "distance: value is unchanged by reversal", how);
            r.check(near(rev.reversed().value(), d.value()) && rev.reversed().a == *a, "distance: reversing twice gives the original", how);
            let c = d.center();
            r.check(near((c.point - a).norm(), (c.point - b).norm()) && near((c.point - a).norm() + (c.point - b).norm(), w.norm()) && c.normal == d.direction,
                    "distance: center is the mid point with the distance's direction", how);
        }
    } }
    // 2D
    let pts2 = [Point2::new(0.0, 0.0), Point2::new(3.0, -4.0), Point2::new(-1.0, 0.5), Point2::new(2.0, 2.0)];
    let dirs2 = [Vector2::new(1.0, 0.0), Vector2::new(0.0, -1.0), Vector2::new(0.6, 0.8), Vector2::new(-1.0, 1.0), Vector2::new(-5.0, -12.0)];
    for a in pts2.iter() { for b in pts2.iter() {
        for k in 0..=dirs2.len() {
            let dir = if k == 0 { None } else { Some(UnitVec2::new_normalize(dirs2[k - 1])) };
            if dir.is_none() && a == b { continue; }
            r.case();
            let how = || format!("Distance2::new({:?}, {:?}, {:?})", a.coords.as_slice(), b.coords.as_slice(), dir.map(|d| [d.x, d.y]));
            let d = Distance2::new(*a, *b, dir);
            let w = b - a;
            let u = d.direction.into_inner();
            r.check(near(d.value(), u.x * w.x + u.y * w.y), "distance: value equals the projection of b-a on the direction", how);
            if dir.is_none() { r.check(near(d.value(), w.norm()), "distance: the default direction points from a to b, the value is the full distance", how); }
            let rev = d.reversed();
            r.check(rev.a == *b && rev.b == *a, "distance: reversal swaps the end points", how);
            r.check(near(rev.value(), d.value()), "distance: value is unchanged by reversal", how);
        }
    } }
}

/// (d') end points far from the origin: a = offset (|a| ~ 1e3, 1e6), b = a + s*v for separations |s| in {1e-3, 1e-2, 0.1, 1}
/// along and against v; b - a is exact in floating point (Sterbenz), so the projection of b-a on the direction is known
/// to ~1e-16 relative to the separation: the value must agree with it within 1e-12 * |b - a| (a value computed from the
/// separate projections of a and b is off by ~|a| * 1e-16, i.e. 1e-7 relative to a separation of 1e-3 at |a| = 1e6).
fn far_distances(r: &mut Report) {
    let offs3 = [Vector3::new(1.0, 1.0, 1.0), Vector3::new(1.0, -0.5, 0.25), Vector3::new(-0.75, 0.0, 1.0), Vector3::new(0.3, 0.7, -0.9)];
    let dirs3 = [Vector3::new(1.0, 0.0, 0.0), Vector3::new(0.0, -1.0, 0.0), Vector3::new(0.6, 0.8, 0.0), Vector3::new(1.0, 1.0, 1.0), Vector3::new(-1.0, 2.0, -2.0), Vector3::new(3.0, 0.0, -4.0)];
    let seps = [1e-3, 1e-2, 0.1, 1.0];
    for scale in [1e3, 1e6] { for o in offs3.iter() { for v in dirs3.iter() { for s in seps.iter() { for sign in [1.0, -1.0] {
        let a = Point3::from(o * scale);
        let b = a + v.normalize() * (*s * sign);
        let w = b - a;
        for k in 0..=dirs3.len() {
            let dir = if k == 0 { None } else { Some(UnitVec3::new_normalize(dirs3[k - 1])) };
            r.case();
            let how = || format!("Distance3::new({:?}, {:?}, {:?}) (|a| ~ {:e}, separation {:e})", a.coords.as_slice(), b.coords.as_slice(), dir.map(|d| arr(&d)), scale, w.norm());
            let d = Distance3::new(a, b, dir);
            let u = d.direction.into_inner();
            let proj = u.x * w.x + u.y * w.y + u.z * w.z;
            let tol = 1e-12 * w.norm();
            r.check((d.value() - proj).abs() <= tol, "distance far from the origin: value equals the projection of b-a on the direction within 1e-12 of the separation", || format!("{}: value {:e}, projection {:e}", how(), d.value(), proj));
            if dir.is_none() { r.check((d.value() - w.norm()).abs() <= tol, "distance far from the origin: with the default direction the value is the full distance within 1e-12 of the separation", || format!("{}: value {:e}", how(), d.value())); }
            let rev = d.reversed();
            r.check((rev.value() - d.value()).abs() <= tol, "distance far from the origin: value is unchanged by reversal within 1e-12 of the separation", || format!("{}: value {:e}, reversed {:e}", how(), d.value(), rev.value()));
        }
    } } } } }
    let offs2 = [Vector2::new(1.0, 1.0), Vector2::new(-0.5, 0.75), Vector2::new(0.3, -0.9)];
    let dirs2 = [Vector2::new(1.0, 0.0), Vector2::new(0.0, -1.0), Vector2::new(0.6, 0.8), Vector2::new(-1.0, 1.0), Vector2::new(-5.0, -12.0)];
    for scale in [1e3, 1e6] { for o in offs2.iter() { for v in dirs2.iter() { for s in seps.iter() { for sign in [1.0, -1.0] {
        let a = Point2::from(o * scale);
        let b = a + v.normalize() * (*s * sign);
        let w = b - a;
        for k in 0..=dirs2.len() {
            let dir = if k == 0 { None } else { Some(UnitVec2::new_normalize(dirs2[k - 1])) };
            r.case();
            let how = || format!("Distance2::new({:?}, {:?}, {:?}) (|a| ~ {:e}, separation {:e})", a.coords.as_slice(), b.coords.as_slice(), dir.map(|d| [d.x, d.y]), scale, w.norm());
            let d = Distance2::new(a, b, dir);
            let u = d.direction.into_inner();
            let proj = u.x * w.x + u.y * w.y;
            let tol = 1e-12 * w.norm();
            r.check((d.value() - proj).abs() <= tol, "distance far from the origin: value equals the projection of b-a on the direction within 1e-12 of the separation", || format!("{}: value {:e}, projection {:e}", how(), d.value(), proj));
            let rev = d.reversed();
            r.check((rev.value() - d.value()).abs() <= tol, "distance far from the origin: value is unchanged by reversal within 1e-12 of the separation", || format!("{}: value {:e}, reversed {:e}", how(), d.value(), rev.value()));
        }
    } } } } }
}

// ------------------------------------------------------------------------------------------------ (d) curve deviations
const DISTS: [f64; 5] = [1e-7, 1e-5, 1e-4, 1e-2, 1.0];

/// brute force: closest point of the polyline to p, its distance, and the indices of the edges attaining it
fn closest_on_polyline(v: &[Point2], p: &Point2) -> (Point2, f64, Vec<usize>) {
    let mut best = f64::INFINITY; let mut bp = v[0]; let mut ds = vec![];
    for i in 0..v.len() - 1 {
        let e = v[i + 1] - v[i];
        let t = ((p - v[i]).dot(&e) / e.dot(&e)).clamp(0.0, 1.0);
        let q = v[i] + e * t;
        let d = (p - q).norm();
        ds.push(d);
        if d < best { best = d; bp = q; }
    }
    let edges = (0..ds.len()).filter(|&i| ds[i] <= best + 1e-13).collect();
    (bp, best, edges)
}

/// kind: 0 = off the interior of an edge along its normal, 1 = off a vertex / beyond an end
fn check_deviation(r: &mut Report, name: &str, verts: &[Point2], dv: &SurfaceDeviation2, p: &Point2, kind: u8, d_nom: f64, via: &str) {
    let how = || format!("{} [{}], measured point ({:?}, {:?}) (nominal offset {:?}) via {}: reference ({:?}, {:?}), direction ({:?}, {:?}), value {:?}",
        name, verts.iter().map(|q| format!("({},{})", q.x, q.y)).collect::<Vec<_>>().join(" "), p.x, p.y, d_nom, via,
        dv.surface.point.x, dv.surface.point.y, dv.surface.normal.x, dv.surface.normal.y, dv.deviation);
    let (cp, dist, edges) = closest_on_polyline(verts, p);
    r.check(near((dv.surface.point - cp).norm(), 0.0), "curve deviation: the reference point is the closest point of the nominal curve", how);
    r.check(near(dv.surface.normal.norm(), 1.0), "curve deviation: the direction is a unit vector", how);
    // the code deliberately measures along the curve normal when the measured point is within 1e-6 of the curve: off a
    // vertex this differs from the closest distance by less than 1e-6 (props/C16.json not_claimed)
    let coincident = dist < 1e-6 && kind == 1;
    if coincident {
        r.check((dv.deviation.abs() - dist).abs() < 1e-6, "curve deviation: within 1e-6 of a vertex the magnitude is within 1e-6 of the closest distance", how);
    } else {
        r.check(near(dv.deviation.abs(), dist), "curve deviation: magnitude equals the closest distance", how);
        let rec = dv.surface.point + dv.surface.normal.into_inner() * dv.deviation;
        r.check(near((rec - p).norm(), 0.0), "curve deviation: reference + direction * value reconstructs the measured point", how);
        r.check(near((dv.actual_point() - p).norm(), 0.0), "curve deviation: actual_point() reconstructs the measured point", how);
    }
    // side of the outward normal (edge direction rotated by -90 degrees) of every edge attaining the closest distance
    let w = p - cp;
    let mut sides = vec![];
    for &i in edges.iter() {
        let e = (verts[i + 1] - verts[i]).normalize();
        let n = Vector2::new(e.y, -e.x);
        sides.push(w.dot(&n));
    }
    let tiny = 1e-9 * dist;
    if sides.iter().all(|&s| s > tiny) { r.check(dv.deviation > 0.0, "curve deviation: positive on the outward-normal side", how); }
    if sides.iter().all(|&s| s < -tiny) { r.check(dv.deviation < 0.0, "curve deviation: negative on the side opposite to the normal", how); }
}

fn curve_deviations(r: &mut Report) {
    let sq = [Point2::new(0.0, 0.0), Point2::new(4.0, 0.0), Point2::new(4.0, 4.0), Point2::new(0.0, 4.0), Point2::new(0.0, 0.0)];
    let open = [Point2::new(0.0, 0.0), Point2::new(4.0, 0.0), Point2::new(4.0, 4.0)];
    let unit = |x: f64, y: f64| Vector2::new(x, y).normalize();
    for (name, verts) in [("closed CCW square", &sq[..]), ("open polyline", &open[..])] {
        let curve = match Curve2::from_points(verts, 1e-6, false) { Ok(c) => c, Err(_) => { r.check(false, "curve deviation: the nominal curve can be built", || name.to_string()); continue; } };
        let closed = verts.len() == 5;
        // measured points: (point, kind, nominal offset)
        let mut pts: Vec<(Point2, u8, f64)> = vec![];
        for i in 0..verts.len() - 1 {
            let e = (verts[i + 1] - verts[i]).normalize();
            let n = Vector2::new(e.y, -e.x);
            for f in [0.375, 0.5] {
                let foot = verts[i] + (verts[i + 1] - verts[i]) * f;
                for &d in DISTS.iter() { for s in [1.0, -1.0] { pts.push((foot + n * (d * s), 0, d)); } }
            }
        }
        // off vertices: directions inside the outer normal cone of the vertex (and, for the ends of the open curve, all
        // around the end: tangent, both sides)
        let mut corner_dirs: Vec<(Point2, Vec<Vector2>)> = vec![];
        if closed {
            corner_dirs.push((sq[0], vec![unit(-1.0, -1.0), unit(-0.6, -0.8), unit(-0.8, -0.6)]));
            corner_dirs.push((sq[1], vec![unit(1.0, -1.0), unit(0.6, -0.8), unit(0.8, -0.6)]));
            corner_dirs.push((sq[2], vec![unit(1.0, 1.0), unit(0.6, 0.8), unit(0.8, 0.6)]));
            corner_dirs.push((sq[3], vec![unit(-1.0, 1.0), unit(-0.6, 0.8), unit(-0.8, 0.6)]));
        } else {
            corner_dirs.push((open[1], vec![unit(1.0, -1.0), unit(0.6, -0.8), unit(0.8, -0.6)]));
            // beyond the start (edge direction +x, normal -y) and beyond the end (edge direction +y, normal +x)
            corner_dirs.push((open[0], vec![unit(-1.0, 0.0), unit(-1.0, -1.0), unit(-1.0, 1.0), unit(-0.6, -0.8), unit(-0.8, 0.6), unit(-0.28, 0.96)]));
            corner_dirs.push((open[2], vec![unit(0.0, 1.0), unit(1.0, 1.0), unit(-1.0, 1.0), unit(0.8, 0.6), unit(-0.6, 0.8), unit(-0.96, 0.28)]));
        }
        for (c, dirs) in corner_dirs.iter() { for u in dirs.iter() { for &d in DISTS.iter() { pts.push((c + u * d, 1, d)); } } }
        // inside, near a corner (closest point on an edge interior)
        if closed { for &d in DISTS.iter() { pts.push((Point2::new(2.0 * d, d), 0, d)); pts.push((Point2::new(4.0 - 2.0 * d, 4.0 - d), 0, d)); } }

        // 1. one point at a time, through the station query + point_curve2_deviation
        for (p, kind, d) in pts.iter() {
            r.case();
            let st = curve.at_closest_to_point(p);
            let dv = point_curve2_deviation(&st, p);
            check_deviation(r, name, verts, &dv, p, *kind, *d, "point_curve2_deviation(at_closest_to_point(p), p)");
        }
        // 2. all at once: one deviation per measured point, in order, and the set's extremes are those of its contents
        let all: Vec<Point2> = pts.iter().map(|t| t.0).collect();
        let set = line_surface_deviations(&curve, &all, None);
        r.case();
        r.check(set.len() == all.len(), "line deviations: one deviation per measured point without an interval", || name.to_string());
        if set.len() == all.len() {
            for (i, (p, kind, d)) in pts.iter().enumerate() { check_deviation(r, name, verts, &set[i], p, *kind, *d, "line_surface_deviations(.., None)"); }
            let held: Vec<f64> = (0..set.len()).map(|i| set[i].deviation).collect();
            let bmax = held.iter().cloned().fold(f64::NEG_INFINITY, f64::max);
            let bmin = held.iter().cloned().fold(f64::INFINITY, f64::min);
            r.check(set.max().map(|m| m.deviation) == Some(bmax) && set.min().map(|m| m.deviation) == Some(bmin),
                    "line deviations: the returned set reports the true extremes of its contents", || name.to_string());
        }
        // 3. with an interval of lengths along the curve: exactly the points whose closest station lies in it, in order
        for (lo, hi) in [(1.0, 7.0), (0.0, 4.0), (5.0, 5.5), (100.0, 200.0)] {
            r.case();
            let iv = Interval::new(lo, hi);
            let set = line_surface_deviations(&curve, &all, Some(iv));
            let keep: Vec<usize> = (0..all.len()).filter(|&i| { let l = curve.at_closest_to_point(&all[i]).length_along(); lo <= l && l <= hi }).collect();
            let how = || format!("{} interval [{}, {}]", name, lo, hi);
            r.check(set.len() == keep.len(), "line deviations: exactly the points whose closest station lies in the interval are kept", how);
            if set.len() == keep.len() {
                let mut same = true;
                for (k, &i) in keep.iter().enumerate() {
                    let one = point_curve2_deviation(&curve.at_closest_to_point(&all[i]), &all[i]);
                    same &= set[k].deviation == one.deviation && set[k].surface.point == one.surface.point;
                }
                r.check(same, "line deviations: kept deviations are the point deviations, in input order", how);
            }
        }
    }
}

// ------------------------------------------------------------------------------------------------ (d) mesh deviations
/// brute force on the box [0,s]^3: closest surface point, distance, outward normals of the faces containing it
fn closest_on_box(s: f64, p: &Point3) -> (Point3, f64, Vec<Vector3>) {
    let inside = (0..3).all(|k| p[k] > 0.0 && p[k] < s);
    let mut q = *p;
    if inside {
        // nearest face
        let mut best = f64::INFINITY; let mut bk = 0; let mut hi = false;
        for k in 0..3 { if p[k] < best { best = p[k]; bk = k; hi = false; } if s - p[k] < best { best = s - p[k]; bk = k; hi = true; } }
        q[bk] = if hi { s } else { 0.0 };
    } else {
        for k in 0..3 { q[k] = p[k].clamp(0.0, s); }
    }
    let mut normals = vec![];
    for k in 0..3 {
        if q[k] == 0.0 { let mut n = Vector3::zeros(); n[k] = -1.0; normals.push(n); }
        if q[k] == s { let mut n = Vector3::zeros(); n[k] = 1.0; normals.push(n); }
    }
    (q, (p - q).norm(), normals)
}

fn mesh_deviations(r: &mut Report) {
    let s = 4.0;
    let mesh = Mesh::create_box(s, s, s, false);
    let unit = |x: f64, y: f64, z: f64| Vector3::new(x, y, z).normalize();
    // (point, kind, nominal offset, outside?)   kind 0 = off a face interior along its normal, 1 = off a box edge / corner
    let mut pts: Vec<(Point3, u8, f64, bool)> = vec![];
    for k in 0..3usize { for hi in [false, true] {
        let mut n = Vector3::zeros(); n[k] = if hi { 1.0 } else { -1.0 };
        for (u, v) in [(2.0, 2.0), (1.5, 2.5)] {
            let mut foot = Point3::new(0.0, 0.0, 0.0);
            foot[k] = if hi { s } else { 0.0 }; foot[(k + 1) % 3] = u; foot[(k + 2) % 3] = v;
            for &d in DISTS.iter() { pts.push((foot + n * d, 0, d, true)); pts.push((foot - n * d, 0, d, false)); }
        }
    } }
    // corners: outward diagonal and two other directions of the outer cone; box edges: outward diagonal
    for cx in [0.0, s] { for cy in [0.0, s] { for cz in [0.0, s] {
        let sg = |c: f64| if c == 0.0 { -1.0 } else { 1.0 };
        let c = Point3::new(cx, cy, cz);
        for u in [unit(sg(cx), sg(cy), sg(cz)), unit(sg(cx) * 2.0, sg(cy) * 2.0, sg(cz)), unit(sg(cx) * 0.6, sg(cy) * 0.8, 0.0)] {
            for &d in DISTS.iter() { pts.push((c + u * d, 1, d, true)); }
        }
    } } }
    for &d in DISTS.iter() {
        pts.push((Point3::new(s, s, 1.5) + unit(1.0, 1.0, 0.0) * d, 1, d, true));
        pts.push((Point3::new(0.0, 2.5, s) + unit(-0.6, 0.0, 0.8) * d, 1, d, true));
        pts.push((Point3::new(1.0, 0.0, 0.0) + unit(0.0, -0.8, -0.6) * d, 1, d, true));
    }
    // outside the solid, closest to a box edge / corner, exactly in the plane of one of the faces meeting there
    for &d in DISTS.iter() {
        pts.push((Point3::new(1.5, -d, 0.0), 1, d, true));
        pts.push((Point3::new(1.5, 0.0, -d), 1, d, true));
        pts.push((Point3::new(s + d, 2.5, s), 1, d, true));
        pts.push((Point3::new(s, 2.5, s + d), 1, d, true));
        pts.push((Point3::new(0.0, s + d, 1.0), 1, d, true));
        pts.push((Point3::new(s + d, s, s), 1, d, true));
        pts.push((Point3::new(0.0, 0.0, -d), 1, d, true));
    }
    for (p, kind, d_nom, outside) in pts.iter() {
        let (cp, dist, normals) = closest_on_box(s, p);
        let w = p - cp;
        for mode in 0..2 {
            r.case();
            let m = if mode == 0 { DistMode::ToPoint } else { DistMode::ToPlane };
            let dv = mesh.measure_point_deviation(p, m);
            let u = dv.direction.into_inner();
            let val = dv.value();
            let how = || format!("box [0,4]^3, measured point {:?} (nominal offset {:?}, {}), mode {}: reference {:?}, direction {:?}, value {:?}",
                p.coords.as_slice(), d_nom, if *outside { "outside" } else { "inside" }, if mode == 0 { "ToPoint" } else { "ToPlane" },
                dv.a.coords.as_slice(), u.as_slice(), val);
            r.check(near((dv.a - cp).norm(), 0.0), "mesh deviation: the reference point is the closest point of the nominal surface", how);
            r.check(dv.b == *p, "mesh deviation: the measured point is kept", how);
            r.check(near(u.norm(), 1.0), "mesh deviation: the direction is a unit vector", how);
            r.check(near(val, u.dot(&(dv.b - dv.a))), "mesh deviation: value equals the projection of b-a on the direction", how);
            if mode == 0 {
                let coincident = dist < 1e-6 && *kind == 1;
                if coincident {
                    r.check((val.abs() - dist).abs() < 1e-6, "mesh deviation (point mode): within 1e-6 of a box edge / corner the magnitude is within 1e-6 of the closest distance", how);
                } else {
                    r.check(near(val.abs(), dist), "mesh deviation (point mode): magnitude equals the closest distance", how);
                    r.check(near((dv.a + u * val - p).norm(), 0.0), "mesh deviation (point mode): reference + direction * value reconstructs the measured point", how);
                }
                // side of the outward normal of every face that contains the closest point
                let tiny = 1e-9 * dist;
                if normals.iter().all(|n| n.dot(&w) > tiny) { r.check(val > 0.0, "mesh deviation (point mode): positive on the outward-normal side", how); }
                else if normals.iter().all(|n| n.dot(&w) < -tiny) { r.check(val < 0.0, "mesh deviation (point mode): negative on the inner side", how); }
                else if *outside && dist >= 1e-6 {
                    // outside the box but in the plane of one of the faces meeting at the closest point
                    r.check(val > 0.0, "mesh deviation (point mode): a point outside the solid, in the plane of one adjacent face, is positive", how);
                }
            } else {
                // the direction is the outward normal of a face that contains the closest point
                let on_face = normals.iter().any(|n| near((n - u).norm(), 0.0));
                r.check(on_face, "mesh deviation (plane mode): measured along the outward normal at the closest point", how);
                r.check(near(val.abs(), u.dot(&w).abs()), "mesh deviation (plane mode): magnitude equals the normal component of the offset", how);
                let side = u.dot(&w);
                if on_face && side > 1e-9 * dist { r.check(val > 0.0, "mesh deviation (plane mode): positive on the outward-normal side", how); }
                if on_face && side < -1e-9 * dist { r.check(val < 0.0, "mesh deviation (plane mode): negative on the inner side", how); }
                if *kind == 0 {
                    r.check(near(val.abs(), dist), "mesh deviation (plane mode): off a face interior the normal component is the closest distance", how);
                    r.check(near((dv.a + u * val - p).norm(), 0.0), "mesh deviation (plane mode): off a face interior reference + direction * value reconstructs the measured point", how);
                }
            }
        }
    }
}

// ------------------------------------------------------------------------------------------------ wave 4 additions
fn guarded<T>(f: impl FnOnce() -> T) -> Option<T> { std::panic::catch_unwind(std::panic::AssertUnwindSafe(f)).ok() }

/// (a2) deviation sets holding values at the ends of the f64 range: every vector of length 1..=3 over
/// {+-f64::MAX, +-inf, 0, +-1, +-MIN_POSITIVE, +-5e-324} given to new(), followed by every single push from the same
/// pool: max / min are Some and the true extremes (NaN-free values have a maximum and a minimum), nothing panics.
fn extreme_deviation_sets(r: &mut Report) {
    let vals = [f64::MAX, f64::MIN, f64::INFINITY, f64::NEG_INFINITY, 0.0, 1.0, -1.0, f64::MIN_POSITIVE, -f64::MIN_POSITIVE, 5e-324, -5e-324];
    let nv = vals.len();
    for n in 1..=3usize {
        for code in 0..nv.pow(n as u32) {
            let mut h = Vec::with_capacity(n + 1);
            let mut c = code;
            for _ in 0..n { h.push(vals[c % nv]); c /= nv; }
            r.case();
            let how = || format!("new({:?})", h);
            let Some(s) = guarded(|| SurfaceDeviationSet2::new((0..n).map(|i| dev(i, h[i])).collect())) else { r.check(false, "set: new returns (no panic) on NaN-free values, +-inf and +-f64::MAX included", how); continue; };
            if guarded(|| { let mut q = Report::new(""); check_set(&mut q, &s, &h, &how); }).is_none() {
                r.check(false, "set: max / min / symmetrical_zone_size return (no panic) on NaN-free values, +-inf and +-f64::MAX included", how);
                let bmax = h.iter().cloned().fold(f64::NEG_INFINITY, f64::max);
                let bmin = h.iter().cloned().fold(f64::INFINITY, f64::min);
                r.check(guarded(|| s.max().map(|m| m.deviation)) == Some(Some(bmax)), "set: reports the true maximum of everything held", how);
                r.check(guarded(|| s.min().map(|m| m.deviation)) == Some(Some(bmin)), "set: reports the true minimum of everything held", how);
                continue;
            }
            check_set(r, &s, &h, &how);
            for &v in vals.iter() {
                let mut h2 = h.clone(); h2.push(v);
                let how2 = || format!("new({:?}) then push {:?}", h, v);
                let got = guarded(|| { let mut t = SurfaceDeviationSet2::new((0..n).map(|i| dev(i, h[i])).collect()); t.push(dev(n, v)); let mut q = Report::new(""); check_set(&mut q, &t, &h2, &how2); t });
                match got {
                    None => r.check(false, "set: push / max / min return (no panic) on NaN-free values, +-inf and +-f64::MAX included", how2),
                    Some(t) => check_set(r, &t, &h2, &how2),
                }
            }
        }
    }
}

/// the zone a map must answer with: the greatest breakpoint not above x (with repeated breakpoints any of their zones)
fn check_map_queries(r: &mut Report, map: &DiscreteDomainTolMap, t: &[f64], built: &str) {
    let n = t.len();
    let zone = |i: usize| Tolerance::new_unchecked(-(i as f64) - 1.0, i as f64 + 0.5);
    let mut xs: Vec<f64> = vec![-5.0, 0.25];
    for (i, &b) in t.iter().enumerate() {
        xs.push(b); xs.push(ulp_up(b)); xs.push(ulp_down(b));
        if i + 1 < n { xs.push(0.5 * (b + t[i + 1])); }
    }
    if n > 0 { xs.push(t[n - 1] + 1.0); }
    for &x in xs.iter() {
        let how = || format!("breakpoints {:?} ({}; zone i = [-(i+1), i+0.5]), get({:?})", t, built, x);
        let Some(got) = guarded(|| map.get(x)) else { r.check(false, "tolmap: get returns (no panic)", how); continue; };
        let mut best: Option<f64> = None;
        for &b in t.iter() { if b <= x { best = Some(match best { Some(c) if c > b => c, _ => b }); } }
        match (best, got) {
            (None, g) => r.check(g.is_none(), "tolmap: no zone below the first breakpoint (or on an empty table)", how),
            (Some(_), None) => r.check(false, "tolmap: zone of the greatest breakpoint not above x", how),
            (Some(bv), Some(z)) => {
                let ok = (0..n).any(|i| t[i] == bv && z.lower == zone(i).lower && z.upper == zone(i).upper);
                if x == bv { r.check(ok, "tolmap: exactly on a breakpoint the zone of that breakpoint", how); }
                else { r.check(ok, "tolmap: zone of the greatest breakpoint not above x", how); }
            }
        }
    }
}

/// (b2) breakpoint tables as the constructors deliver them. try_from: every vector of length 0..=4 over a pool with
/// neighbours one rounding step apart at several magnitudes (0.3 / 0.1+0.2, 1 / 1+2^-52, -1 / -1+2^-53, 1e6 / next,
/// 0 / 5e-324 / 1e-17): accepted exactly when w[0] <= w[1] for every neighbouring pair (ascending means <=, exactly),
/// the accepted table answers every query with the greatest breakpoint not above x.  push: every history of length
/// <= 4 over {-1, 0, 0.3, 0.1+0.2, 1, 2, 3, +inf, NaN} from the empty table and from try_from(prefix): a value below
/// the LAST breakpoint is refused and changes nothing, the table stays ascending, the map built on it answers as above.
fn breakpoint_tables(r: &mut Report) {
    let zone = |i: usize| Tolerance::new_unchecked(-(i as f64) - 1.0, i as f64 + 0.5);
    let ascending = |v: &[f64]| v.iter().all(|x| x.is_finite()) && v.windows(2).all(|w| w[0] <= w[1]);
    let pool = [-1.0, ulp_up(-1.0), 0.0, 5e-324, 1e-17, 0.3, 0.1 + 0.2, 1.0, ulp_up(1.0), 1e6, ulp_up(1e6)];
    let np = pool.len();
    for n in 0..=4usize {
        for code in 0..np.pow(n as u32) {
            let mut t = Vec::with_capacity(n);
            let mut c = code;
            for _ in 0..n { t.push(pool[c % np]); c /= np; }
            r.case();
            let how = || format!("DiscreteDomain::try_from({:?})", t);
            let Some(res) = guarded(|| DiscreteDomain::try_from(t.clone())) else { r.check(false, "breakpoint table: try_from returns (no panic)", how); continue; };
            match res {
                Err(_) => r.check(!ascending(&t), "breakpoint table: an ascending finite table is accepted (equal neighbours included)", how),
                Ok(d) => {
                    r.check(ascending(&t), "breakpoint table: a table whose neighbours are out of order - even by one rounding step - is rejected (ascending means <=, exactly)", how);
                    r.check(d.values() == &t[..], "breakpoint table: try_from keeps the values", how);
                    if let Ok(map) = DiscreteDomainTolMap::try_new(d, (0..n).map(zone).collect()) { check_map_queries(r, &map, &t, "try_from"); }
                    else { r.check(false, "tolmap: one zone per breakpoint is accepted", how); }
                }
            }
        }
    }
    let pushes = [-1.0, 0.0, 0.3, 0.1 + 0.2, 1.0, 2.0, 3.0, f64::INFINITY, f64::NAN];
    let nq = pushes.len();
    for n in 1..=4usize {
        for code in 0..nq.pow(n as u32) {
            let mut h = Vec::with_capacity(n);
            let mut c = code;
            for _ in 0..n { h.push(pushes[c % nq]); c /= nq; }
            for k0 in 0..n {
                // start: the empty table (k0 = 0) or try_from(first k0 values) when that prefix is a valid table
                if k0 > 0 && !ascending(&h[..k0]) { continue; }
                let Ok(mut d) = (if k0 == 0 { Ok(DiscreteDomain::default()) } else { DiscreteDomain::try_from(h[..k0].to_vec()) }) else { continue; };
                r.case();
                let mut model: Vec<f64> = h[..k0].to_vec();
                for step in k0..n {
                    let v = h[step];
                    let before = model.clone();
                    let how = || format!("{} then push each of {:?} (table before the last push: {:?})", if k0 == 0 { "DiscreteDomain::default()".to_string() } else { format!("try_from({:?})", &h[..k0]) }, &h[k0..=step], before);
                    let expect_ok = v.is_finite() && model.last().map_or(true, |l| v >= *l);
                    let Some(ok) = guarded(|| d.push(v).is_ok()) else { r.check(false, "breakpoint table: push returns (no panic)", how); break; };
                    r.check(ok == expect_ok, "breakpoint table: push accepts exactly a finite value not below the LAST breakpoint", how);
                    if ok && expect_ok { model.push(v); }
                    let same = d.values().len() == model.len() && d.values().iter().zip(model.iter()).all(|(a, b)| a == b);
                    if expect_ok { r.check(same, "breakpoint table: an accepted push appends the value", how); }
                    else { r.check(same, "breakpoint table: a refused push changes nothing", how); }
                    r.check(ascending(d.values()), "breakpoint table: stays finite and ascending after any push history", how);
                    if !same { break; }
                }
                if d.values() == &model[..] {
                    let m = model.len();
                    if let Ok(map) = DiscreteDomainTolMap::try_new(d, (0..m).map(zone).collect()) { check_map_queries(r, &map, &model, "grown by push"); }
                    else { r.check(false, "tolmap: one zone per breakpoint is accepted", || format!("{:?}", model)); }
                }
            }
        }
    }
}

// ================================================================================================ wave 5 additions
// Parameter-space audit (notes/w5_audit_C16.md): sizes past internal thresholds, coordinates far from the origin and
// scaled shapes, exact ties, long operation sequences, shape classes the fixed examples avoid.
static QUIET_PANICS: std::sync::atomic::AtomicBool = std::sync::atomic::AtomicBool::new(false);
/// like `guarded`, and keeps the panic hook installed by `run` from printing the caught panic
fn guarded5<T>(f: impl FnOnce() -> T) -> Option<T> {
    QUIET_PANICS.store(true, std::sync::atomic::Ordering::SeqCst);
    let out = std::panic::catch_unwind(std::panic::AssertUnwindSafe(f)).ok();
    QUIET_PANICS.store(false, std::sync::atomic::Ordering::SeqCst);
    out
}
fn near_tol(a: f64, b: f64, atol: f64) -> bool { (a - b).abs() <= atol + 1e-9 * a.abs().max(b.abs()) }

// ------------------------------------------------------------------------------------------------ (a3) long deviation sets
fn check_set_light(r: &mut Report, s: &SurfaceDeviationSet2, held: &[f64], bmax: f64, bmin: f64, babs: f64, how: &dyn Fn() -> String) {
    r.check(s.len() == held.len(), "set: holds exactly what was constructed and pushed (count)", how);
    if held.is_empty() {
        r.check(s.max().is_none(), "set: no maximum when nothing is held", how);
        r.check(s.min().is_none(), "set: no minimum when nothing is held", how);
        r.check(s.symmetrical_zone_size() == 0.0, "set: symmetric zone of nothing is 0", how);
        return;
    }
    match s.max() {
        None => r.check(false, "set: reports the true maximum of everything held", how),
        Some(m) => {
            r.check(m.deviation == bmax, "set: reports the true maximum of everything held", how);
            let k = m.surface.point.x as usize;
            r.check(k < held.len() && held[k] == m.deviation, "set: the reported maximum is one of the held items", how);
        }
    }
    match s.min() {
        None => r.check(false, "set: reports the true minimum of everything held", how),
        Some(m) => {
            r.check(m.deviation == bmin, "set: reports the true minimum of everything held", how);
            let k = m.surface.point.x as usize;
            r.check(k < held.len() && held[k] == m.deviation, "set: the reported minimum is one of the held items", how);
        }
    }
    r.check(s.symmetrical_zone_size() == 2.0 * babs, "set: symmetric zone is twice the largest |deviation| held", how);
}

/// (a3) sets of 2 .. 4097 (two patterns: 70000) deviations in 15 value patterns (monotone, constant, a single record at
/// the first / middle / last position, records in the last two positions, zigzag, all negative, signed zeros, one-ulp
/// steps, repeating ties), built by default()+push, new(all), new(half)+push, new(all but one)+push, default()+push_new:
/// the extremes are compared with an independently maintained running maximum / minimum after EVERY push.
fn long_deviation_sets(r: &mut Report) {
    let patterns: [(&str, fn(usize, usize) -> f64); 15] = [
        ("ascending", |i, _| i as f64),
        ("descending", |i, _| -(i as f64)),
        ("constant", |_, _| 0.25),
        ("maximum first, ties after", |i, _| if i == 0 { 7.0 } else { (i % 5) as f64 * 0.5 }),
        ("maximum in the middle", |i, n| if i == n / 2 { 1e9 } else { -((i % 3) as f64) }),
        ("maximum last", |i, n| if i + 1 == n { 1e9 } else { (i % 4) as f64 }),
        ("minimum first, ties after", |i, _| if i == 0 { -7.0 } else { -((i % 5) as f64) * 0.5 }),
        ("minimum in the middle", |i, n| if i == n / 2 { -1e9 } else { (i % 3) as f64 }),
        ("minimum last", |i, n| if i + 1 == n { -1e9 } else { -((i % 4) as f64) }),
        ("maximum second to last, minimum last", |i, n| if i + 2 == n { 50.0 } else if i + 1 == n { -60.0 } else { ((i % 7) as f64) - 3.0 }),
        ("zigzag growing", |i, _| if i % 2 == 0 { i as f64 } else { -(i as f64) }),
        ("all negative, ascending", |i, n| i as f64 - n as f64 - 1.0),
        ("all positive, descending", |i, n| (n - i) as f64),
        ("signed zeros", |i, _| if i % 2 == 0 { 0.0 } else { -0.0 }),
        ("one-ulp steps up from 1", |i, _| f64::from_bits(1.0f64.to_bits() + i as u64)),
    ];
    let sizes = [2usize, 3, 31, 32, 33, 64, 65, 100, 255, 256, 257, 1000, 4097];
    let mut jobs: Vec<(usize, usize)> = vec![];
    for (pi, _) in patterns.iter().enumerate() { for &n in sizes.iter() { jobs.push((pi, n)); } }
    jobs.push((0, 70000)); jobs.push((5, 70000)); jobs.push((8, 70000));
    for (pi, n) in jobs {
        let (pname, pf) = patterns[pi];
        let h: Vec<f64> = (0..n).map(|i| pf(i, n)).collect();
        for build in 0..5usize {
            if n > 5000 && build != 0 && build != 2 { continue; }
            r.case();
            let k0 = match build { 0 | 4 => 0, 1 => n, 2 => n / 2, _ => n - 1 };
            let bname = match build { 0 => "default() then push", 1 => "new(all)", 2 => "new(first half) then push", 3 => "new(all but the last) then push", _ => "default() then push_new" };
            let mut s = if build == 0 || build == 4 { SurfaceDeviationSet2::default() } else { SurfaceDeviationSet2::new((0..k0).map(|i| dev(i, h[i])).collect()) };
            let (mut bmax, mut bmin, mut babs) = (f64::NEG_INFINITY, f64::INFINITY, 0.0f64);
            for &v in h[..k0].iter() { bmax = bmax.max(v); bmin = bmin.min(v); babs = babs.max(v.abs()); }
            for step in k0..=n {
                let how = || format!("pattern '{}' (item i of n = {}), {}: checked after {} items", pname, n, bname, step);
                check_set_light(r, &s, &h[..step], bmax, bmin, babs, &how);
                if step < n {
                    let v = h[step];
                    if build == 4 { let d = dev(step, v); s.push_new(d.surface, d.deviation); } else { s.push(dev(step, v)); }
                    bmax = bmax.max(v); bmin = bmin.min(v); babs = babs.max(v.abs());
                }
            }
            if n <= 5000 {
                let how = || format!("pattern '{}' (item i of n = {}), {}: final state", pname, n, bname);
                check_set(r, &s, &h, &how);
                // iter() and the slice view give the held items in order
                let it: Vec<f64> = s.iter().map(|d| d.deviation).collect();
                r.check(it == h || (it.len() == h.len() && it.iter().zip(h.iter()).all(|(a, b)| a == b)), "set: holds exactly what was constructed and pushed, in order", how);
            }
        }
    }
    // a copy is independent of its source: pushing a new record into one leaves the other's extremes alone
    for n in [0usize, 1, 3, 40] {
        r.case();
        let h: Vec<f64> = (0..n).map(|i| ((i * 7) % 5) as f64 - 2.0).collect();
        let a = SurfaceDeviationSet2::new((0..n).map(|i| dev(i, h[i])).collect());
        let mut b = a.clone();
        b.push(dev(n, 99.0)); b.push(dev(n + 1, -98.0));
        let mut hb = h.clone(); hb.push(99.0); hb.push(-98.0);
        let how = || format!("new({:?}), clone, push 99 and -98 into the clone", h);
        check_set(r, &a, &h, &how);
        check_set(r, &b, &hb, &how);
    }
    // the 3D instance
    {
        r.case();
        let mut s = crate::metrology::SurfaceDeviationSet3::default();
        let mut held: Vec<f64> = vec![];
        for i in 0..100usize {
            let v = if i % 2 == 0 { i as f64 * 0.5 } else { -(i as f64) };
            s.push(crate::metrology::SurfaceDeviation3::new(SurfacePoint::new(Point3::new(i as f64, 0.0, 0.0), UnitVec3::new_unchecked(Vector3::new(0.0, 0.0, 1.0))), v));
            held.push(v);
            let bmax = held.iter().cloned().fold(f64::NEG_INFINITY, f64::max);
            let bmin = held.iter().cloned().fold(f64::INFINITY, f64::min);
            let babs = held.iter().cloned().fold(0.0f64, |a, v| a.max(v.abs()));
            let how = || format!("3D set, default() then push {:?}", held);
            r.check(s.max().map(|m| m.deviation) == Some(bmax), "set: reports the true maximum of everything held", how);
            r.check(s.min().map(|m| m.deviation) == Some(bmin), "set: reports the true minimum of everything held", how);
            r.check(s.symmetrical_zone_size() == 2.0 * babs && s.len() == held.len(), "set: symmetric zone is twice the largest |deviation| held", how);
        }
    }
}

// ------------------------------------------------------------------------------------------------ (b3) long breakpoint tables
/// index of the LAST breakpoint not above x, found by walking from a hint (no bisection): None when x is below the first
fn last_not_above(t: &[f64], hint: usize, x: f64) -> Option<usize> {
    if t.is_empty() { return None; }
    let mut j = hint.min(t.len() - 1);
    while j + 1 < t.len() && t[j + 1] <= x { j += 1; }
    while t[j] > x { if j == 0 { return None; } j -= 1; }
    Some(j)
}

fn check_long_table(r: &mut Report, map: &DiscreteDomainTolMap, t: &[f64], built: &dyn Fn() -> String) {
    let n = t.len();
    let zone = |i: usize| Tolerance::new_unchecked(-(i as f64) - 1.0, i as f64 + 0.5);
    let mut qs: Vec<(usize, f64)> = vec![(0, f64::NEG_INFINITY), (0, -f64::MAX), (0, f64::MAX), (0, f64::INFINITY)];
    if n > 0 { qs.push((0, t[0] - 1.0)); qs.push((n - 1, t[n - 1] + 1.0)); qs.push((n - 1, t[n - 1] * 2.0 + 1e12)); }
    for i in 0..n {
        qs.push((i, t[i])); qs.push((i, ulp_up(t[i]))); qs.push((i, ulp_down(t[i])));
        if i + 1 < n { qs.push((i, t[i] + 0.5 * (t[i + 1] - t[i]))); }
    }
    for &(hint, x) in qs.iter() {
        r.case();
        let how = || format!("{} (zone i = [-(i+1), i+0.5]), get({:?}) [query generated from breakpoint #{}]", built(), x, hint);
        let Some(got) = guarded5(|| map.get(x)) else { r.check(false, "tolmap: get returns (no panic)", how); continue; };
        let want = last_not_above(t, hint, x);
        match (want, got) {
            (None, g) => r.check(g.is_none(), "tolmap: no zone below the first breakpoint (or on an empty table)", how),
            (Some(_), None) => r.check(false, "tolmap: zone of the greatest breakpoint not above x", how),
            (Some(j), Some(z)) => {
                // the zone identifies its index; with repeated breakpoints any of the tied zones
                let i = (-z.lower - 1.0) as usize;
                let ok = z.lower <= -1.0 && i < n && z.lower == zone(i).lower && z.upper == zone(i).upper && t[i] == t[j];
                if x > t[n - 1] { r.check(ok, "tolmap: the last zone beyond the end", how); }
                else if x == t[j] { r.check(ok, "tolmap: exactly on a breakpoint the zone of that breakpoint", how); }
                else { r.check(ok, "tolmap: zone of the greatest breakpoint not above x", how); }
            }
        }
        // the mechanism the map relies on: an index returned by the table is that of the greatest breakpoint not above x
        if let Some(Some(i)) = guarded5(|| map.domain.index_of(x)) {
            r.check(i < n && want.map_or(false, |j| t[i] == t[j]), "breakpoint table: index_of, when it answers, gives the greatest breakpoint not above x", how);
        }
    }
}

/// (b3) tables of 1 .. 4097 breakpoints in 9 families (integers, offset 1e6 with step 0.5, spacing 2^-40 at 1, negative,
/// quadratic, runs of three equal breakpoints, one-ulp steps at 1e6, one gap of 1e9 in the middle, denormals), built by
/// try_from, by default()+push and (uniform ones) by DiscreteDomain::linear in both bound orders; every breakpoint, its
/// one-ulp neighbours, every midpoint, +-inf, +-f64::MAX, below the start and far beyond the end are queried and compared
/// with a linear walk from the generating index.
fn long_breakpoint_tables(r: &mut Report) {
    let zone = |i: usize| Tolerance::new_unchecked(-(i as f64) - 1.0, i as f64 + 0.5);
    let families: [(&str, fn(usize, usize) -> f64); 9] = [
        ("breakpoint i = i", |i, _| i as f64),
        ("breakpoint i = 1e6 + i/2", |i, _| 1e6 + 0.5 * i as f64),
        ("breakpoint i = 1 + i * 2^-40", |i, _| 1.0 + i as f64 * (0.5f64).powi(40)),
        ("breakpoint i = i - n", |i, n| i as f64 - n as f64),
        ("breakpoint i = i^2 / 4", |i, _| 0.25 * (i * i) as f64),
        ("breakpoint i = floor(i / 3)", |i, _| (i / 3) as f64),
        ("breakpoint i = 1e6 advanced by i ulps", |i, _| f64::from_bits(1e6f64.to_bits() + i as u64)),
        ("breakpoint i = i, +1e9 from the middle on", |i, n| if i < n / 2 { i as f64 } else { 1e9 + i as f64 }),
        ("breakpoint i = i * 5e-324", |i, _| f64::from_bits(i as u64)),
    ];
    let sizes = [1usize, 2, 3, 5, 8, 31, 32, 33, 64, 65, 100, 257, 1000, 4097];
    for (fname, ff) in families.iter() {
        for &n in sizes.iter() {
            let t: Vec<f64> = (0..n).map(|i| ff(i, n)).collect();
            for build in 0..2usize {
                let bname = if build == 0 { "try_from" } else { "default() then push each" };
                let built = || format!("{} breakpoints, {}, built by {}", n, fname, bname);
                let dom = if build == 0 { guarded5(|| DiscreteDomain::try_from(t.clone()).ok()).flatten() } else {
                    guarded5(|| { let mut d = DiscreteDomain::default(); for &v in t.iter() { if d.push(v).is_err() { return None; } } Some(d) }).flatten()
                };
                let Some(dom) = dom else { r.check(false, "breakpoint table: an ascending finite table is accepted (equal neighbours included)", built); continue; };
                r.check(dom.values() == &t[..] && dom.len() == n && dom.is_empty() == (n == 0), "breakpoint table: try_from keeps the values", built);
                // zone lists of any other length are refused
                for m in [0usize, n / 2, n + 7] { if m != n {
                    r.check(DiscreteDomainTolMap::try_new(dom.clone(), (0..m).map(zone).collect()).is_err(), if m < n { "tolmap: a zone list shorter than the table is rejected" } else { "tolmap: a zone list longer than the table is rejected" }, || format!("{} with {} zones", built(), m));
                } }
                match DiscreteDomainTolMap::try_new(dom, (0..n).map(zone).collect()) {
                    Ok(map) => check_long_table(r, &map, &t, &built),
                    Err(_) => r.check(false, "tolmap: one zone per breakpoint is accepted", built),
                }
            }
        }
    }
    // uniform tables as DiscreteDomain::linear delivers them (bounds in both orders); the table is read back, its
    // ascending order is C17's clause and only a precondition here
    for &(lo, hi) in [(0.0, 1.0), (-3.0, 5.0), (1e6, 1e6 + 1.0), (0.0, 1e-9), (-1e8, 1e8)].iter() {
        for &n in [2usize, 3, 10, 33, 100, 1000, 4097].iter() {
            for rev in [false, true] {
                let (a, b) = if rev { (hi, lo) } else { (lo, hi) };
                let Some(dom) = guarded5(|| DiscreteDomain::linear(a, b, n)) else { continue; };
                let t: Vec<f64> = dom.values().to_vec();
                if !(t.len() == n && t.iter().all(|v| v.is_finite()) && t.windows(2).all(|w| w[0] <= w[1])) { continue; }
                let built = || format!("DiscreteDomain::linear({:?}, {:?}, {})", a, b, n);
                match DiscreteDomainTolMap::try_new(dom, (0..n).map(zone).collect()) {
                    Ok(map) => check_long_table(r, &map, &t, &built),
                    Err(_) => r.check(false, "tolmap: one zone per breakpoint is accepted", built),
                }
            }
        }
    }
    // signed zeros as breakpoints and as queries (-0.0 == 0.0: a table may hold either, in either order)
    for t in [vec![0.0], vec![-0.0], vec![-0.0, 0.0], vec![0.0, -0.0], vec![0.0, 1.0], vec![-0.0, 1.0], vec![-1.0, 0.0, 1.0], vec![-1.0, -0.0, 1.0], vec![-1.0, -0.0, 0.0, 1.0], vec![-1.0, 0.0, -0.0, 0.0, 1.0]] {
        let built = || format!("try_from({:?})", t);
        let Some(Some(dom)) = guarded5(|| DiscreteDomain::try_from(t.clone()).ok()) else { r.check(false, "breakpoint table: an ascending finite table is accepted (equal neighbours included)", built); continue; };
        let n = t.len();
        let Ok(map) = DiscreteDomainTolMap::try_new(dom, (0..n).map(zone).collect()) else { r.check(false, "tolmap: one zone per breakpoint is accepted", built); continue; };
        for x in [-1.0, -5e-324, -0.0, 0.0, 5e-324, 0.5, 1.0, 2.0] {
            r.case();
            let how = || format!("{} (zone i = [-(i+1), i+0.5]), get({:?})", built(), x);
            let Some(got) = guarded5(|| map.get(x)) else { r.check(false, "tolmap: get returns (no panic)", how); continue; };
            let bv = t.iter().cloned().filter(|b| *b <= x).fold(f64::NEG_INFINITY, f64::max);
            match got {
                None => r.check(bv == f64::NEG_INFINITY, "tolmap: zone of the greatest breakpoint not above x", how),
                Some(z) => {
                    let i = (-z.lower - 1.0) as usize;
                    let ok = bv > f64::NEG_INFINITY && z.lower <= -1.0 && i < n && z.upper == zone(i).upper && t[i] == bv;
                    if bv == f64::NEG_INFINITY { r.check(false, "tolmap: no zone below the first breakpoint (or on an empty table)", how); }
                    else if x == bv { r.check(ok, "tolmap: exactly on a breakpoint the zone of that breakpoint", how); }
                    else { r.check(ok, "tolmap: zone of the greatest breakpoint not above x", how); }
                }
            }
        }
    }
    // constant map: every x, the ends of the range included
    let c = ConstantTolMap::new(zone(3));
    for x in [f64::NEG_INFINITY, -f64::MAX, -0.0, 0.0, 5e-324, f64::MAX, f64::INFINITY] {
        r.case();
        r.check(matches!(c.get(x), Some(z) if z.lower == zone(3).lower && z.upper == zone(3).upper), "tolmap: a constant map returns its zone for every x", || format!("x = {:?}", x));
    }
}

// ------------------------------------------------------------------------------------------------ (c3) large clouds, long histories
fn model_push(m: &mut Model, k: usize) {
    let q = label_point(k);
    m.p.push([q.x, q.y, q.z]);
    if let Some(v) = m.n.as_mut() { v.push(arr(&label_normal(k))); }
    if let Some(v) = m.c.as_mut() { v.push(label_color(k)); }
}

/// (c3) try_new with 33 .. 4097 points and normal / colour arrays of the same, shorter (by one, by half, empty) and longer
/// (by one, doubled) length; from each of the 4 presence combinations a history of 1100 steps: an accepted append every
/// step, a mismatching append (each wrong combination in turn) every 7th, an accepted and a refused merge of 0..4 points
/// every 50th, index selections (all reversed; twice as long with repeats; of a selection) every 100th, a merge with a
/// copy of itself at steps 300 and 900, compared with the three-array model after every operation.
fn large_point_clouds(r: &mut Report) {
    for &np in [33usize, 100, 1000, 4097].iter() {
        let lens = |k: usize| -> Option<usize> { match k { 0 => None, 1 => Some(np), 2 => Some(np - 1), 3 => Some(np + 1), 4 => Some(np / 2), 5 => Some(0), _ => Some(2 * np) } };
        for kn in 0..7usize { for kc in 0..7usize {
            r.case();
            let p: Vec<Point3> = (0..np).map(label_point).collect();
            let n: Option<Vec<UnitVec3>> = lens(kn).map(|l| (0..l).map(label_normal).collect());
            let c: Option<Vec<[u8; 3]>> = lens(kc).map(|l| (0..l).map(label_color).collect());
            let how = || format!("try_new({} points, normals {:?}, colours {:?})", np, lens(kn), lens(kc));
            let accept = kn <= 1 && kc <= 1;
            let want = Model { p: p.iter().map(|q| [q.x, q.y, q.z]).collect(), n: n.as_ref().map(|v| v.iter().map(arr).collect()), c: c.clone() };
            match PointCloud::try_new(p, n, c) {
                Ok(pc) => {
                    r.check(accept, "cloud: try_new rejects a normal / colour array whose length differs from points", how);
                    if accept { r.check(observe(&pc) == want, "cloud: try_new keeps the given arrays", how); }
                    lengths_equal(r, &pc, &how);
                }
                Err(_) => r.check(!accept, "cloud: try_new accepts arrays of equal length", how),
            }
        } }
    }
    for combo in 0..4usize {
        let (hn, hc) = ((combo & 1) != 0, (combo & 2) != 0);
        r.case();
        let mut pc = PointCloud::empty(hn, hc);
        let mut m = Model { p: vec![], n: if hn { Some(vec![]) } else { None }, c: if hc { Some(vec![]) } else { None } };
        let mut label = 0usize;
        let wrong = [(!hn, hc), (hn, !hc), (!hn, !hc)];
        let mut broken = false;
        for step in 1..=1100usize {
            let l0 = label;
            let how = || format!("empty(normals: {}, colours: {}) then the long history, step {} ({} labels used before it)", hn, hc, step, l0);
            // accepted append
            let k = label; label += 1;
            let res = pc.append(label_point(k), if hn { Some(label_normal(k)) } else { None }, if hc { Some(label_color(k)) } else { None });
            r.check(res.is_ok(), "cloud: append is accepted exactly when normal / colour presence matches the cloud", how);
            model_push(&mut m, k);
            if step % 7 == 0 {
                let (wn, wc) = wrong[(step / 7) % 3];
                let before = observe(&pc);
                let res = pc.append(label_point(9_000_000), if wn { Some(label_normal(1)) } else { None }, if wc { Some(label_color(1)) } else { None });
                r.check(res.is_err(), "cloud: append is accepted exactly when normal / colour presence matches the cloud", how);
                r.check(observe(&pc) == before, "cloud: a rejected append changes nothing", how);
            }
            if step % 50 == 0 {
                let cnt = (step / 50) % 5;
                let (wn, wc) = wrong[(step / 50) % 3];
                let (p, n, c, _) = make(8_000_000, cnt, wn, wc);
                if let Ok(other) = PointCloud::try_new(p, n, c) {
                    let before = observe(&pc);
                    r.check(pc.merge(other).is_err(), "cloud: merge is accepted exactly when both clouds agree on the presence of normals and colours", how);
                    r.check(observe(&pc) == before, "cloud: a rejected merge changes nothing", how);
                }
                let (p, n, c, om) = make(label, cnt, hn, hc);
                label += cnt;
                if let Ok(other) = PointCloud::try_new(p, n, c) {
                    r.check(pc.merge(other).is_ok(), "cloud: merge is accepted exactly when both clouds agree on the presence of normals and colours", how);
                    m.p.extend(om.p.iter().cloned());
                    if let (Some(a), Some(b)) = (m.n.as_mut(), om.n.as_ref()) { a.extend(b.iter().cloned()); }
                    if let (Some(a), Some(b)) = (m.c.as_mut(), om.c.as_ref()) { a.extend(b.iter().cloned()); }
                    r.check(observe(&pc) == m, "cloud: an accepted merge appends exactly the other cloud's elements, in order", how);
                }
            }
            if step == 300 || step == 900 {
                let copy = pc.clone();
                r.check(pc.merge(copy).is_ok(), "cloud: merge is accepted exactly when both clouds agree on the presence of normals and colours", how);
                let (p2, n2, c2) = (m.p.clone(), m.n.clone(), m.c.clone());
                m.p.extend(p2);
                if let (Some(a), Some(b)) = (m.n.as_mut(), n2) { a.extend(b); }
                if let (Some(a), Some(b)) = (m.c.as_mut(), c2) { a.extend(b); }
                r.check(observe(&pc) == m, "cloud: an accepted merge appends exactly the other cloud's elements, in order", how);
            }
            let now = observe(&pc);
            r.check(now == m, "cloud: the three arrays hold exactly the elements added so far", how);
            lengths_equal(r, &pc, &how);
            if now != m { broken = true; break; }
            if step % 100 == 0 {
                let l = m.p.len();
                let lists: [Vec<usize>; 3] = [(0..l).rev().collect(), (0..2 * l).map(|i| (i * 7 + 3) % l).collect(), vec![l - 1; 40]];
                for idx in lists.iter() {
                    let Some(sel) = guarded5(|| pc.create_from_indices(idx)) else { r.check(false, "cloud: an index selection holds exactly the selected elements of every present array", how); continue; };
                    let want = Model { p: idx.iter().map(|&i| m.p[i]).collect(), n: m.n.as_ref().map(|v| idx.iter().map(|&i| v[i]).collect()), c: m.c.as_ref().map(|v| idx.iter().map(|&i| v[i]).collect()) };
                    r.check(observe(&sel) == want, "cloud: an index selection holds exactly the selected elements of every present array", how);
                    r.check(observe(&pc) == m, "cloud: an index selection leaves the source unchanged", how);
                    lengths_equal(r, &sel, &how);
                    // a selection of the selection, then an append to it: the selection is a cloud of the same presence
                    let idx2: Vec<usize> = (0..idx.len()).step_by(3).collect();
                    if let Some(mut sel2) = guarded5(|| sel.create_from_indices(&idx2)) {
                        let want2 = Model { p: idx2.iter().map(|&i| want.p[i]).collect(), n: want.n.as_ref().map(|v| idx2.iter().map(|&i| v[i]).collect()), c: want.c.as_ref().map(|v| idx2.iter().map(|&i| v[i]).collect()) };
                        r.check(observe(&sel2) == want2, "cloud: an index selection holds exactly the selected elements of every present array", how);
                        let res = sel2.append(label_point(5), if hn { Some(label_normal(5)) } else { None }, if hc { Some(label_color(5)) } else { None });
                        r.check(res.is_ok(), "cloud: append is accepted exactly when normal / colour presence matches the cloud", how);
                        lengths_equal(r, &sel2, &how);
                    } else { r.check(false, "cloud: an index selection holds exactly the selected elements of every present array", how); }
                }
            }
        }
        if broken { continue; }
        // a rigid motion in the middle of a history changes no length and later appends still line up
        let iso = crate::geom3::Iso3::new(Vector3::new(1e3, -2.0, 0.5), Vector3::new(0.0, 0.0, 1e-8));
        pc.transform(&iso);
        let how = || format!("empty(normals: {}, colours: {}), long history, transform, append", hn, hc);
        lengths_equal(r, &pc, &how);
        r.check(pc.len() == m.p.len() && pc.normals().is_some() == hn && pc.colors().map(|c| c.to_vec()) == m.c, "cloud: a rigid transform keeps the number of points, the presence of normals and the colours", how);
        let res = pc.append(label_point(1), if hn { Some(label_normal(1)) } else { None }, if hc { Some(label_color(1)) } else { None });
        r.check(res.is_ok() && pc.len() == m.p.len() + 1, "cloud: append is accepted exactly when normal / colour presence matches the cloud", how);
        lengths_equal(r, &pc, &how);
    }
}

// ------------------------------------------------------------------------------------------------ (d3) distances: scales, offsets, 2D
/// every clause of a directed distance on one pair of end points and one (optional) direction; `$what` labels the family
macro_rules! distance_clauses {
    ($r:expr, $Dist:ident, $a:expr, $b:expr, $dir:expr, $what:expr) => {{
        let (a, b, dir) = ($a, $b, $dir);
        $r.case();
        let how = || format!("{}::new({:?}, {:?}, {:?}) [{}]", stringify!($Dist), a.coords.as_slice(), b.coords.as_slice(), dir.map(|d| d.into_inner().as_slice().to_vec()), $what);
        let d = $Dist::new(a, b, dir);
        let w = b - a;
        let len = w.norm();
        let cmax = a.coords.amax().max(b.coords.amax());
        let tol = 1e-12 * len;
        $r.check(d.a == a && d.b == b, "distance: keeps its end points", how);
        if let Some(u) = dir { $r.check(d.direction == u, "distance: keeps the given direction", how); }
        let u = d.direction.into_inner();
        let proj: f64 = u.iter().zip(w.iter()).map(|(x, y)| x * y).sum();
        $r.check((d.value() - proj).abs() <= tol, "distance: value equals the projection of b-a on the direction", || format!("{}: value {:e}, projection {:e}", how(), d.value(), proj));
        if dir.is_none() {
            $r.check((d.value() - len).abs() <= tol && ((u * len) - w).norm() <= 1e-12 * len, "distance: the default direction points from a to b, the value is the full distance", || format!("{}: value {:e}, |b-a| {:e}", how(), d.value(), len));
        }
        let rev = d.reversed();
        $r.check(rev.a == b && rev.b == a, "distance: reversal swaps the end points", how);
        $r.check((rev.direction.into_inner() + u).norm() <= 1e-15, "distance: reversal flips the direction", how);
        $r.check((rev.value() - d.value()).abs() <= tol, "distance: value is unchanged by reversal", || format!("{}: value {:e}, reversed {:e}", how(), d.value(), rev.value()));
        let back = rev.reversed();
        $r.check(back.a == a && back.b == b && (back.value() - d.value()).abs() <= tol, "distance: reversing twice gives the original", how);
        let c = d.center();
        let mid = a + w * 0.5;
        $r.check((c.point - mid).norm() <= 1e-12 * len + 8.0 * f64::EPSILON * cmax && c.normal == d.direction, "distance: center is the mid point with the distance's direction", || format!("{}: center {:?}", how(), c.point.coords.as_slice()));
    }};
}

/// (d3) the integer end points of (d) scaled by 2^-30, 2^-20, 2^20 and 2^27 (coordinates 1e-9 .. 1e9), end points offset
/// by 1e3, 1e6 and 1e8 at separations 1e-3 .. 1 and offset by 1 at separations 1e-9 and 1e-12, in 3D and in 2D, with the
/// default and every given direction: all clauses of (d) with tolerance 1e-12 of the separation.
fn scaled_and_offset_distances(r: &mut Report) {
    let pts3 = [Point3::new(0.0, 0.0, 0.0), Point3::new(1.0, 0.0, 0.0), Point3::new(-2.0, 3.0, 1.0), Point3::new(4.0, -1.0, 2.0), Point3::new(0.5, 0.25, -8.0)];
    let dirs3 = [Vector3::new(1.0, 0.0, 0.0), Vector3::new(0.0, -1.0, 0.0), Vector3::new(0.0, 0.0, 1.0), Vector3::new(0.6, 0.8, 0.0), Vector3::new(0.0, -0.6, 0.8),
        Vector3::new(1.0, 1.0, 1.0), Vector3::new(-1.0, 2.0, -2.0), Vector3::new(3.0, 0.0, -4.0), Vector3::new(-1.0, -1.0, 0.0)];
    let pts2 = [Point2::new(0.0, 0.0), Point2::new(3.0, -4.0), Point2::new(-1.0, 0.5), Point2::new(2.0, 2.0)];
    let dirs2 = [Vector2::new(1.0, 0.0), Vector2::new(0.0, -1.0), Vector2::new(0.6, 0.8), Vector2::new(-1.0, 1.0), Vector2::new(-5.0, -12.0)];
    let scales = [(0.5f64).powi(30), (0.5f64).powi(20), 1.0, (2.0f64).powi(20), (2.0f64).powi(27)];
    for &sc in scales.iter() {
        let what = format!("integer end points scaled by {:e}", sc);
        for a in pts3.iter() { for b in pts3.iter() { for k in 0..=dirs3.len() {
            let dir = if k == 0 { None } else { Some(UnitVec3::new_normalize(dirs3[k - 1])) };
            if dir.is_none() && a == b { continue; }
            distance_clauses!(r, Distance3, Point3::from(a.coords * sc), Point3::from(b.coords * sc), dir, what);
        } } }
        for a in pts2.iter() { for b in pts2.iter() { for k in 0..=dirs2.len() {
            let dir = if k == 0 { None } else { Some(UnitVec2::new_normalize(dirs2[k - 1])) };
            if dir.is_none() && a == b { continue; }
            distance_clauses!(r, Distance2, Point2::from(a.coords * sc), Point2::from(b.coords * sc), dir, what);
        } } }
    }
    let offs3 = [Vector3::new(1.0, 1.0, 1.0), Vector3::new(1.0, -0.5, 0.25), Vector3::new(-0.75, 0.0, 1.0)];
    let offs2 = [Vector2::new(1.0, 1.0), Vector2::new(-0.5, 0.75), Vector2::new(0.3, -0.9)];
    for &(off, ref seps) in [(1.0, vec![1e-9, 1e-12]), (1e3, vec![1e-3, 1.0]), (1e6, vec![1e-3, 1.0]), (1e8, vec![1e-3, 1e-2, 0.1, 1.0])].iter() {
        for &s in seps.iter() { for sign in [1.0, -1.0] {
            let what = format!("end points offset by {:e}, separation {:e}", off, s);
            for o in offs3.iter() { for v in dirs3.iter() {
                let a = Point3::from(o * off);
                let b = a + v.normalize() * (s * sign);
                for k in 0..=dirs3.len() {
                    let dir = if k == 0 { None } else { Some(UnitVec3::new_normalize(dirs3[k - 1])) };
                    distance_clauses!(r, Distance3, a, b, dir, what);
                }
            } }
            for o in offs2.iter() { for v in dirs2.iter() {
                let a = Point2::from(o * off);
                let b = a + v.normalize() * (s * sign);
                for k in 0..=dirs2.len() {
                    let dir = if k == 0 { None } else { Some(UnitVec2::new_normalize(dirs2[k - 1])) };
                    distance_clauses!(r, Distance2, a, b, dir, what);
                }
            } }
        } }
    }
    // a deviation record reconstructs its measured point: reference + direction * value, on either side, near and far
    let devs = [-1e4, -1.0, -1e-7, -0.0, 0.0, 1e-7, 0.5, 3.0, 1e4];
    for &off in [0.0, 1e3, 1e6].iter() {
        for p in pts2.iter() { for v in dirs2.iter() { for &d in devs.iter() {
            r.case();
            let q = Point2::from(p.coords + Vector2::new(off, -off));
            let n = UnitVec2::new_normalize(*v);
            let sd = SurfaceDeviation2::new(SurfacePoint::new(q, n), d);
            let ap = sd.actual_point();
            let want = Point2::new(q.x + n.x * d, q.y + n.y * d);
            r.check(sd.surface.point == q && sd.surface.normal == n && sd.deviation.to_bits() == d.to_bits() && (ap - want).norm() <= 1e-12 * d.abs() + 8.0 * f64::EPSILON * (off + 10.0),
                    "deviation record: keeps reference, direction and value; actual_point() is reference + direction * value", || format!("reference {:?}, direction {:?}, value {:?}: actual_point {:?}", q.coords.as_slice(), [n.x, n.y], d, ap.coords.as_slice()));
        } } }
        for p in pts3.iter() { for v in dirs3.iter() { for &d in devs.iter() {
            r.case();
            let q = Point3::from(p.coords + Vector3::new(off, -off, off));
            let n = UnitVec3::new_normalize(*v);
            let sd = crate::metrology::SurfaceDeviation3::new(SurfacePoint::new(q, n), d);
            let ap = sd.actual_point();
            let want = Point3::new(q.x + n.x * d, q.y + n.y * d, q.z + n.z * d);
            r.check(sd.surface.point == q && sd.surface.normal == n && sd.deviation.to_bits() == d.to_bits() && (ap - want).norm() <= 1e-12 * d.abs() + 8.0 * f64::EPSILON * (off + 10.0),
                    "deviation record: keeps reference, direction and value; actual_point() is reference + direction * value", || format!("reference {:?}, direction {:?}, value {:?}: actual_point {:?}", q.coords.as_slice(), arr(&n), d, ap.coords.as_slice()));
        } } }
    }
}

// ------------------------------------------------------------------------------------------------ (e3) curve deviations: shapes, scales, offsets
struct Closest2 { point: Point2, dist: f64, /// (edge, foot) of every edge that attains the closest distance (numerically)
    attain: Vec<(usize, Point2)>, at_vertex: bool, unique: bool, length_along: f64 }

/// brute force over every edge; `unique` is false when two curve points further than 1e-9 apart are (nearly) equally close
fn closest_on_polyline5(v: &[Point2], p: &Point2, atol: f64) -> Closest2 {
    let mut cand: Vec<(Point2, f64, f64)> = vec![]; // foot, distance, length along
    let mut acc = 0.0;
    for i in 0..v.len() - 1 {
        let e = v[i + 1] - v[i];
        let t = ((p - v[i]).dot(&e) / e.dot(&e)).clamp(0.0, 1.0);
        let q = v[i] + e * t;
        cand.push((q, (p - q).norm(), acc + e.norm() * t));
        acc += e.norm();
    }
    let mut bi = 0;
    for i in 0..cand.len() { if cand[i].1 < cand[bi].1 { bi = i; } }
    let best = cand[bi].1;
    let slack = 1e-12 + atol + 1e-7 * best;
    let unique = (0..cand.len()).filter(|&i| cand[i].1 <= best + slack).all(|i| (cand[i].0 - cand[bi].0).norm() <= 1e-9 + atol);
    let attain: Vec<(usize, Point2)> = (0..cand.len()).filter(|&i| cand[i].1 <= best + 1e-13 + atol).map(|i| (i, cand[i].0)).collect();
    let at_vertex = v.iter().any(|q| (q - cand[bi].0).norm() <= 1e-9 + atol);
    Closest2 { point: cand[bi].0, dist: best, attain, at_vertex, unique, length_along: cand[bi].2 }
}

/// the clauses of a curve deviation against the brute-force oracle; false when the measured point has no unique closest point
fn check_deviation5(r: &mut Report, name: &str, verts: &[Point2], dv: &SurfaceDeviation2, p: &Point2, vmax: f64, via: &str) -> bool {
    let atol = 16.0 * f64::EPSILON * (vmax + p.x.abs().max(p.y.abs()));
    let c = closest_on_polyline5(verts, p, atol);
    if !c.unique { return false; }
    let how = || format!("{} [{} vertices, first ({:?},{:?}) (...) last ({:?},{:?})], measured point ({:?}, {:?}) (closest distance {:e}) via {}: reference ({:?}, {:?}), direction ({:?}, {:?}), value {:?}",
        name, verts.len(), verts[0].x, verts[0].y, verts[verts.len() - 1].x, verts[verts.len() - 1].y, p.x, p.y, c.dist, via,
        dv.surface.point.x, dv.surface.point.y, dv.surface.normal.x, dv.surface.normal.y, dv.deviation);
    let ptol = 1e-12 + atol + 1e-13 * c.dist;
    r.check(c.attain.iter().any(|(_, q)| (dv.surface.point - q).norm() <= ptol), "curve deviation: the reference point is the closest point of the nominal curve", how);
    r.check(near(dv.surface.normal.norm(), 1.0), "curve deviation: the direction is a unit vector", how);
    if c.dist < 1e-6 && c.at_vertex {
        r.check((dv.deviation.abs() - c.dist).abs() < 1e-6 + atol, "curve deviation: within 1e-6 of a vertex the magnitude is within 1e-6 of the closest distance", how);
    } else {
        r.check(near_tol(dv.deviation.abs(), c.dist, atol + 1e-12), "curve deviation: magnitude equals the closest distance", how);
        let rec = dv.surface.point + dv.surface.normal.into_inner() * dv.deviation;
        r.check((rec - p).norm() <= ptol + 1e-9 * c.dist, "curve deviation: reference + direction * value reconstructs the measured point", how);
        r.check((dv.actual_point() - p).norm() <= ptol + 1e-9 * c.dist, "curve deviation: actual_point() reconstructs the measured point", how);
    }
    let mut sides = vec![];
    for &(i, q) in c.attain.iter() {
        let e = (verts[i + 1] - verts[i]).normalize();
        sides.push((p - q).dot(&Vector2::new(e.y, -e.x)));
    }
    let tiny = 1e-11 * c.dist + 4.0 * atol;
    if sides.iter().all(|&s| s > tiny) { r.check(dv.deviation > 0.0, "curve deviation: positive on the outward-normal side", how); }
    if sides.iter().all(|&s| s < -tiny) { r.check(dv.deviation < 0.0, "curve deviation: negative on the side opposite to the normal", how); }
    true
}

/// measured points of a polyline: off two interior feet of every listed edge on both sides, and all around every listed vertex
fn curve_points5(v: &[Point2], edges: &[usize], verts: &[usize], dists: &[f64]) -> Vec<Point2> {
    let mut pts = vec![];
    for &i in edges.iter() {
        let e = (v[i + 1] - v[i]).normalize();
        let n = Vector2::new(e.y, -e.x);
        for f in [0.375, 0.5] {
            let foot = v[i] + (v[i + 1] - v[i]) * f;
            for &d in dists.iter() { for s in [1.0, -1.0] { if d == 0.0 && s < 0.0 { continue; } pts.push(foot + n * (d * s)); } }
        }
    }
    // 4 axis directions (exactly tangent to an axis-aligned edge), 10 oblique ones, and 16 within 1e-7 / 1e-9 of an axis
    // direction on either side (just off the tangent of an axis-aligned edge)
    let mut around = vec![(1.0, 0.0), (0.0, 1.0), (-1.0, 0.0), (0.0, -1.0), (0.6, 0.8), (0.8, 0.6), (-0.6, 0.8), (-0.8, 0.6), (0.6, -0.8), (0.8, -0.6), (-0.6, -0.8), (-0.8, -0.6), (0.28, 0.96), (-0.96, -0.28)];
    for t in [1e-7, 1e-9] { for s in [1.0, -1.0] { for a in [1.0, -1.0] { around.push((a, s * t)); around.push((s * t, a)); } } }
    for &k in verts.iter() { for &(x, y) in around.iter() { for &d in dists.iter() { pts.push(v[k] + Vector2::new(x, y) * d); } } }
    pts
}

fn run_curve_family(r: &mut Report, name: &str, input: &[Point2], tol: f64, force_closed: bool, dists: &[f64], sample: Option<&[usize]>) {
    let Some(Ok(curve)) = guarded5(|| Curve2::from_points(input, tol, force_closed)) else { r.check(false, "curve deviation: the nominal curve can be built", || name.to_string()); return; };
    let verts: Vec<Point2> = curve.points().to_vec();
    let vmax = verts.iter().fold(0.0f64, |a, q| a.max(q.x.abs()).max(q.y.abs()));
    let atol = 16.0 * f64::EPSILON * vmax;
    let all_edges: Vec<usize> = (0..verts.len() - 1).collect();
    let all_verts: Vec<usize> = (0..verts.len()).collect();
    let pts = match sample { None => curve_points5(&verts, &all_edges, &all_verts, dists), Some(s) => curve_points5(&verts, s, s, dists) };
    let mut kept: Vec<Point2> = vec![];
    for p in pts.iter() {
        let Some(dv) = guarded5(|| point_curve2_deviation(&curve.at_closest_to_point(p), p)) else { r.check(false, "curve deviation: the deviation of a finite point is returned (no panic)", || format!("{} point ({:?}, {:?})", name, p.x, p.y)); continue; };
        if check_deviation5(r, name, &verts, &dv, p, vmax, "point_curve2_deviation(at_closest_to_point(p), p)") { r.case(); kept.push(*p); }
    }
    let Some(set) = guarded5(|| line_surface_deviations(&curve, &kept, None)) else { r.check(false, "curve deviation: the deviation of a finite point is returned (no panic)", || name.to_string()); return; };
    r.case();
    r.check(set.len() == kept.len(), "line deviations: one deviation per measured point without an interval", || name.to_string());
    if set.len() == kept.len() && !kept.is_empty() {
        for (i, p) in kept.iter().enumerate() { check_deviation5(r, name, &verts, &set[i], p, vmax, "line_surface_deviations(.., None)"); }
        let held: Vec<f64> = (0..set.len()).map(|i| set[i].deviation).collect();
        let bmax = held.iter().cloned().fold(f64::NEG_INFINITY, f64::max);
        let bmin = held.iter().cloned().fold(f64::INFINITY, f64::min);
        let babs = held.iter().cloned().fold(0.0f64, |a, v| a.max(v.abs()));
        r.check(set.max().map(|m| m.deviation) == Some(bmax) && set.min().map(|m| m.deviation) == Some(bmin) && set.symmetrical_zone_size() == 2.0 * babs,
                "line deviations: the returned set reports the true extremes of its contents", || name.to_string());
    }
    // interval filter against the brute-force length along the curve (points whose length is within 1e-6 of a bound, or
    // at the seam of a closed curve, are left out of the comparison)
    let total: f64 = (0..verts.len() - 1).map(|i| (verts[i + 1] - verts[i]).norm()).sum();
    for &(flo, fhi) in [(0.1, 0.6), (0.55, 0.2), (0.0, 1.0), (0.9, 2.0)].iter() {
        let (lo, hi) = (flo * total * 1.0009765625, fhi * total * 0.9990234375);
        let iv = Interval::new(lo, hi);
        let (lo, hi) = (lo.min(hi), lo.max(hi));
        let mut sel: Vec<Point2> = vec![]; let mut expect = 0usize;
        for p in kept.iter() {
            let atol = 16.0 * f64::EPSILON * (vmax + p.x.abs().max(p.y.abs()));
            let c = closest_on_polyline5(&verts, p, atol);
            let l = c.length_along;
            if c.at_vertex && (c.point - verts[0]).norm() <= 1e-9 + atol { continue; }
            if (l - lo).abs() < 1e-6 + atol || (l - hi).abs() < 1e-6 + atol { continue; }
            sel.push(*p);
            if lo <= l && l <= hi { expect += 1; }
        }
        r.case();
        let Some(set) = guarded5(|| line_surface_deviations(&curve, &sel, Some(iv))) else { continue; };
        r.check(set.len() == expect, "line deviations: exactly the points whose closest station lies in the interval are kept", || format!("{} interval of lengths [{:?}, {:?}] (bounds given as ({:?}, {:?})): {} kept, {} expected of {}", name, lo, hi, flo * total, fhi * total, set.len(), expect, sel.len()));
    }
}

fn curve_shapes(r: &mut Report) {
    let p2 = |x: f64, y: f64| Point2::new(x, y);
    let base: Vec<(&str, Vec<Point2>, bool)> = vec![
        ("CCW square", vec![p2(0.0, 0.0), p2(4.0, 0.0), p2(4.0, 4.0), p2(0.0, 4.0), p2(0.0, 0.0)], false),
        ("CW square", vec![p2(0.0, 0.0), p2(0.0, 4.0), p2(4.0, 4.0), p2(4.0, 0.0), p2(0.0, 0.0)], false),
        ("CCW 3-4-5 triangle", vec![p2(0.0, 0.0), p2(4.0, 0.0), p2(4.0, 3.0), p2(0.0, 0.0)], false),
        ("CCW rectangle 6 x 2", vec![p2(0.0, 0.0), p2(6.0, 0.0), p2(6.0, 2.0), p2(0.0, 2.0), p2(0.0, 0.0)], false),
        ("CCW L-shaped hexagon (reflex corner)", vec![p2(0.0, 0.0), p2(4.0, 0.0), p2(4.0, 2.0), p2(2.0, 2.0), p2(2.0, 4.0), p2(0.0, 4.0), p2(0.0, 0.0)], false),
        ("open hairpin (gap 0.5)", vec![p2(0.0, 0.0), p2(4.0, 0.0), p2(4.0, 0.5), p2(0.0, 0.5)], false),
        ("open polyline", vec![p2(0.0, 0.0), p2(4.0, 0.0), p2(4.0, 4.0)], false),
        ("open single segment", vec![p2(-1.0, 2.0), p2(3.0, -1.0)], false),
        ("open polyline whose last vertex hangs 0.25 above the middle of its long first edge", vec![p2(0.0, 0.0), p2(10.0, 0.0), p2(10.0, 1.0), p2(5.0, 1.0), p2(5.0, 0.25)], false),
        ("square closed by force_closed", vec![p2(0.0, 0.0), p2(4.0, 0.0), p2(4.0, 4.0), p2(0.0, 4.0)], true),
        ("square closed within the tolerance (last vertex 2^-21 off the first)", vec![p2(0.0, 0.0), p2(4.0, 0.0), p2(4.0, 4.0), p2(0.0, 4.0), p2(0.0, (0.5f64).powi(21))], false),
        ("square with repeated input vertices", vec![p2(0.0, 0.0), p2(4.0, 0.0), p2(4.0, 0.0), p2(4.0, 4.0), p2(0.0, 4.0), p2(0.0, 4.0), p2(0.0, 0.0)], false),
    ];
    let dists0 = [0.0, 9e-7, 2e-6, 5e-6, 1e-5, 1e-3, 0.125, 1.0, 100.0, 1e4];
    for (name, v, fc) in base.iter() { run_curve_family(r, name, v, 1e-6, *fc, &dists0, None); }
    // the curve's own tolerance is no parameter of a deviation: larger than most offsets, and far smaller than all
    for &tol in [1e-2, 1e-9].iter() { for (name, v, fc) in base.iter().take(3) { run_curve_family(r, &format!("{} built with tolerance {:e}", name, tol), v, tol, *fc, &dists0, None); } }
    // moved far from the origin by powers of two (coordinates stay exact) and scaled
    let dyadic = [(0.5f64).powi(10), 0.0625, 1.0, 64.0];
    for (name, v, fc) in base.iter().take(9) {
        for &(ox, oy) in [(1024.0, -1024.0), (1048576.0, 1048576.0), (-134217728.0, 134217728.0)].iter() {
            let moved: Vec<Point2> = v.iter().map(|q| p2(q.x + ox, q.y + oy)).collect();
            run_curve_family(r, &format!("{} moved by ({:e}, {:e})", name, ox, oy), &moved, 1e-6, *fc, &dyadic, None);
        }
        for &sc in [(0.5f64).powi(10), 1024.0].iter() {
            let scaled: Vec<Point2> = v.iter().map(|q| p2(q.x * sc, q.y * sc)).collect();
            let ds: Vec<f64> = [0.015625, 0.0625, 1.0, 64.0].iter().map(|d| d * sc).collect();
            run_curve_family(r, &format!("{} scaled by {:e}", name, sc), &scaled, 1e-6, *fc, &ds, None);
        }
    }
    // many edges: an open zigzag (i, i mod 2) of 40, 1100 and 5000 edges, sampled at the start, around 32 / 64 / 1024 /
    // 4096 and at the end
    for &ne in [40usize, 1100, 5000].iter() {
        let v: Vec<Point2> = (0..=ne).map(|i| p2(i as f64, (i % 2) as f64)).collect();
        let mut sample: Vec<usize> = vec![0, 1, 2, ne / 2, ne - 3, ne - 2, ne - 1];
        for c in [32usize, 64, 1024, 4096] { for k in [c - 1, c, c + 1] { if k + 1 < ne { sample.push(k); } } }
        sample.sort(); sample.dedup();
        run_curve_family(r, &format!("open zigzag of {} edges", ne), &v, 1e-6, false, &[1e-3, 0.125, 0.25], Some(&sample));
    }
    // interval bounds exactly on the length of a closest station (closed CCW square, lengths 0..16): both ends belong to
    // the interval, bounds may be given in either order, an empty input gives an empty set
    {
        let sq = [p2(0.0, 0.0), p2(4.0, 0.0), p2(4.0, 4.0), p2(0.0, 4.0), p2(0.0, 0.0)];
        if let Ok(curve) = Curve2::from_points(&sq, 1e-6, false) {
            let ls = [0.5, 1.5, 2.0, 5.5, 6.0, 9.5, 14.0];
            let at = |l: f64| -> Point2 { let (k, t) = ((l / 4.0).floor() as usize, l % 4.0); let n = [(0.0, -1.0), (1.0, 0.0), (0.0, 1.0), (-1.0, 0.0)][k]; let e = sq[k + 1] - sq[k]; sq[k] + e * (t / 4.0) + Vector2::new(n.0, n.1) * 0.25 };
            let pts: Vec<Point2> = ls.iter().map(|&l| at(l)).collect();
            let cases: [(f64, f64, &[f64]); 8] = [(1.5, 5.5, &[1.5, 2.0, 5.5]), (2.0, 2.0, &[2.0]), (ulp_up(1.5), ulp_down(5.5), &[2.0]), (6.0, 1.5, &[1.5, 2.0, 5.5, 6.0]),
                (-1.0, 0.5, &[0.5]), (14.0, 100.0, &[14.0]), (ulp_up(14.0), 100.0, &[]), (f64::NEG_INFINITY, f64::INFINITY, &ls)];
            for (lo, hi, want) in cases.iter() {
                r.case();
                let set = line_surface_deviations(&curve, &pts, Some(Interval::new(*lo, *hi)));
                let got: Vec<f64> = (0..set.len()).map(|i| { let q = set[i].surface.point; if q.y == 0.0 { q.x } else if q.x == 4.0 { 4.0 + q.y } else if q.y == 4.0 { 12.0 - q.x } else { 16.0 - q.y } }).collect();
                r.check(got == want.to_vec() && (0..set.len()).all(|i| set[i].deviation == 0.25), "line deviations: exactly the points whose closest station lies in the interval are kept (a station exactly on a bound is kept)",
                        || format!("closed CCW square of side 4, points 0.25 outside at lengths {:?}, interval ({:?}, {:?}): kept lengths {:?}, expected {:?}", ls, lo, hi, got, want));
            }
            for iv in [None, Some(Interval::new(0.0, 16.0))] {
                r.case();
                let set = line_surface_deviations(&curve, &[], iv);
                r.check(set.len() == 0 && set.max().is_none() && set.min().is_none() && set.symmetrical_zone_size() == 0.0, "line deviations: no measured points give an empty set", || format!("interval {:?}", iv.map(|i| (i.min, i.max))));
            }
        }
    }
}

// ------------------------------------------------------------------------------------------------ (f3) mesh deviations: shapes, scales, offsets
/// closest point of one triangle: foot on its plane when that lies inside, otherwise the nearest point of its three sides
fn closest_on_triangle5(p: &Point3, a: &Point3, b: &Point3, c: &Point3) -> (Point3, f64, bool, Vector3) {
    let nv = (b - a).cross(&(c - a));
    let area2 = nv.norm();
    let u = nv / area2;
    let h = (p - a).dot(&u);
    let q = p - u * h;
    let e0 = (b - a).cross(&(q - a)).dot(&u);
    let e1 = (c - b).cross(&(q - b)).dot(&u);
    let e2 = (a - c).cross(&(q - c)).dot(&u);
    if e0 >= 0.0 && e1 >= 0.0 && e2 >= 0.0 {
        return (q, (p - q).norm(), e0.min(e1).min(e2) > 1e-9 * area2, u);
    }
    let mut best = (*a, f64::INFINITY);
    for (s0, s1) in [(a, b), (b, c), (c, a)] {
        let e = s1 - s0;
        let t = ((p - s0).dot(&e) / e.dot(&e)).clamp(0.0, 1.0);
        let f = s0 + e * t;
        let d = (p - f).norm();
        if d < best.1 { best = (f, d); }
    }
    (best.0, best.1, false, u)
}

struct ClosestM { point: Point3, dist: f64, /// (foot, unit normal) of every triangle that attains the closest distance (numerically)
    attain: Vec<(Point3, Vector3)>, interior: bool, unique: bool }

/// brute force over every triangle that can hold the closest point (|p - first corner| <= nearest vertex distance + longest side)
fn closest_on_mesh5(verts: &[Point3], faces: &[[u32; 3]], max_side: f64, p: &Point3, atol: f64) -> ClosestM {
    let ub = verts.iter().fold(f64::INFINITY, |m, v| m.min((p - v).norm()));
    let mut cand: Vec<(Point3, f64, bool, Vector3)> = vec![];
    for f in faces.iter() {
        let a = &verts[f[0] as usize];
        if (p - a).norm() > ub + max_side + 1e-9 + atol { continue; }
        cand.push(closest_on_triangle5(p, a, &verts[f[1] as usize], &verts[f[2] as usize]));
    }
    let mut bi = 0;
    for i in 0..cand.len() { if cand[i].1 < cand[bi].1 { bi = i; } }
    let best = cand[bi].1;
    let unique = (0..cand.len()).filter(|&i| cand[i].1 <= best + 1e-12 + atol + 1e-7 * best).all(|i| (cand[i].0 - cand[bi].0).norm() <= 1e-9 + atol);
    let attain: Vec<(Point3, Vector3)> = (0..cand.len()).filter(|&i| cand[i].1 <= best + 1e-13 + atol).map(|i| (cand[i].0, cand[i].3)).collect();
    // interior of a face: the best foot is strictly inside its triangle and every attaining triangle lies in the same plane
    let interior = cand[bi].2 && attain.iter().all(|(_, n)| (n - cand[bi].3).norm() <= 1e-9);
    ClosestM { point: cand[bi].0, dist: best, attain, interior, unique }
}

fn check_mesh_point5(r: &mut Report, name: &str, mesh: &Mesh, max_side: f64, p: &Point3, vmax: f64) {
    let atol = 16.0 * f64::EPSILON * (vmax + p.coords.amax());
    let c = closest_on_mesh5(mesh.vertices(), mesh.faces(), max_side, p, atol);
    if !c.unique { return; }
    let w = p - c.point;
    let ptol = 1e-12 + atol + 1e-13 * c.dist;
    for mode in 0..2 {
        r.case();
        let m = if mode == 0 { DistMode::ToPoint } else { DistMode::ToPlane };
        let Some(dv) = guarded5(|| mesh.measure_point_deviation(p, m)) else { r.check(false, "mesh deviation: the deviation of a finite point is returned (no panic)", || format!("{} point {:?}", name, p.coords.as_slice())); continue; };
        let u = dv.direction.into_inner();
        let val = dv.value();
        let how = || format!("{} ({} triangles), measured point {:?} (closest distance {:e}, closest point {:?}), mode {}: reference {:?}, direction {:?}, value {:?}",
            name, mesh.faces().len(), p.coords.as_slice(), c.dist, c.point.coords.as_slice(), if mode == 0 { "ToPoint" } else { "ToPlane" }, dv.a.coords.as_slice(), u.as_slice(), val);
        r.check(c.attain.iter().any(|(q, _)| (dv.a - q).norm() <= ptol), "mesh deviation: the reference point is the closest point of the nominal surface", how);
        r.check(dv.b == *p, "mesh deviation: the measured point is kept", how);
        r.check(near(u.norm(), 1.0), "mesh deviation: the direction is a unit vector", how);
        r.check(near_tol(val, u.dot(&(dv.b - dv.a)), 1e-12 + atol), "mesh deviation: value equals the projection of b-a on the direction", how);
        let tiny = 1e-11 * c.dist + 4.0 * atol;
        if mode == 0 {
            if c.dist < 1e-6 && !c.interior {
                r.check((val.abs() - c.dist).abs() < 1e-6 + atol, "mesh deviation (point mode): within 1e-6 of a box edge / corner the magnitude is within 1e-6 of the closest distance", how);
            } else {
                r.check(near_tol(val.abs(), c.dist, 1e-12 + atol), "mesh deviation (point mode): magnitude equals the closest distance", how);
                r.check((dv.a + u * val - p).norm() <= ptol + 1e-9 * c.dist, "mesh deviation (point mode): reference + direction * value reconstructs the measured point", how);
            }
            if c.attain.iter().all(|(q, n)| n.dot(&(p - q)) > tiny) { r.check(val > 0.0, "mesh deviation (point mode): positive on the outward-normal side", how); }
            else if c.attain.iter().all(|(q, n)| n.dot(&(p - q)) < -tiny) { r.check(val < 0.0, "mesh deviation (point mode): negative on the inner side", how); }
        } else {
            // the triangle whose normal is reported (among those holding the closest point): the offset is taken from its foot
            let face = c.attain.iter().find(|(q, n)| (n - u).norm() <= 1e-9 && (dv.a - q).norm() <= ptol).or(c.attain.iter().find(|(_, n)| (n - u).norm() <= 1e-9));
            let on_face = face.is_some();
            r.check(on_face, "mesh deviation (plane mode): measured along the outward normal at the closest point", how);
            let side = match face { Some((q, _)) => u.dot(&(p - q)), None => u.dot(&w) };
            r.check(near_tol(val.abs(), side.abs(), 1e-12 + 2.0 * atol), "mesh deviation (plane mode): magnitude equals the normal component of the offset", how);
            if on_face && side > tiny { r.check(val > 0.0, "mesh deviation (plane mode): positive on the outward-normal side", how); }
            if on_face && side < -tiny { r.check(val < 0.0, "mesh deviation (plane mode): negative on the inner side", how); }
            if c.interior {
                r.check(near_tol(val.abs(), c.dist, 1e-12 + 2.0 * atol), "mesh deviation (plane mode): off a face interior the normal component is the closest distance", how);
                r.check((dv.a + u * val - p).norm() <= ptol + 1e-9 * c.dist, "mesh deviation (plane mode): off a face interior reference + direction * value reconstructs the measured point", how);
            }
        }
    }
}

/// measured points of a mesh: off two interior feet of every listed triangle on both sides; off the middle of each of its
/// sides diagonally outward / inward, exactly in the triangle's plane and just above / below it; off each of its corners along and against the
/// triangle normal tilted outward
fn run_mesh_family(r: &mut Report, name: &str, mesh: &Mesh, dists: &[f64], sample: Option<&[usize]>) {
    let verts = mesh.vertices(); let faces = mesh.faces();
    let max_side = faces.iter().fold(0.0f64, |m, f| { let (a, b, c) = (verts[f[0] as usize], verts[f[1] as usize], verts[f[2] as usize]); m.max((b - a).norm()).max((c - b).norm()).max((a - c).norm()) });
    let vmax = verts.iter().fold(0.0f64, |a, q| a.max(q.coords.amax()));
    let all: Vec<usize> = (0..faces.len()).collect();
    let list: &[usize] = match sample { Some(s) => s, None => &all };
    for &fi in list.iter() {
        let f = faces[fi];
        let (a, b, c) = (verts[f[0] as usize], verts[f[1] as usize], verts[f[2] as usize]);
        let n = (b - a).cross(&(c - a)).normalize();
        let mut pts: Vec<Point3> = vec![];
        for wts in [(0.5, 0.25, 0.25), (0.25, 0.25, 0.5)] {
            let foot = Point3::from(a.coords * wts.0 + b.coords * wts.1 + c.coords * wts.2);
            for &d in dists.iter() { pts.push(foot + n * d); if d > 0.0 { pts.push(foot - n * d); } }
        }
        for (s0, s1) in [(a, b), (b, c), (c, a)] {
            let mid = Point3::from((s0.coords + s1.coords) * 0.5);
            let t = (s1 - s0).cross(&n).normalize();
            for &d in dists.iter() { if d > 0.0 {
                pts.push(mid + (n + t).normalize() * d); pts.push(mid - (n + t).normalize() * d); pts.push(mid + t * d);
                // just above / below the triangle's plane, beyond the side (within 1e-7 and 1e-9 of the plane, relative)
                for eps in [1e-7, 1e-9] { pts.push(mid + (t + n * eps) * d); pts.push(mid + (t - n * eps) * d); }
            } }
        }
        for (k, corner) in [a, b, c].iter().enumerate() {
            let away = (corner.coords * 3.0 - a.coords - b.coords - c.coords).normalize();
            for &d in dists.iter() { if d > 0.0 { pts.push(corner + (n + away).normalize() * d); if k == 0 { pts.push(corner - (n + away * 0.5).normalize() * d); } } }
        }
        for p in pts.iter() { check_mesh_point5(r, name, mesh, max_side, p, vmax); }
    }
}

fn mesh_shapes(r: &mut Report) {
    let p3 = |x: f64, y: f64, z: f64| Point3::new(x, y, z);
    let dists0 = [0.0, 9e-7, 2e-6, 5e-6, 1e-5, 1e-3, 0.125, 1.0, 100.0];
    let tetra_v = vec![p3(0.0, 0.0, 0.0), p3(4.0, 0.0, 0.0), p3(0.0, 3.0, 0.0), p3(0.0, 0.0, 2.0)];
    let tetra_f: Vec<[u32; 3]> = vec![[0, 2, 1], [0, 1, 3], [0, 3, 2], [1, 2, 3]];
    let quad_v = vec![p3(0.0, 0.0, 0.0), p3(4.0, 0.0, 0.0), p3(4.0, 3.0, 0.0), p3(0.0, 3.0, 0.0)];
    let quad_f: Vec<[u32; 3]> = vec![[0, 1, 2], [0, 2, 3]];
    let quad_down: Vec<[u32; 3]> = vec![[0, 2, 1], [0, 3, 2]];
    let boxm = Mesh::create_box(2.0, 3.0, 5.0, false);
    let (box_v, box_f) = (boxm.vertices().to_vec(), boxm.faces().to_vec());
    let base: Vec<(&str, Vec<Point3>, Vec<[u32; 3]>, bool)> = vec![
        ("box 2 x 3 x 5", box_v.clone(), box_f.clone(), false),
        ("box 2 x 3 x 5 (is_solid)", box_v.clone(), box_f.clone(), true),
        ("tetrahedron (0,0,0) (4,0,0) (0,3,0) (0,0,2)", tetra_v.clone(), tetra_f.clone(), false),
        ("open rectangle 4 x 3 in z = 0, normal +z", quad_v.clone(), quad_f.clone(), false),
        ("open rectangle 4 x 3 in z = 0, normal -z", quad_v.clone(), quad_down.clone(), false),
        ("single triangle (0,0,0) (4,0,0) (0,3,0)", vec![p3(0.0, 0.0, 0.0), p3(4.0, 0.0, 0.0), p3(0.0, 3.0, 0.0)], vec![[0, 1, 2]], false),
        ("large triangle (0,0,0) (12,0,0) (0,12,0) with a small one hovering 0.25 above its middle", vec![p3(0.0, 0.0, 0.0), p3(12.0, 0.0, 0.0), p3(0.0, 12.0, 0.0), p3(3.0, 3.0, 0.25), p3(3.5, 3.0, 0.25), p3(3.0, 3.5, 0.25)], vec![[0, 1, 2], [3, 4, 5]], false),
    ];
    for (name, v, f, solid) in base.iter() {
        let Some(mesh) = guarded5(|| Mesh::new(v.clone(), f.clone(), *solid)) else { continue; };
        run_mesh_family(r, name, &mesh, &dists0, None);
    }
    {
        let mesh = Mesh::create_box(4.0, 4.0, 4.0, true);
        run_mesh_family(r, "box 4 x 4 x 4 (is_solid)", &mesh, &dists0, None);
    }
    let dyadic = [(0.5f64).powi(10), 0.0625, 1.0, 64.0];
    for (name, v, f, solid) in base.iter() {
        for &(ox, oy, oz) in [(1024.0, -1024.0, 1024.0), (1048576.0, 1048576.0, -1048576.0), (-134217728.0, 134217728.0, 134217728.0)].iter() {
            let moved: Vec<Point3> = v.iter().map(|q| p3(q.x + ox, q.y + oy, q.z + oz)).collect();
            let Some(mesh) = guarded5(|| Mesh::new(moved, f.clone(), *solid)) else { continue; };
            run_mesh_family(r, &format!("{} moved by ({:e}, {:e}, {:e})", name, ox, oy, oz), &mesh, &dyadic, None);
        }
        for &sc in [(0.5f64).powi(10), 1024.0].iter() {
            let scaled: Vec<Point3> = v.iter().map(|q| p3(q.x * sc, q.y * sc, q.z * sc)).collect();
            let ds: Vec<f64> = [0.015625, 0.0625, 1.0, 64.0].iter().map(|d| d * sc).collect();
            let Some(mesh) = guarded5(|| Mesh::new(scaled, f.clone(), *solid)) else { continue; };
            run_mesh_family(r, &format!("{} scaled by {:e}", name, sc), &mesh, &ds, None);
        }
    }
    // many triangles, vertex ids beyond 2^16: a corrugated sheet of 256 x 256 cells (z = 0.5 on odd columns), two
    // triangles per cell, sampled in the first cells, around cell 32 / 100 / 128 and in the last cells
    {
        let n = 256usize;
        let mut v: Vec<Point3> = Vec::with_capacity((n + 1) * (n + 1));
        for j in 0..=n { for i in 0..=n { v.push(p3(i as f64, j as f64, 0.5 * (i % 2) as f64)); } }
        let id = |i: usize, j: usize| (j * (n + 1) + i) as u32;
        let mut f: Vec<[u32; 3]> = Vec::with_capacity(2 * n * n);
        for j in 0..n { for i in 0..n { f.push([id(i, j), id(i + 1, j), id(i + 1, j + 1)]); f.push([id(i, j), id(i + 1, j + 1), id(i, j + 1)]); } }
        if let Some(mesh) = guarded5(|| Mesh::new(v, f, false)) {
            let mut sample: Vec<usize> = vec![];
            for &(i, j) in [(0usize, 0usize), (1, 0), (31, 31), (32, 32), (100, 7), (128, 200), (254, 255), (255, 255), (255, 0), (0, 255)].iter() { sample.push(2 * (j * n + i)); sample.push(2 * (j * n + i) + 1); }
            run_mesh_family(r, "corrugated sheet of 256 x 256 cells", &mesh, &[1e-3, 0.0625, 0.25], Some(&sample));
        }
    }
    // an open faceted cylinder (radius 2, height 4, 64 facets): irrational coordinates, free rims
    {
        let mesh = Mesh::create_cylinder(2.0, 4.0, 64);
        let sample: Vec<usize> = vec![0, 1, 2, 3, 31, 32, 33, 64, 65, 100, 126, 127];
        run_mesh_family(r, "open cylinder of radius 2, height 4, 64 facets", &mesh, &[1e-3, 0.03125, 0.5], Some(&sample));
    }
}

pub fn run() -> Option<Report> {
    let mut r = Report::new("deviation sets: all push histories of length <= 5 over 7 values incl. ties and one-ulp neighbours, from default() and new(prefix); \
tolerance maps: all ascending tables of length 0..=4 over 5 breakpoints, x at breakpoints, one-ulp neighbours, midpoints, below the start, beyond the end; \
point clouds: all sequences of <= 3 operations (append / merge / create_from_indices, every presence combination) from 12 starts, try_new over all presence/length combinations; \
distances on integer points with 9 directions, and with end points offset by 1e3 and 1e6 from the origin (4 offsets in 3D, 3 in 2D) at separations 1e-3, 1e-2, 0.1, 1 along and against 6 (5) unit vectors, measured along the default and 6 (5) given directions, tolerance 1e-12 of the separation; curve / mesh deviations on a square of side 4, an open polyline and a 4x4x4 box at offsets 1e-7, 1e-5, 1e-4, 1e-2, 1 on both sides, off corners and beyond ends; \
wave 4: deviation sets built by new() from every vector of length 1..=3 over {+-f64::MAX, +-inf, 0, +-1, +-MIN_POSITIVE, +-5e-324} plus one push; breakpoint tables: try_from on every vector of length 0..=4 over 11 values with neighbours one rounding step apart (0.3 / 0.1+0.2, 1 / 1+2^-52, -1 / -1+2^-53, 1e6 / next, 0 / 5e-324 / 1e-17), push histories of length <= 4 over {-1, 0, 0.3, 0.1+0.2, 1, 2, 3, +inf, NaN} from the empty table and from try_from(prefix), every resulting table queried at breakpoints, one-ulp neighbours and midpoints; \
wave 5: deviation sets of 2 .. 4097 (three patterns: 70000) items in 15 value patterns built five ways, checked after every push; breakpoint tables of 1 .. 4097 values in 9 families (integers, offset 1e6, spacing 2^-40, negative, quadratic, runs of equal values, one-ulp steps, one gap of 1e9, denormals) built by try_from, push and linear, tables of signed zeros, queried at every breakpoint, one-ulp neighbours, midpoints, +-inf, +-f64::MAX; point clouds: try_new with 33 .. 4097 points and 7 x 7 normal / colour lengths, four histories of 1100 steps (accepted and refused appends and merges, merges with a copy of itself, index selections of l and 2l indices, reversed and repeated); distances in 2D and 3D on integer end points scaled by 2^-30, 2^-20, 1, 2^20, 2^27 and offset by 1, 1e3, 1e6, 1e8 at separations 1e-12 .. 1, deviation records at offsets 0, 1e3, 1e6; curve deviations on 12 shapes (CW square, 3-4-5 triangle, rectangle, L-hexagon, hairpin, spur, segment, force_closed, closed within tolerance, repeated vertices, tolerances 1e-2 / 1e-9) at offsets 0, 9e-7, 2e-6, 5e-6, 1e-5, 1e-3, 1/8, 1, 100, 1e4 off two feet per edge and in 30 directions around every vertex (4 exactly tangent, 16 within 1e-7 / 1e-9 of a tangent), the shapes moved by 2^10, 2^20, 2^27 and scaled by 2^-10, 2^10, open zigzags of 40 / 1100 / 5000 edges, interval bounds exactly on a station length; mesh deviations (both modes) on box 2x3x5 (is_solid false / true), box 4x4x4 is_solid, tetrahedron, open 4x3 rectangle of both windings, single triangle, large triangle with a small one hovering above, the same moved by 2^10, 2^20, 2^27 and scaled by 2^-10, 2^10, a corrugated sheet of 256 x 256 cells (131072 triangles), an open cylinder of 64 facets; brute-force closest-point oracles, measured points without a unique closest point skipped");
    deviation_sets(&mut r);
    tolerance_maps(&mut r);
    // the real code is called under catch_unwind in the wave-4 groups: keep the default hook from printing one message per caught panic
    let hook = std::panic::take_hook();
    std::panic::set_hook(Box::new(|_| {}));
    extreme_deviation_sets(&mut r);
    breakpoint_tables(&mut r);
    std::panic::set_hook(hook);
    point_clouds(&mut r);
    distances(&mut r);
    far_distances(&mut r);
    curve_deviations(&mut r);
    mesh_deviations(&mut r);
    // wave 5: the real code is called under catch_unwind (guarded5) where a mutant may panic; panics outside stay loud
    let default_hook = std::panic::take_hook();
    std::panic::set_hook(Box::new(move |info| { if !QUIET_PANICS.load(std::sync::atomic::Ordering::SeqCst) { default_hook(info); } }));
    long_deviation_sets(&mut r);
    long_breakpoint_tables(&mut r);
    large_point_clouds(&mut r);
    scaled_and_offset_distances(&mut r);
    curve_shapes(&mut r);
    mesh_shapes(&mut r);
    let _ = std::panic::take_hook();
    Some(r)
}
