//! C16 bounded: "Deviations equal signed distance and aggregates track their contents" on the REAL code over
//!  (a) SurfaceDeviationSet: every push history of length <= 5 over the 7 values {-1, -next_up(0.1), -0.1, 0, 0.1,
//!      next_up(0.1), 1} (repeats = ties, one-ulp neighbours), started from default(), from new(vec![]) and from
//!      new(first k items) for every k: after EVERY step max / min / symmetrical_zone_size are compared with the
//!      brute-force extremes of everything held;
//!  (b) tolerance maps: every ascending (repeats allowed) breakpoint table of length 0..=4 over {-1, 0, 0.5, 2, 3} with
//!      one distinct zone per breakpoint, queried at every breakpoint exactly, its one-ulp neighbours, every midpoint,
//!      below the first and beyond the last;
//!  (c) PointCloud: every sequence of <= 3 operations among append (4 presence combinations) / merge (4 presence
//!      combinations x {0, 2} points) / create_from_indices (3 index lists) from each of 12 starting clouds (try_new with
//!      every presence combination x {0, 2} points, empty(..) with every combination), plus try_new over all 3x3x3
//!      presence / length combinations, compared step by step with a three-array model;
//!  (d) Distance::{new, value, reversed} on integer points with 9 directions (2D and 3D), and on end points offset by
//!      1e3 and 1e6 from the origin at separations 1e-3..1 (value == projection of b-a within 1e-12 of the separation,
//!      unchanged under reversal); point_curve2_deviation /
//!      line_surface_deviations on a closed CCW square of side 4 and an open L-shaped polyline, and
//!      Mesh::measure_point_deviation (both modes) on a 4x4x4 box: measured points on both sides of edge / face
//!      interiors, off corners (and box edges) and beyond the ends of the open curve, at distances 1e-7, 1e-5, 1e-4,
//!      1e-2 and 1, compared with a brute-force closest-point oracle;
//!  (a2, wave 4) SurfaceDeviationSet::new on every vector of length 1..=3 over {+-f64::MAX, +-inf, 0, +-1, +-MIN_POSITIVE,
//!      +-5e-324} followed by every single push from the same pool: extremes are Some and true, nothing panics;
//!  (b2, wave 4) breakpoint tables as the constructors deliver them: DiscreteDomain::try_from on every vector of length
//!      0..=4 over 11 values whose neighbours are one rounding step apart (accepted exactly when ascending in the sense
//!      w[0] <= w[1]), DiscreteDomain::push histories of length <= 4 (a value below the LAST breakpoint is refused and
//!      changes nothing), every resulting map queried as in (b).
use super::Report;
use crate::common::{DiscreteDomain, DistMode, Interval, SurfacePoint};
use crate::geom2::{Curve2, Point2, UnitVec2, Vector2};
use crate::geom3::{Mesh, Point3, PointCloud, PointCloudFeatures, UnitVec3, Vector3};
use crate::metrology::line_profiles::{line_surface_deviations, point_curve2_deviation};
use crate::metrology::{
    ConstantTolMap, DiscreteDomainTolMap, Distance2, Distance3, Measurement, SurfaceDeviation2, SurfaceDeviationSet2,
    Tolerance, ToleranceMap,
};

fn next_up(x: f64) -> f64 { f64::from_bits(x.to_bits() + 1) } // x > 0
fn next_down_pos(x: f64) -> f64 { f64::from_bits(x.to_bits() - 1) } // x > 0
fn ulp_up(x: f64) -> f64 { if x > 0.0 { next_up(x) } else if x < 0.0 { -next_down_pos(-x) } else { f64::from_bits(1) } }
fn ulp_down(x: f64) -> f64 { -ulp_up(-x) }
/// lengths of a few ulps: absolute 1e-12 plus relative 1e-9
fn near(a: f64, b: f64) -> bool { (a - b).abs() <= 1e-12 + 1e-9 * a.abs().max(b.abs()) }

// ------------------------------------------------------------------------------------------------ (a) deviation sets
fn dev(k: usize, d: f64) -> SurfaceDeviation2 {
    // the reference point carries the insertion position, so that a reported extreme can be identified among ties
    SurfaceDeviation2::new(SurfacePoint::new(Point2::new(k as f64, 0.0), UnitVec2::new_unchecked(Vector2::new(0.0, 1.0))), d)
}

fn check_set(r: &mut Report, s: &SurfaceDeviationSet2, held: &[f64], how: &dyn Fn() -> String) {
    r.check(s.len() == held.len(), "set: holds exactly what was constructed and pushed (count)", how);
    let mut same = s.len() == held.len();
    if same { for i in 0..held.len() { same &= s[i].deviation == held[i] && s[i].surface.point.x == i as f64; } }
    r.check(same, "set: holds exactly what was constructed and pushed, in order", how);
    if held.is_empty() {
        r.check(s.max().is_none(), "set: no maximum when nothing is held", how);
        r.check(s.min().is_none(), "set: no minimum when nothing is held", how);
        r.check(s.symmetrical_zone_size() == 0.0, "set: symmetric zone of nothing is 0", how);
        return;
    }
    let bmax = held.iter().cloned().fold(f64::NEG_INFINITY, f64::max);
    let bmin = held.iter().cloned().fold(f64::INFINITY, f64::min);
    let babs = held.iter().cloned().fold(0.0f64, |a, v| a.max(v.abs()));
    match s.max() {
        None => r.check(false, "set: reports the true maximum of everything held", how),
        Some(m) => {
            r.check(m.deviation == bmax, "set: reports the true maximum of everything held", how);
            let k = m.surface.point.x as usize;
            r.check(k < held.len() && held[k] == m.deviation, "set: the reported maximum is one of the held items", how);
        }
    }
    match s.min() {
        None => r.check(false, "set: reports the true minimum of everything held", how),
        Some(m) => {
            r.check(m.deviation == bmin, "set: reports the true minimum of everything held", how);
            let k = m.surface.point.x as usize;
            r.check(k < held.len() && held[k] == m.deviation, "set: the reported minimum is one of the held items", how);
        }
    }
    r.check(s.symmetrical_zone_size() == 2.0 * babs, "set: symmetric zone is twice the largest |deviation| held", how);
}

fn deviation_sets(r: &mut Report) {
    let nu = next_up(0.1);
    let vals = [-1.0, -nu, -0.1, 0.0, 0.1, nu, 1.0];
    let nv = vals.len();
    for n in 0..=5usize {
        let total = nv.pow(n as u32);
        for code in 0..total {
            let mut h = Vec::with_capacity(n);
            let mut c = code;
            for _ in 0..n { h.push(vals[c % nv]); c /= nv; }
            // start: None = default(); Some(k) = new(first k items)
            let mut starts: Vec<Option<usize>> = vec![None];
            for k in 0..=n { starts.push(Some(k)); }
            for st in starts {
                r.case();
                let k0 = st.unwrap_or(0);
                let mut s = match st {
                    None => SurfaceDeviationSet2::default(),
                    Some(k) => SurfaceDeviationSet2::new((0..k).map(|i| dev(i, h[i])).collect()),
                };
                for step in k0..=n {
                    let how = || format!("{} then push {:?} (history {:?}, checked after {} items)",
                        match st { None => "default()".to_string(), Some(k) => format!("new({:?})", &h[..k]) }, &h[k0..step], h, step);
                    check_set(r, &s, &h[..step], &how);
                    if step < n {
                        // alternate the two push entry points
                        if step % 2 == 0 { s.push(dev(step, h[step])); } else { let d = dev(step, h[step]); s.push_new(d.surface, d.deviation); }
                    }
                }
            }
        }
    }
}

// ------------------------------------------------------------------------------------------------ (b) tolerance maps
fn tolerance_maps(r: &mut Report) {
    let pool = [-1.0, 0.0, 0.5, 2.0, 3.0];
    // every non-decreasing table of length 0..=4 over the pool
    let mut tables: Vec<Vec<f64>> = vec![vec![]];
    let mut frontier: Vec<Vec<usize>> = vec![vec![]];
    for _ in 0..4 {
        let mut next = vec![];
        for t in frontier.iter() {
            let lo = t.last().cloned().unwrap_or(0);
            for j in lo..pool.len() { let mut u = t.clone(); u.push(j); next.push(u); }
        }
        for t in next.iter() { tables.push(t.iter().map(|&j| pool[j]).collect()); }
        frontier = next;
    }
    let zone = |i: usize| Tolerance::new_unchecked(-(i as f64) - 1.0, i as f64 + 0.5);
    for t in tables.iter() {
        let n = t.len();
        let domain = if n == 0 { DiscreteDomain::default() } else {
            match DiscreteDomain::try_from(t.clone()) { Ok(d) => d, Err(_) => { r.check(false, "tolmap: an ascending finite table is a valid domain", || format!("{:?}", t)); continue; } }
        };
        // one zone per breakpoint is required
        if n > 0 {
            let short: Vec<Tolerance> = (0..n - 1).map(zone).collect();
            r.check(DiscreteDomainTolMap::try_new(domain.clone(), short).is_err(), "tolmap: a zone list shorter than the table is rejected", || format!("{:?}", t));
        }
        let long: Vec<Tolerance> = (0..n + 1).map(zone).collect();
        r.check(DiscreteDomainTolMap::try_new(domain.clone(), long).is_err(), "tolmap: a zone list longer than the table is rejected", || format!("{:?}", t));
        let map = match DiscreteDomainTolMap::try_new(domain, (0..n).map(zone).collect()) {
            Ok(m) => m,
            Err(_) => { r.check(false, "tolmap: one zone per breakpoint is accepted", || format!("{:?}", t)); continue; }
        };
        r.check(map.domain.values() == &t[..] && map.tol_zones.len() == n, "tolmap: construction keeps table and zones", || format!("{:?}", t));
        let mut xs: Vec<f64> = vec![-5.0, 10.0, 0.25];
        for (i, &b) in t.iter().enumerate() {
            xs.push(b); xs.push(ulp_up(b)); xs.push(ulp_down(b));
            if i + 1 < n { xs.push(0.5 * (b + t[i + 1])); }
        }
        if n > 0 { xs.push(t[0] - 1.0); xs.push(t[n - 1] + 1.0); }
        for &x in xs.iter() {
            r.case();
            let how = || format!("breakpoints {:?} (zone i = [-(i+1), i+0.5]), get({:?})", t, x);
            let got = map.get(x);
            // the greatest breakpoint not above x (its value; with repeated breakpoints any of their zones)
            let mut best: Option<f64> = None;
            for &b in t.iter() { if b <= x { best = Some(match best { Some(c) if c > b => c, _ => b }); } }
            match best {
                None => r.check(got.is_none(), "tolmap: no zone below the first breakpoint (or on an empty table)", how),
                Some(bv) => match got {
                    None => r.check(false, "tolmap: zone of the greatest breakpoint not above x", how),
                    Some(z) => {
                        let ok = (0..n).any(|i| t[i] == bv && z.lower == zone(i).lower && z.upper == zone(i).upper);
                        if x > t[n - 1] {
                            r.check(ok, "tolmap: the last zone beyond the end", how);
                        } else if x == bv {
                            r.check(ok, "tolmap: exactly on a breakpoint the zone of that breakpoint", how);
                        } else {
                            r.check(ok, "tolmap: zone of the greatest breakpoint not above x", how);
                        }
                    }
                },
            }
        }
    }
    // the constant map returns its zone everywhere
    let c = ConstantTolMap::new(zone(7));
    for x in [-1e9, -1.0, 0.0, 2.5, 1e9] {
        r.case();
        let z = c.get(x);
        r.check(matches!(z, Some(z) if z.lower == zone(7).lower && z.upper == zone(7).upper), "tolmap: a constant map returns its zone for every x", || format!("x = {:?}", x));
    }
}

// ------------------------------------------------------------------------------------------------ (c) point clouds
#[derive(Clone, Debug, PartialEq)]
struct Model { p: Vec<[f64; 3]>, n: Option<Vec<[f64; 3]>>, c: Option<Vec<[u8; 3]>> }

fn label_point(k: usize) -> Point3 { Point3::new(k as f64, 0.5 * k as f64, -(k as f64)) }
fn label_normal(k: usize) -> UnitVec3 { UnitVec3::new_normalize(Vector3::new(1.0, k as f64, 2.0)) }
fn label_color(k: usize) -> [u8; 3] { [(k % 251) as u8, ((k / 251) % 251) as u8, 7] }
fn arr(n: &UnitVec3) -> [f64; 3] { [n.x, n.y, n.z] }

fn observe(pc: &PointCloud) -> Model {
    Model {
        p: pc.points().iter().map(|p| [p.x, p.y, p.z]).collect(),
        n: pc.normals().map(|v| v.iter().map(arr).collect()),
        c: pc.colors().map(|v| v.to_vec()),
    }
}

/// build `count` labelled elements starting at label `from`
fn make(from: usize, count: usize, hn: bool, hc: bool) -> (Vec<Point3>, Option<Vec<UnitVec3>>, Option<Vec<[u8; 3]>>, Model) {
    let p: Vec<Point3> = (from..from + count).map(label_point).collect();
    let n: Option<Vec<UnitVec3>> = if hn { Some((from..from + count).map(label_normal).collect()) } else { None };
    let c: Option<Vec<[u8; 3]>> = if hc { Some((from..from + count).map(label_color).collect()) } else { None };
    let m = Model { p: p.iter().map(|q| [q.x, q.y, q.z]).collect(), n: n.as_ref().map(|v| v.iter().map(arr).collect()), c: c.clone() };
    (p, n, c, m)
}

fn lengths_equal(r: &mut Report, pc: &PointCloud, how: &dyn Fn() -> String) {
    let l = pc.points().len();
    r.check(pc.len() == l && pc.is_empty() == (l == 0), "cloud: len / is_empty report the number of points", how);
    r.check(pc.normals().map_or(true, |v| v.len() == l), "cloud: normals, when present, are as long as points", how);
    r.check(pc.colors().map_or(true, |v| v.len() == l), "cloud: colours, when present, are as long as points", how);
}

#[derive(Clone, Copy, Debug)]
enum Op { Append(bool, bool), Merge(bool, bool, usize), Select(usize) }

fn apply(r: &mut Report, pc: &mut PointCloud, m: &mut Model, op: Op, label: &mut usize, how: &dyn Fn() -> String) {
    let before = observe(pc);
    r.check(before == *m, "cloud: the three arrays hold exactly the elements added so far", how);
    match op {
        Op::Append(hn, hc) => {
            let k = *label; *label += 1;
            let res = pc.append(label_point(k), if hn { Some(label_normal(k)) } else { None }, if hc { Some(label_color(k)) } else { None });
            let accept = m.n.is_some() == hn && m.c.is_some() == hc;
            r.check(res.is_ok() == accept, "cloud: append is accepted exactly when normal / colour presence matches the cloud", how);
            if res.is_ok() {
                let q = label_point(k);
                m.p.push([q.x, q.y, q.z]);
                if hn { if let Some(v) = m.n.as_mut() { v.push(arr(&label_normal(k))); } }
                if hc { if let Some(v) = m.c.as_mut() { v.push(label_color(k)); } }
                r.check(observe(pc) == *m || !accept, "cloud: an accepted append adds exactly the given point, normal and colour at the end", how);
                if !accept { *m = observe(pc); }
            } else {
                r.check(observe(pc) == before, "cloud: a rejected append changes nothing", how);
            }
        }
        Op::Merge(hn, hc, cnt) => {
            let (p, n, c, om) = make(*label, cnt, hn, hc);
            *label += cnt;
            let other = match PointCloud::try_new(p, n, c) { Ok(o) => o, Err(_) => { r.check(false, "cloud: try_new accepts arrays of equal length", how); return; } };
            let res = pc.merge(other);
            let accept = m.n.is_some() == hn && m.c.is_some() == hc;
            r.check(res.is_ok() == accept, "cloud: merge is accepted exactly when both clouds agree on the presence of normals and colours", how);
            if res.is_ok() {
                m.p.extend(om.p.iter().cloned());
                if let (Some(a), Some(b)) = (m.n.as_mut(), om.n.as_ref()) { a.extend(b.iter().cloned()); }
                if let (Some(a), Some(b)) = (m.c.as_mut(), om.c.as_ref()) { a.extend(b.iter().cloned()); }
                r.check(observe(pc) == *m || !accept, "cloud: an accepted merge appends exactly the other cloud's elements, in order", how);
                if !accept { *m = observe(pc); }
            } else {
                r.check(observe(pc) == before, "cloud: a rejected merge changes nothing", how);
            }
        }
        Op::Select(kind) => {
            let l = m.p.len();
            let idx: Vec<usize> = match kind { 0 => vec![], 1 => if l > 0 { vec![0] } else { vec![] }, _ => if l > 0 { vec![l - 1, 0, l - 1, l / 2] } else { vec![] } };
            // a cloud that already broke the invariant may panic inside create_from_indices: reported by the clauses above
            if !(m.n.as_ref().map_or(true, |v| v.len() == l) && m.c.as_ref().map_or(true, |v| v.len() == l)) { return; }
            let sel = pc.create_from_indices(&idx);
            let want = Model {
                p: idx.iter().map(|&i| m.p[i]).collect(),
                n: m.n.as_ref().map(|v| idx.iter().map(|&i| v[i]).collect()),
                c: m.c.as_ref().map(|v| idx.iter().map(|&i| v[i]).collect()),
            };
            r.check(observe(&sel) == want, "cloud: an index selection holds exactly the selected elements of every present array", how);
            r.check(observe(pc) == before, "cloud: an index selection leaves the source unchanged", how);
            *pc = sel; *m = want;
        }
    }
    lengths_equal(r, pc, how);
}

fn point_clouds(r: &mut Report) {
    // try_new over every presence / length combination (0 = absent, 1 = present with the right length, 2 = present, one
    // short, 3 = present, one long)
    for np in [0usize, 1, 2] {
        for kn in 0..4usize { for kc in 0..4usize {
            let len_of = |k: usize| match k { 1 => Some(np), 2 => if np > 0 { Some(np - 1) } else { None }, 3 => Some(np + 1), _ => None };
            if (kn == 2 || kc == 2) && np == 0 { continue; }
            r.case();
            let p: Vec<Point3> = (0..np).map(label_point).collect();
            let n: Option<Vec<UnitVec3>> = if kn == 0 { None } else { Some((0..len_of(kn).unwrap()).map(label_normal).collect()) };
            let c: Option<Vec<[u8; 3]>> = if kc == 0 { None } else { Some((0..len_of(kc).unwrap()).map(label_color).collect()) };
            let how = || format!("try_new({} points, normals {:?}, colours {:?})", np, n.as_ref().map(|v| v.len()), c.as_ref().map(|v| v.len()));
            let accept = kn <= 1 && kc <= 1;
            let want = Model { p: p.iter().map(|q| [q.x, q.y, q.z]).collect(), n: n.as_ref().map(|v| v.iter().map(arr).collect()), c: c.clone() };
            match PointCloud::try_new(p.clone(), n.clone(), c.clone()) {
                Ok(pc) => {
                    r.check(accept, "cloud: try_new rejects a normal / colour array whose length differs from points", how);
                    if accept { r.check(observe(&pc) == want, "cloud: try_new keeps the given arrays", how); }
                    lengths_equal(r, &pc, &how);
                }
                Err(_) => r.check(!accept, "cloud: try_new accepts arrays of equal length", how),
            }
        } }
    }
    // conversions and the rigid transform keep the arrays the same length (and the colours untouched)
    for np in [0usize, 1, 3] {
        let p: Vec<Point3> = (0..np).map(label_point).collect();
        for nn in [np, np + 1] {
            r.case();
            let n: Vec<UnitVec3> = (0..nn).map(label_normal).collect();
            let how = || format!("PointCloud::try_from(({} points, {} normals))", np, nn);
            match PointCloud::try_from((&p[..], &n[..])) {
                Ok(pc) => {
                    r.check(nn == np, "cloud: try_from(points, normals) rejects arrays of different length", how);
                    r.check(observe(&pc) == Model { p: p.iter().map(|q| [q.x, q.y, q.z]).collect(), n: Some(n.iter().map(arr).collect()), c: None }, "cloud: try_from(points, normals) keeps the given arrays", how);
                    lengths_equal(r, &pc, &how);
                }
                Err(_) => r.check(nn != np, "cloud: try_from(points, normals) accepts arrays of equal length", how),
            }
        }
        r.case();
        let how = || format!("conversions from {} points / surface points", np);
        let pc = PointCloud::from(&p[..]);
        r.check(observe(&pc) == Model { p: p.iter().map(|q| [q.x, q.y, q.z]).collect(), n: None, c: None }, "cloud: from(points) holds exactly the points", how);
        lengths_equal(r, &pc, &how);
        let sps: Vec<SurfacePoint<3>> = (0..np).map(|k| SurfacePoint::new(label_point(k), label_normal(k))).collect();
        let pc = PointCloud::from(&sps[..]);
        r.check(observe(&pc) == Model { p: p.iter().map(|q| [q.x, q.y, q.z]).collect(), n: Some((0..np).map(|k| arr(&label_normal(k))).collect()), c: None }, "cloud: from(surface points) holds exactly the points and normals", how);
        lengths_equal(r, &pc, &how);
        for (hn, hc) in [(false, false), (true, false), (false, true), (true, true)] {
            r.case();
            let (p, n, c, m) = make(0, np, hn, hc);
            let how = || format!("transform of a cloud with {} points, normals: {}, colours: {}", np, hn, hc);
            if let Ok(mut pc) = PointCloud::try_new(p, n, c) {
                let iso = crate::geom3::Iso3::new(Vector3::new(1.0, -2.0, 0.5), Vector3::new(0.0, 0.0, std::f64::consts::FRAC_PI_2));
                pc.transform(&iso);
                let o = observe(&pc);
                lengths_equal(r, &pc, &how);
                r.check(o.p.len() == m.p.len() && o.n.is_some() == hn && o.c == m.c, "cloud: a rigid transform keeps the number of points, the presence of normals and the colours", how);
                let moved = (0..np).all(|k| { let q = iso * label_point(k); near(o.p[k][0], q.x) && near(o.p[k][1], q.y) && near(o.p[k][2], q.z) });
                r.check(moved, "cloud: a rigid transform moves every point by the transform", how);
            }
        }
    }
    // operation sequences
    let mut ops: Vec<Op> = vec![];
    for hn in [false, true] { for hc in [false, true] { ops.push(Op::Append(hn, hc)); } }
    for hn in [false, true] { for hc in [false, true] { for cnt in [0usize, 2] { ops.push(Op::Merge(hn, hc, cnt)); } } }
    for k in 0..3 { ops.push(Op::Select(k)); }
    let no = ops.len();
    for start in 0..12usize {
        let (hn, hc) = ((start & 1) != 0, (start & 2) != 0);
        let kind = start / 4; // 0: try_new with 0 points, 1: try_new with 2 points, 2: empty(hn, hc)
        for len in 0..=3usize {
            for code in 0..no.pow(len as u32) {
                r.case();
                let mut seq = vec![]; let mut c = code;
                for _ in 0..len { seq.push(ops[c % no]); c /= no; }
                let mut label = 0usize;
                let (mut pc, mut m) = if kind == 2 {
                    (PointCloud::empty(hn, hc), Model { p: vec![], n: if hn { Some(vec![]) } else { None }, c: if hc { Some(vec![]) } else { None } })
                } else {
                    let cnt = if kind == 0 { 0 } else { 2 };
                    let (p, n, c, m) = make(0, cnt, hn, hc);
                    label = cnt;
                    match PointCloud::try_new(p, n, c) { Ok(pc) => (pc, m), Err(_) => { r.check(false, "cloud: try_new accepts arrays of equal length", || format!("start {}", start)); continue; } }
                };
                let startname = match kind { 0 => "try_new(0 points", 1 => "try_new(2 points", _ => "empty(" };
                for (i, &op) in seq.iter().enumerate() {
                    let how = || format!("{}, normals: {}, colours: {}) then {:?} (failing at operation #{})", startname, hn, hc, seq, i + 1);
                    apply(r, &mut pc, &mut m, op, &mut label, &how);
                }
                let how = || format!("{}, normals: {}, colours: {}) then {:?} (final state)", startname, hn, hc, seq);
                r.check(observe(&pc) == m, "cloud: the three arrays hold exactly the elements added so far", how);
                lengths_equal(r, &pc, &how);
            }
        }
    }
}

// ------------------------------------------------------------------------------------------------ (d) distances
fn distances(r: &mut Report) {
    // 3D
    let pts3 = [Point3::new(0.0, 0.0, 0.0), Point3::new(1.0, 0.0, 0.0), Point3::new(-2.0, 3.0, 1.0), Point3::new(4.0, -1.0, 2.0), Point3::new(0.5, 0.25, -8.0)];
    let dirs3 = [Vector3::new(1.0, 0.0, 0.0), Vector3::new(0.0, -1.0, 0.0), Vector3::new(0.0, 0.0, 1.0), Vector3::new(0.6, 0.8, 0.0), Vector3::new(0.0, -0.6, 0.8),
        Vector3::new(1.0, 1.0, 1.0), Vector3::new(-1.0, 2.0, -2.0), Vector3::new(3.0, 0.0, -4.0), Vector3::new(-1.0, -1.0, 0.0)];
    for a in pts3.iter() { for b in pts3.iter() {
        for k in 0..=dirs3.len() {
            let dir = if k == 0 { None } else { Some(UnitVec3::new_normalize(dirs3[k - 1])) };
            if dir.is_none() && a == b { continue; } // no direction from a to a
            r.case();
            let how = || format!("Distance3::new({:?}, {:?}, {:?})", a.coords.as_slice(), b.coords.as_slice(), dir.map(|d| arr(&d)));
            let d = Distance3::new(*a, *b, dir);
            let w = b - a;
            r.check(d.a == *a && d.b == *b, "distance: keeps its end points", how);
            match dir {
                Some(u) => r.check(d.direction == u, "distance: keeps the given direction", how),
                None => r.check(near((d.direction.into_inner() * w.norm() - w).norm(), 0.0) && near(d.value(), w.norm()),
                                "distance: the default direction points from a to b, the value is the full distance", how),
            }
            let u = d.direction.into_inner();
            let proj = u.x * w.x + u.y * w.y + u.z * w.z;
            r.check(near(d.value(), proj), "distance: value equals the projection of b-a on the direction", how);
            let rev = d.reversed();
            r.check(rev.a == *b && rev.b == *a, "distance: reversal swaps the end points", how);
            r.check(near((rev.direction.into_inner() + u).norm(), 0.0), "distance: reversal flips the direction", how);
            r.check(near(rev.value(), d.value()), "distance: value is unchanged by reversal", how);
            r.check(near(rev.reversed().value(), d.value()) && rev.reversed().a == *a, "distance: reversing twice gives the original", how);
            let c = d.center();
            r.check(near((c.point - a).norm(), (c.point - b).norm()) && near((c.point - a).norm() + (c.point - b).norm(), w.norm()) && c.normal == d.direction,
                    "distance: center is the mid point with the distance's direction", how);
        }
    } }
    // 2D
    let pts2 = [Point2::new(0.0, 0.0), Point2::new(3.0, -4.0), Point2::new(-1.0, 0.5), Point2::new(2.0, 2.0)];
    let dirs2 = [Vector2::new(1.0, 0.0), Vector2::new(0.0, -1.0), Vector2::new(0.6, 0.8), Vector2::new(-1.0, 1.0), Vector2::new(-5.0, -12.0)];
    for a in pts2.iter() { for b in pts2.iter() {
        for k in 0..=dirs2.len() {
            let dir = if k == 0 { None } else { Some(UnitVec2::new_normalize(dirs2[k - 1])) };
            if dir.is_none() && a == b { continue; }
            r.case();
            let how = || format!("Distance2::new({:?}, {:?}, {:?})", a.coords.as_slice(), b.coords.as_slice(), dir.map(|d| [d.x, d.y]));
            let d = Distance2::new(*a, *b, dir);
            let w = b - a;
            let u = d.direction.into_inner();
            r.check(near(d.value(), u.x * w.x + u.y * w.y), "distance: value equals the projection of b-a on the direction", how);
            if dir.is_none() { r.check(near(d.value(), w.norm()), "distance: the default direction points from a to b, the value is the full distance", how); }
            let rev = d.reversed();
            r.check(rev.a == *b && rev.b == *a, "distance: reversal swaps the end points", how);
            r.check(near(rev.value(), d.value()), "distance: value is unchanged by reversal", how);
        }
    } }
}

/// (d') end points far from the origin: a = offset (|a| ~ 1e3, 1e6), b = a + s*v for separations |s| in {1e-3, 1e-2, 0.1, 1}
/// along and against v; b - a is exact in floating point (Sterbenz), so the projection of b-a on the direction is known
/// to ~1e-16 relative to the separation: the value must agree with it within 1e-12 * |b - a| (a value computed from the
/// separate projections of a and b is off by ~|a| * 1e-16, i.e. 1e-7 relative to a separation of 1e-3 at |a| = 1e6).
fn far_distances(r: &mut Report) {
    let offs3 = [Vector3::new(1.0, 1.0, 1.0), Vector3::new(1.0, -0.5, 0.25), Vector3::new(-0.75, 0.0, 1.0), Vector3::new(0.3, 0.7, -0.9)];
    let dirs3 = [Vector3::new(1.0, 0.0, 0.0), Vector3::new(0.0, -1.0, 0.0), Vector3::new(0.6, 0.8, 0.0), Vector3::new(1.0, 1.0, 1.0), Vector3::new(-1.0, 2.0, -2.0), Vector3::new(3.0, 0.0, -4.0)];
    let seps = [1e-3, 1e-2, 0.1, 1.0];
    for scale in [1e3, 1e6] { for o in offs3.iter() { for v in dirs3.iter() { for s in seps.iter() { for sign in [1.0, -1.0] {
        let a = Point3::from(o * scale);
        let b = a + v.normalize() * (*s * sign);
        let w = b - a;
        for k in 0..=dirs3.len() {
            let dir = if k == 0 { None } else { Some(UnitVec3::new_normalize(dirs3[k - 1])) };
            r.case();
            let how = || format!("Distance3::new({:?}, {:?}, {:?}) (|a| ~ {:e}, separation {:e})", a.coords.as_slice(), b.coords.as_slice(), dir.map(|d| arr(&d)), scale, w.norm());
            let d = Distance3::new(a, b, dir);
            let u = d.direction.into_inner();
            let proj = u.x * w.x + u.y * w.y + u.z * w.z;
            let tol = 1e-12 * w.norm();
            r.check((d.value() - proj).abs() <= tol, "distance far from the origin: value equals the projection of b-a on the direction within 1e-12 of the separation", || format!("{}: value {:e}, projection {:e}", how(), d.value(), proj));
            if dir.is_none() { r.check((d.value() - w.norm()).abs() <= tol, "distance far from the origin: with the default direction the value is the full distance within 1e-12 of the separation", || format!("{}: value {:e}", how(), d.value())); }
            let rev = d.reversed();
            r.check((rev.value() - d.value()).abs() <= tol, "distance far from the origin: value is unchanged by reversal within 1e-12 of the separation", || format!("{}: value {:e}, reversed {:e}", how(), d.value(), rev.value()));
        }
    } } } } }
    let offs2 = [Vector2::new(1.0, 1.0), Vector2::new(-0.5, 0.75), Vector2::new(0.3, -0.9)];
    let dirs2 = [Vector2::new(1.0, 0.0), Vector2::new(0.0, -1.0), Vector2::new(0.6, 0.8), Vector2::new(-1.0, 1.0), Vector2::new(-5.0, -12.0)];
    for scale in [1e3, 1e6] { for o in offs2.iter() { for v in dirs2.iter() { for s in seps.iter() { for sign in [1.0, -1.0] {
        let a = Point2::from(o * scale);
        let b = a + v.normalize() * (*s * sign);
        let w = b - a;
        for k in 0..=dirs2.len() {
            let dir = if k == 0 { None } else { Some(UnitVec2::new_normalize(dirs2[k - 1])) };
            r.case();
            let how = || format!("Distance2::new({:?}, {:?}, {:?}) (|a| ~ {:e}, separation {:e})", a.coords.as_slice(), b.coords.as_slice(), dir.map(|d| [d.x, d.y]), scale, w.norm());
            let d = Distance2::new(a, b, dir);
            let u = d.direction.into_inner();
            let proj = u.x * w.x + u.y * w.y;
            let tol = 1e-12 * w.norm();
            r.check((d.value() - proj).abs() <= tol, "distance far from the origin: value equals the projection of b-a on the direction within 1e-12 of the separation", || format!("{}: value {:e}, projection {:e}", how(), d.value(), proj));
            let rev = d.reversed();
            r.check((rev.value() - d.value()).abs() <= tol, "distance far from the origin: value is unchanged by reversal within 1e-12 of the separation", || format!("{}: value {:e}, reversed {:e}", how(), d.value(), rev.value()));
        }
    } } } } }
}

// ------------------------------------------------------------------------------------------------ (d) curve deviations
const DISTS: [f64; 5] = [1e-7, 1e-5, 1e-4, 1e-2, 1.0];

/// brute force: closest point of the polyline to p, its distance, and the indices of the edges attaining it
fn closest_on_polyline(v: &[Point2], p: &Point2) -> (Point2, f64, Vec<usize>) {
    let mut best = f64::INFINITY; let mut bp = v[0]; let mut ds = vec![];
    for i in 0..v.len() - 1 {
        let e = v[i + 1] - v[i];
        let t = ((p - v[i]).dot(&e) / e.dot(&e)).clamp(0.0, 1.0);
        let q = v[i] + e * t;
        let d = (p - q).norm();
        ds.push(d);
        if d < best { best = d; bp = q; }
    }
    let edges = (0..ds.len()).filter(|&i| ds[i] <= best + 1e-13).collect();
    (bp, best, edges)
}

/// kind: 0 = off the interior of an edge along its normal, 1 = off a vertex / beyond an end
fn check_deviation(r: &mut Report, name: &str, verts: &[Point2], dv: &SurfaceDeviation2, p: &Point2, kind: u8, d_nom: f64, via: &str) {
    let how = || format!("{} [{}], measured point ({:?}, {:?}) (nominal offset {:?}) via {}: reference ({:?}, {:?}), direction ({:?}, {:?}), value {:?}",
        name, verts.iter().map(|q| format!("({},{})", q.x, q.y)).collect::<Vec<_>>().join(" "), p.x, p.y, d_nom, via,
        dv.surface.point.x, dv.surface.point.y, dv.surface.normal.x, dv.surface.normal.y, dv.deviation);
    let (cp, dist, edges) = closest_on_polyline(verts, p);
    r.check(near((dv.surface.point - cp).norm(), 0.0), "curve deviation: the reference point is the closest point of the nominal curve", how);
    r.check(near(dv.surface.normal.norm(), 1.0), "curve deviation: the direction is a unit vector", how);
    // the code deliberately measures along the curve normal when the measured point is within 1e-6 of the curve: off a
    // vertex this differs from the closest distance by less than 1e-6 (props/C16.json not_claimed)
    let coincident = dist < 1e-6 && kind == 1;
    if coincident {
        r.check((dv.deviation.abs() - dist).abs() < 1e-6, "curve deviation: within 1e-6 of a vertex the magnitude is within 1e-6 of the closest distance", how);
    } else {
        r.check(near(dv.deviation.abs(), dist), "curve deviation: magnitude equals the closest distance", how);
        let rec = dv.surface.point + dv.surface.normal.into_inner() * dv.deviation;
        r.check(near((rec - p).norm(), 0.0), "curve deviation: reference + direction * value reconstructs the measured point", how);
        r.check(near((dv.actual_point() - p).norm(), 0.0), "curve deviation: actual_point() reconstructs the measured point", how);
    }
    // side of the outward normal (edge direction rotated by -90 degrees) of every edge attaining the closest distance
    let w = p - cp;
    let mut sides = vec![];
    for &i in edges.iter() {
        let e = (verts[i + 1] - verts[i]).normalize();
        let n = Vector2::new(e.y, -e.x);
        sides.push(w.dot(&n));
    }
    let tiny = 1e-9 * dist;
    if sides.iter().all(|&s| s > tiny) { r.check(dv.deviation > 0.0, "curve deviation: positive on the outward-normal side", how); }
    if sides.iter().all(|&s| s < -tiny) { r.check(dv.deviation < 0.0, "curve deviation: negative on the side opposite to the normal", how); }
}

fn curve_deviations(r: &mut Report) {
    let sq = [Point2::new(0.0, 0.0), Point2::new(4.0, 0.0), Point2::new(4.0, 4.0), Point2::new(0.0, 4.0), Point2::new(0.0, 0.0)];
    let open = [Point2::new(0.0, 0.0), Point2::new(4.0, 0.0), Point2::new(4.0, 4.0)];
    let unit = |x: f64, y: f64| Vector2::new(x, y).normalize();
    for (name, verts) in [("closed CCW square", &sq[..]), ("open polyline", &open[..])] {
        let curve = match Curve2::from_points(verts, 1e-6, false) { Ok(c) => c, Err(_) => { r.check(false, "curve deviation: the nominal curve can be built", || name.to_string()); continue; } };
        let closed = verts.len() == 5;
        // measured points: (point, kind, nominal offset)
        let mut pts: Vec<(Point2, u8, f64)> = vec![];
        for i in 0..verts.len() - 1 {
            let e = (verts[i + 1] - verts[i]).normalize();
            let n = Vector2::new(e.y, -e.x);
            for f in [0.375, 0.5] {
                let foot = verts[i] + (verts[i + 1] - verts[i]) * f;
                for &d in DISTS.iter() { for s in [1.0, -1.0] { pts.push((foot + n * (d * s), 0, d)); } }
            }
        }
        // off vertices: directions inside the outer normal cone of the vertex (and, for the ends of the open curve, all
        // around the end: tangent, both sides)
        let mut corner_dirs: Vec<(Point2, Vec<Vector2>)> = vec![];
        if closed {
            corner_dirs.push((sq[0], vec![unit(-1.0, -1.0), unit(-0.6, -0.8), unit(-0.8, -0.6)]));
            corner_dirs.push((sq[1], vec![unit(1.0, -1.0), unit(0.6, -0.8), unit(0.8, -0.6)]));
            corner_dirs.push((sq[2], vec![unit(1.0, 1.0), unit(0.6, 0.8), unit(0.8, 0.6)]));
            corner_dirs.push((sq[3], vec![unit(-1.0, 1.0), unit(-0.6, 0.8), unit(-0.8, 0.6)]));
        } else {
            corner_dirs.push((open[1], vec![unit(1.0, -1.0), unit(0.6, -0.8), unit(0.8, -0.6)]));
            // beyond the start (edge direction +x, normal -y) and beyond the end (edge direction +y, normal +x)
            corner_dirs.push((open[0], vec![unit(-1.0, 0.0), unit(-1.0, -1.0), unit(-1.0, 1.0), unit(-0.6, -0.8), unit(-0.8, 0.6), unit(-0.28, 0.96)]));
            corner_dirs.push((open[2], vec![unit(0.0, 1.0), unit(1.0, 1.0), unit(-1.0, 1.0), unit(0.8, 0.6), unit(-0.6, 0.8), unit(-0.96, 0.28)]));
        }
        for (c, dirs) in corner_dirs.iter() { for u in dirs.iter() { for &d in DISTS.iter() { pts.push((c + u * d, 1, d)); } } }
        // inside, near a corner (closest point on an edge interior)
        if closed { for &d in DISTS.iter() { pts.push((Point2::new(2.0 * d, d), 0, d)); pts.push((Point2::new(4.0 - 2.0 * d, 4.0 - d), 0, d)); } }

        // 1. one point at a time, through the station query + point_curve2_deviation
        for (p, kind, d) in pts.iter() {
            r.case();
            let st = curve.at_closest_to_point(p);
            let dv = point_curve2_deviation(&st, p);
            check_deviation(r, name, verts, &dv, p, *kind, *d, "point_curve2_deviation(at_closest_to_point(p), p)");
        }
        // 2. all at once: one deviation per measured point, in order, and the set's extremes are those of its contents
        let all: Vec<Point2> = pts.iter().map(|t| t.0).collect();
        let set = line_surface_deviations(&curve, &all, None);
        r.case();
        r.check(set.len() == all.len(), "line deviations: one deviation per measured point without an interval", || name.to_string());
        if set.len() == all.len() {
            for (i, (p, kind, d)) in pts.iter().enumerate() { check_deviation(r, name, verts, &set[i], p, *kind, *d, "line_surface_deviations(.., None)"); }
            let held: Vec<f64> = (0..set.len()).map(|i| set[i].deviation).collect();
            let bmax = held.iter().cloned().fold(f64::NEG_INFINITY, f64::max);
            let bmin = held.iter().cloned().fold(f64::INFINITY, f64::min);
            r.check(set.max().map(|m| m.deviation) == Some(bmax) && set.min().map(|m| m.deviation) == Some(bmin),
                    "line deviations: the returned set reports the true extremes of its contents", || name.to_string());
        }
        // 3. with an interval of lengths along the curve: exactly the points whose closest station lies in it, in order
        for (lo, hi) in [(1.0, 7.0), (0.0, 4.0), (5.0, 5.5), (100.0, 200.0)] {
            r.case();
            let iv = Interval::new(lo, hi);
            let set = line_surface_deviations(&curve, &all, Some(iv));
            let keep: Vec<usize> = (0..all.len()).filter(|&i| { let l = curve.at_closest_to_point(&all[i]).length_along(); lo <= l && l <= hi }).collect();
            let how = || format!("{} interval [{}, {}]", name, lo, hi);
            r.check(set.len() == keep.len(), "line deviations: exactly the points whose closest station lies in the interval are kept", how);
            if set.len() == keep.len() {
                let mut same = true;
                for (k, &i) in keep.iter().enumerate() {
                    let one = point_curve2_deviation(&curve.at_closest_to_point(&all[i]), &all[i]);
                    same &= set[k].deviation == one.deviation && set[k].surface.point == one.surface.point;
                }
                r.check(same, "line deviations: kept deviations are the point deviations, in input order", how);
            }
        }
    }
}

// ------------------------------------------------------------------------------------------------ (d) mesh deviations
/// brute force on the box [0,s]^3: closest surface point, distance, outward normals of the faces containing it
fn closest_on_box(s: f64, p: &Point3) -> (Point3, f64, Vec<Vector3>) {
    let inside = (0..3).all(|k| p[k] > 0.0 && p[k] < s);
    let mut q = *p;
    if inside {
        // nearest face
        let mut best = f64::INFINITY; let mut bk = 0; let mut hi = false;
        for k in 0..3 { if p[k] < best { best = p[k]; bk = k; hi = false; } if s - p[k] < best { best = s - p[k]; bk = k; hi = true; } }
        q[bk] = if hi { s } else { 0.0 };
    } else {
        for k in 0..3 { q[k] = p[k].clamp(0.0, s); }
    }
    let mut normals = vec![];
    for k in 0..3 {
        if q[k] == 0.0 { let mut n = Vector3::zeros(); n[k] = -1.0; normals.push(n); }
        if q[k] == s { let mut n = Vector3::zeros(); n[k] = 1.0; normals.push(n); }
    }
    (q, (p - q).norm(), normals)
}

fn mesh_deviations(r: &mut Report) {
    let s = 4.0;
    let mesh = Mesh::create_box(s, s, s, false);
    let unit = |x: f64, y: f64, z: f64| Vector3::new(x, y, z).normalize();
    // (point, kind, nominal offset, outside?)   kind 0 = off a face interior along its normal, 1 = off a box edge / corner
    let mut pts: Vec<(Point3, u8, f64, bool)> = vec![];
    for k in 0..3usize { for hi in [false, true] {
        let mut n = Vector3::zeros(); n[k] = if hi { 1.0 } else { -1.0 };
        for (u, v) in [(2.0, 2.0), (1.5, 2.5)] {
            let mut foot = Point3::new(0.0, 0.0, 0.0);
            foot[k] = if hi { s } else { 0.0 }; foot[(k + 1) % 3] = u; foot[(k + 2) % 3] = v;
            for &d in DISTS.iter() { pts.push((foot + n * d, 0, d, true)); pts.push((foot - n * d, 0, d, false)); }
        }
    } }
    // corners: outward diagonal and two other directions of the outer cone; box edges: outward diagonal
    for cx in [0.0, s] { for cy in [0.0, s] { for cz in [0.0, s] {
        let sg = |c: f64| if c == 0.0 { -1.0 } else { 1.0 };
        let c = Point3::new(cx, cy, cz);
        for u in [unit(sg(cx), sg(cy), sg(cz)), unit(sg(cx) * 2.0, sg(cy) * 2.0, sg(cz)), unit(sg(cx) * 0.6, sg(cy) * 0.8, 0.0)] {
            for &d in DISTS.iter() { pts.push((c + u * d, 1, d, true)); }
        }
    } } }
    for &d in DISTS.iter() {
        pts.push((Point3::new(s, s, 1.5) + unit(1.0, 1.0, 0.0) * d, 1, d, true));
        pts.push((Point3::new(0.0, 2.5, s) + unit(-0.6, 0.0, 0.8) * d, 1, d, true));
        pts.push((Point3::new(1.0, 0.0, 0.0) + unit(0.0, -0.8, -0.6) * d, 1, d, true));
    }
    // outside the solid, closest to a box edge / corner, exactly in the plane of one of the faces meeting there
    for &d in DISTS.iter() {
        pts.push((Point3::new(1.5, -d, 0.0), 1, d, true));
        pts.push((Point3::new(1.5, 0.0, -d), 1, d, true));
        pts.push((Point3::new(s + d, 2.5, s), 1, d, true));
        pts.push((Point3::new(s, 2.5, s + d), 1, d, true));
        pts.push((Point3::new(0.0, s + d, 1.0), 1, d, true));
        pts.push((Point3::new(s + d, s, s), 1, d, true));
        pts.push((Point3::new(0.0, 0.0, -d), 1, d, true));
    }
    for (p, kind, d_nom, outside) in pts.iter() {
        let (cp, dist, normals) = closest_on_box(s, p);
        let w = p - cp;
        for mode in 0..2 {
            r.case();
            let m = if mode == 0 { DistMode::ToPoint } else { DistMode::ToPlane };
            let dv = mesh.measure_point_deviation(p, m);
            let u = dv.direction.into_inner();
            let val = dv.value();
            let how = || format!("box [0,4]^3, measured point {:?} (nominal offset {:?}, {}), mode {}: reference {:?}, direction {:?}, value {:?}",
                p.coords.as_slice(), d_nom, if *outside { "outside" } else { "inside" }, if mode == 0 { "ToPoint" } else { "ToPlane" },
                dv.a.coords.as_slice(), u.as_slice(), val);
            r.check(near((dv.a - cp).norm(), 0.0), "mesh deviation: the reference point is the closest point of the nominal surface", how);
            r.check(dv.b == *p, "mesh deviation: the measured point is kept", how);
            r.check(near(u.norm(), 1.0), "mesh deviation: the direction is a unit vector", how);
            r.check(near(val, u.dot(&(dv.b - dv.a))), "mesh deviation: value equals the projection of b-a on the direction", how);
            if mode == 0 {
                let coincident = dist < 1e-6 && *kind == 1;
                if coincident {
                    r.check((val.abs() - dist).abs() < 1e-6, "mesh deviation (point mode): within 1e-6 of a box edge / corner the magnitude is within 1e-6 of the closest distance", how);
                } else {
                    r.check(near(val.abs(), dist), "mesh deviation (point mode): magnitude equals the closest distance", how);
                    r.check(near((dv.a + u * val - p).norm(), 0.0), "mesh deviation (point mode): reference + direction * value reconstructs the measured point", how);
                }
                // side of the outward normal of every face that contains the closest point
                let tiny = 1e-9 * dist;
                if normals.iter().all(|n| n.dot(&w) > tiny) { r.check(val > 0.0, "mesh deviation (point mode): positive on the outward-normal side", how); }
                else if normals.iter().all(|n| n.dot(&w) < -tiny) { r.check(val < 0.0, "mesh deviation (point mode): negative on the inner side", how); }
                else if *outside && dist >= 1e-6 {
                    // outside the box but in the plane of one of the faces meeting at the closest point
                    r.check(val > 0.0, "mesh deviation (point mode): a point outside the solid, in the plane of one adjacent face, is positive", how);
                }
            } else {
                // the direction is the outward normal of a face that contains the closest point
                let on_face = normals.iter().any(|n| near((n - u).norm(), 0.0));
                r.check(on_face, "mesh deviation (plane mode): measured along the outward normal at the closest point", how);
                r.check(near(val.abs(), u.dot(&w).abs()), "mesh deviation (plane mode): magnitude equals the normal component of the offset", how);
                let side = u.dot(&w);
                if on_face && side > 1e-9 * dist { r.check(val > 0.0, "mesh deviation (plane mode): positive on the outward-normal side", how); }
                if on_face && side < -1e-9 * dist { r.check(val < 0.0, "mesh deviation (plane mode): negative on the inner side", how); }
                if *kind == 0 {
                    r.check(near(val.abs(), dist), "mesh deviation (plane mode): off a face interior the normal component is the closest distance", how);
                    r.check(near((dv.a + u * val - p).norm(), 0.0), "mesh deviation (plane mode): off a face interior reference + direction * value reconstructs the measured point", how);
                }
            }
        }
    }
}

// ------------------------------------------------------------------------------------------------ wave 4 additions
fn guarded<T>(f: impl FnOnce() -> T) -> Option<T> { std::panic::catch_unwind(std::panic::AssertUnwindSafe(f)).ok() }

/// (a2) deviation sets holding values at the ends of the f64 range: every vector of length 1..=3 over
/// {+-f64::MAX, +-inf, 0, +-1, +-MIN_POSITIVE, +-5e-324} given to new(), followed by every single push from the same
/// pool: max / min are Some and the true extremes (NaN-free values have a maximum and a minimum), nothing panics.
fn extreme_deviation_sets(r: &mut Report) {
    let vals = [f64::MAX, f64::MIN, f64::INFINITY, f64::NEG_INFINITY, 0.0, 1.0, -1.0, f64::MIN_POSITIVE, -f64::MIN_POSITIVE, 5e-324, -5e-324];
    let nv = vals.len();
    for n in 1..=3usize {
        for code in 0..nv.pow(n as u32) {
            let mut h = Vec::with_capacity(n + 1);
            let mut c = code;
            for _ in 0..n { h.push(vals[c % nv]); c /= nv; }
            r.case();
            let how = || format!("new({:?})", h);
            let Some(s) = guarded(|| SurfaceDeviationSet2::new((0..n).map(|i| dev(i, h[i])).collect())) else { r.check(false, "set: new returns (no panic) on NaN-free values, +-inf and +-f64::MAX included", how); continue; };
            if guarded(|| { let mut q = Report::new(""); check_set(&mut q, &s, &h, &how); }).is_none() {
                r.check(false, "set: max / min / symmetrical_zone_size return (no panic) on NaN-free values, +-inf and +-f64::MAX included", how);
                let bmax = h.iter().cloned().fold(f64::NEG_INFINITY, f64::max);
                let bmin = h.iter().cloned().fold(f64::INFINITY, f64::min);
                r.check(guarded(|| s.max().map(|m| m.deviation)) == Some(Some(bmax)), "set: reports the true maximum of everything held", how);
                r.check(guarded(|| s.min().map(|m| m.deviation)) == Some(Some(bmin)), "set: reports the true minimum of everything held", how);
                continue;
            }
            check_set(r, &s, &h, &how);
            for &v in vals.iter() {
                let mut h2 = h.clone(); h2.push(v);
                let how2 = || format!("new({:?}) then push {:?}", h, v);
                let got = guarded(|| { let mut t = SurfaceDeviationSet2::new((0..n).map(|i| dev(i, h[i])).collect()); t.push(dev(n, v)); let mut q = Report::new(""); check_set(&mut q, &t, &h2, &how2); t });
                match got {
                    None => r.check(false, "set: push / max / min return (no panic) on NaN-free values, +-inf and +-f64::MAX included", how2),
                    Some(t) => check_set(r, &t, &h2, &how2),
                }
            }
        }
    }
}

/// the zone a map must answer with: the greatest breakpoint not above x (with repeated breakpoints any of their zones)
fn check_map_queries(r: &mut Report, map: &DiscreteDomainTolMap, t: &[f64], built: &str) {
    let n = t.len();
    let zone = |i: usize| Tolerance::new_unchecked(-(i as f64) - 1.0, i as f64 + 0.5);
    let mut xs: Vec<f64> = vec![-5.0, 0.25];
    for (i, &b) in t.iter().enumerate() {
        xs.push(b); xs.push(ulp_up(b)); xs.push(ulp_down(b));
        if i + 1 < n { xs.push(0.5 * (b + t[i + 1])); }
    }
    if n > 0 { xs.push(t[n - 1] + 1.0); }
    for &x in xs.iter() {
        let how = || format!("breakpoints {:?} ({}; zone i = [-(i+1), i+0.5]), get({:?})", t, built, x);
        let Some(got) = guarded(|| map.get(x)) else { r.check(false, "tolmap: get returns (no panic)", how); continue; };
        let mut best: Option<f64> = None;
        for &b in t.iter() { if b <= x { best = Some(match best { Some(c) if c > b => c, _ => b }); } }
        match (best, got) {
            (None, g) => r.check(g.is_none(), "tolmap: no zone below the first breakpoint (or on an empty table)", how),
            (Some(_), None) => r.check(false, "tolmap: zone of the greatest breakpoint not above x", how),
            (Some(bv), Some(z)) => {
                let ok = (0..n).any(|i| t[i] == bv && z.lower == zone(i).lower && z.upper == zone(i).upper);
                if x == bv { r.check(ok, "tolmap: exactly on a breakpoint the zone of that breakpoint", how); }
                else { r.check(ok, "tolmap: zone of the greatest breakpoint not above x", how); }
            }
        }
    }
}

/// (b2) breakpoint tables as the constructors deliver them. try_from: every vector of length 0..=4 over a pool with
/// neighbours one rounding step apart at several magnitudes (0.3 / 0.1+0.2, 1 / 1+2^-52, -1 / -1+2^-53, 1e6 / next,
/// 0 / 5e-324 / 1e-17): accepted exactly when w[0] <= w[1] for every neighbouring pair (ascending means <=, exactly),
/// the accepted table answers every query with the greatest breakpoint not above x.  push: every history of length
/// <= 4 over {-1, 0, 0.3, 0.1+0.2, 1, 2, 3, +inf, NaN} from the empty table and from try_from(prefix): a value below
/// the LAST breakpoint is refused and changes nothing, the table stays ascending, the map built on it answers as above.
fn breakpoint_tables(r: &mut Report) {
    let zone = |i: usize| Tolerance::new_unchecked(-(i as f64) - 1.0, i as f64 + 0.5);
    let ascending = |v: &[f64]| v.iter().all(|x| x.is_finite()) && v.windows(2).all(|w| w[0] <= w[1]);
    let pool = [-1.0, ulp_up(-1.0), 0.0, 5e-324, 1e-17, 0.3, 0.1 + 0.2, 1.0, ulp_up(1.0), 1e6, ulp_up(1e6)];
    let np = pool.len();
    for n in 0..=4usize {
        for code in 0..np.pow(n as u32) {
            let mut t = Vec::with_capacity(n);
            let mut c = code;
            for _ in 0..n { t.push(pool[c % np]); c /= np; }
            r.case();
            let how = || format!("DiscreteDomain::try_from({:?})", t);
            let Some(res) = guarded(|| DiscreteDomain::try_from(t.clone())) else { r.check(false, "breakpoint table: try_from returns (no panic)", how); continue; };
            match res {
                Err(_) => r.check(!ascending(&t), "breakpoint table: an ascending finite table is accepted (equal neighbours included)", how),
                Ok(d) => {
                    r.check(ascending(&t), "breakpoint table: a table whose neighbours are out of order - even by one rounding step - is rejected (ascending means <=, exactly)", how);
                    r.check(d.values() == &t[..], "breakpoint table: try_from keeps the values", how);
                    if let Ok(map) = DiscreteDomainTolMap::try_new(d, (0..n).map(zone).collect()) { check_map_queries(r, &map, &t, "try_from"); }
                    else { r.check(false, "tolmap: one zone per breakpoint is accepted", how); }
                }
            }
        }
    }
    let pushes = [-1.0, 0.0, 0.3, 0.1 + 0.2, 1.0, 2.0, 3.0, f64::INFINITY, f64::NAN];
    let nq = pushes.len();
    for n in 1..=4usize {
        for code in 0..nq.pow(n as u32) {
            let mut h = Vec::with_capacity(n);
            let mut c = code;
            for _ in 0..n { h.push(pushes[c % nq]); c /= nq; }
            for k0 in 0..n {
                // start: the empty table (k0 = 0) or try_from(first k0 values) when that prefix is a valid table
                if k0 > 0 && !ascending(&h[..k0]) { continue; }
                let Ok(mut d) = (if k0 == 0 { Ok(DiscreteDomain::default()) } else { DiscreteDomain::try_from(h[..k0].to_vec()) }) else { continue; };
                r.case();
                let mut model: Vec<f64> = h[..k0].to_vec();
                for step in k0..n {
                    let v = h[step];
                    let before = model.clone();
                    let how = || format!("{} then push each of {:?} (table before the last push: {:?})", if k0 == 0 { "DiscreteDomain::default()".to_string() } else { format!("try_from({:?})", &h[..k0]) }, &h[k0..=step], before);
                    let expect_ok = v.is_finite() && model.last().map_or(true, |l| v >= *l);
                    let Some(ok) = guarded(|| d.push(v).is_ok()) else { r.check(false, "breakpoint table: push returns (no panic)", how); break; };
                    r.check(ok == expect_ok, "breakpoint table: push accepts exactly a finite value not below the LAST breakpoint", how);
                    if ok && expect_ok { model.push(v); }
                    let same = d.values().len() == model.len() && d.values().iter().zip(model.iter()).all(|(a, b)| a == b);
                    if expect_ok { r.check(same, "breakpoint table: an accepted push appends the value", how); }
                    else { r.check(same, "breakpoint table: a refused push changes nothing", how); }
                    r.check(ascending(d.values()), "breakpoint table: stays finite and ascending after any push history", how);
                    if !same { break; }
                }
                if d.values() == &model[..] {
                    let m = model.len();
                    if let Ok(map) = DiscreteDomainTolMap::try_new(d, (0..m).map(zone).collect()) { check_map_queries(r, &map, &model, "grown by push"); }
                    else { r.check(false, "tolmap: one zone per breakpoint is accepted", || format!("{:?}", model)); }
                }
            }
        }
    }
}

pub fn run() -> Option<Report> {
    let mut r = Report::new("deviation sets: all push histories of length <= 5 over 7 values incl. ties and one-ulp neighbours, from default() and new(prefix); \
tolerance maps: all ascending tables of length 0..=4 over 5 breakpoints, x at breakpoints, one-ulp neighbours, midpoints, below the start, beyond the end; \
point clouds: all sequences of <= 3 operations (append / merge / create_from_indices, every presence combination) from 12 starts, try_new over all presence/length combinations; \
distances on integer points with 9 directions, and with end points offset by 1e3 and 1e6 from the origin (4 offsets in 3D, 3 in 2D) at separations 1e-3, 1e-2, 0.1, 1 along and against 6 (5) unit vectors, measured along the default and 6 (5) given directions, tolerance 1e-12 of the separation; curve / mesh deviations on a square of side 4, an open polyline and a 4x4x4 box at offsets 1e-7, 1e-5, 1e-4, 1e-2, 1 on both sides, off corners and beyond ends; \
wave 4: deviation sets built by new() from every vector of length 1..=3 over {+-f64::MAX, +-inf, 0, +-1, +-MIN_POSITIVE, +-5e-324} plus one push; breakpoint tables: try_from on every vector of length 0..=4 over 11 values with neighbours one rounding step apart (0.3 / 0.1+0.2, 1 / 1+2^-52, -1 / -1+2^-53, 1e6 / next, 0 / 5e-324 / 1e-17), push histories of length <= 4 over {-1, 0, 0.3, 0.1+0.2, 1, 2, 3, +inf, NaN} from the empty table and from try_from(prefix), every resulting table queried at breakpoints, one-ulp neighbours and midpoints");
    deviation_sets(&mut r);
    tolerance_maps(&mut r);
    // the real code is called under catch_unwind in the wave-4 groups: keep the default hook from printing one message per caught panic
    let hook = std::panic::take_hook();
    std::panic::set_hook(Box::new(|_| {}));
    extreme_deviation_sets(&mut r);
    breakpoint_tables(&mut r);
    std::panic::set_hook(hook);
    point_clouds(&mut r);
    distances(&mut r);
    far_distances(&mut r);
    curve_deviations(&mut r);
    mesh_deviations(&mut r);
    Some(r)
}
